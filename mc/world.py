"""E1 -- virtual world: m real MPyC parties in one process, on virtual event loops with
in-memory links.  Every step a real selector event loop could interleave is an explicit,
schedulable event; nothing in /repo is modified (seams are rebindings inside per-party
copies of the mpyc package, the "universes").
"""

import sys
import io
import heapq
import asyncio
import logging
import hashlib
import struct
import contextlib
from asyncio import events as _aevents
from asyncio import base_events as _base_events

logging.getLogger('asyncio').setLevel(logging.CRITICAL)   # loop errors are recorded, not printed

_PKG_MODS = ('asyncoro', 'sectypes', 'mpctools', 'seclists', 'secpols', 'secgroups', 'random',
             'statistics')


class HarnessError(Exception):
    """The harness (not the code under test) is inconsistent; never reported as a violation."""


# ------------------------------------------------------------------------------------------
# universes
# ------------------------------------------------------------------------------------------

class Universe:
    """A private copy of the mpyc package (one per party)."""

    def __init__(self, index):
        self.index = index
        saved = {k: v for k, v in sys.modules.items() if k == 'mpyc' or k.startswith('mpyc.')}
        for k in saved:
            del sys.modules[k]
        argv = sys.argv
        sys.argv = ['verif', '--no-log']
        out = io.StringIO()
        try:
            with contextlib.redirect_stdout(out), contextlib.redirect_stderr(out):
                import mpyc.runtime  # noqa
            self.modules = {k: v for k, v in sys.modules.items()
                            if k == 'mpyc' or k.startswith('mpyc.')}
        finally:
            sys.argv = argv
            for k in list(sys.modules):
                if k == 'mpyc' or k.startswith('mpyc.'):
                    del sys.modules[k]
            sys.modules.update(saved)
        self.mpyc = self.modules['mpyc']
        self.rtmod = self.modules['mpyc.runtime']
        self.pkgdir = self.rtmod.__file__.rsplit('/', 1)[0] + '/'
        self.asyncoro = self.modules['mpyc.asyncoro']
        self.thresha = self.modules['mpyc.thresha']
        self.sectypes = self.modules['mpyc.sectypes']
        self.finfields = self.modules['mpyc.finfields']
        self.options = None
        self.mpc = None
        self._cfg = None

    def install(self):
        sys.modules.update(self.modules)

    def configure(self, m, pid, t=None, no_prss=False, sec_param=None, extra=()):
        """Run the real setup() for this party configuration (parses argv like a real start)."""
        cfg = (m, pid, t, no_prss, sec_param, tuple(extra))
        argv = ['verif', '-M', str(m), '-I', str(pid), '--no-log']
        if t is not None:
            argv += ['-T', str(t)]
        if no_prss:
            argv += ['--no-prss']
        if sec_param is not None:
            argv += ['-K', str(sec_param)]
        argv += list(extra)
        if self._cfg is not None and self._cfg[:1] + self._cfg[2:] != cfg[:1] + cfg[2:]:
            self.clear_type_caches()
        saved = sys.argv
        sys.argv = argv
        try:
            self.install()
            loop = VLoop()
            asyncio.set_event_loop(loop)
            self.mpc = self.rtmod.setup()
            self.rtmod.mpc = self.mpc
        finally:
            sys.argv = saved
            asyncio.set_event_loop(None)
        self.options = self.mpc.options
        self._cfg = cfg
        return self.mpc

    def clear_type_caches(self):
        st = self.sectypes
        for name in ('_SecFld', '_SecInt', '_SecFxp', '_SecFlt'):
            f = getattr(st, name, None)
            if f is not None and hasattr(f, 'cache_clear'):
                f.cache_clear()

    def fresh_runtime(self, loop):
        """A pristine Runtime for the configured options, as setup() makes it."""
        old = self.mpc
        asyncio.set_event_loop(loop)
        try:
            Party = self.rtmod.Party
            parties = [Party(p.pid, p.host, p.port) for p in old.parties]
            rt = self.rtmod.Runtime(old.pid, parties, old.options)
        finally:
            asyncio.set_event_loop(None)
        for name in _PKG_MODS:
            self.modules['mpyc.' + name].runtime = rt
        self.rtmod.mpc = rt
        self.mpc = rt
        return rt


_universes = []


def get_universes(m):
    while len(_universes) < m:
        _universes.append(Universe(len(_universes)))
    return _universes[:m]


# ------------------------------------------------------------------------------------------
# virtual loop, transports
# ------------------------------------------------------------------------------------------

class VLoop(_base_events.BaseEventLoop):
    """Event loop without selector or real clock; the world drains it by hand."""

    def __init__(self):
        super().__init__()
        self.vtime = 0.0
        self.world = None
        self.party = None
        self.halted = False

    def time(self):
        return self.vtime

    def _process_events(self, event_list):
        pass

    def _write_to_self(self):
        pass

    def stop(self):
        self.halted = True
        super().stop()

    async def create_server(self, protocol_factory, host=None, port=None, **kw):
        return self.world._create_server(self.party, protocol_factory, port)

    async def create_connection(self, protocol_factory, host=None, port=None, **kw):
        return await self.world._create_connection(self.party, protocol_factory, port)

    # hand-driven iteration -------------------------------------------------------------
    def run_iteration(self):
        ntodo = len(self._ready)
        ran = 0
        for _ in range(ntodo):
            handle = self._ready.popleft()
            if handle._cancelled:
                continue
            ran += 1
            handle._run()
        handle = None
        return ran

    def next_timer(self):
        while self._scheduled and self._scheduled[0]._cancelled:
            h = heapq.heappop(self._scheduled)
            h._scheduled = False
        return self._scheduled[0]._when if self._scheduled else None

    def fire_timers(self):
        when = self.next_timer()
        if when is None:
            return 0
        self.vtime = max(self.vtime, when)
        n = 0
        end = self.vtime + 1e-9
        while self._scheduled and self._scheduled[0]._when <= end:
            h = heapq.heappop(self._scheduled)
            h._scheduled = False
            if not h._cancelled:
                self._ready.append(h)
                n += 1
        return n


class VServer:
    def __init__(self, world, party, port):
        self.world, self.party, self.port = world, party, port

    def close(self):
        self.world.listeners.pop(self.port, None)

    async def wait_closed(self):
        return None


class Link:
    """Directed byte stream src -> dst (one half of a connection)."""

    __slots__ = ('src', 'dst', 'inflight', 'wire', 'src_closed', 'dst_open', 'accepted', 'eof_seen',
                 'reset', 'delivered', 'dropped', 'marks')

    def __init__(self, src, dst):
        self.src, self.dst = src, dst
        self.inflight = bytearray()
        self.wire = bytearray()      # everything ever written (for the independent frame parser)
        self.src_closed = False      # writer closed (EOF follows the in-flight bytes)
        self.dst_open = True         # reader still attached at dst
        self.accepted = False        # dst's protocol exists (connection_made done)
        self.eof_seen = False
        self.reset = False           # fault: the stream ends with a reset instead of EOF
        self.delivered = 0
        self.dropped = 0
        self.marks = []              # wire offsets at the end of every write call


class VTransport(asyncio.Transport):
    def __init__(self, world, me, peer):
        super().__init__()
        self.world, self.me, self.peer = world, me, peer
        self.protocol = None
        self.closing = False
        self.epoch = getattr(world, 'epoch', 0)     # the execution this transport belongs to

    def get_extra_info(self, name, default=None):
        return default

    def is_closing(self):
        return self.closing

    def _stale(self):
        """Objects of an EARLIER execution (e.g. an abandoned coroutine finalised by the garbage collector runs its
        `async with mpc` exit and closes its transports) must not touch the links of the current execution."""
        return self.epoch != getattr(self.world, 'epoch', 0)

    def write(self, data):
        if self._stale():
            return
        self.world._write(self, bytes(data))

    def writelines(self, seq):
        self.write(b''.join(bytes(x) for x in seq))

    def close(self):
        if self.closing:
            return
        self.closing = True
        if self._stale():
            return
        self.world._close(self, None)

    def abort(self):
        self.close()

    def set_protocol(self, protocol):
        self.protocol = protocol

    def get_protocol(self):
        return self.protocol


# ------------------------------------------------------------------------------------------
# independent frame parser (own struct code; does not share anything with asyncoro)
# ------------------------------------------------------------------------------------------

def parse_wire(data, handshake_len):
    """Split a complete directed byte stream into (handshake, [(label, payload)], leftover)."""
    hs = bytes(data[:handshake_len])
    pos = handshake_len
    frames = []
    n = len(data)
    while n - pos >= 12:
        label = int.from_bytes(data[pos:pos + 8], 'little', signed=True)
        size = int.from_bytes(data[pos + 8:pos + 12], 'little', signed=False)
        if n - pos - 12 < size:
            break
        frames.append((label, bytes(data[pos + 12:pos + 12 + size])))
        pos += 12 + size
    return hs, frames, bytes(data[pos:])


# ------------------------------------------------------------------------------------------
# the world
# ------------------------------------------------------------------------------------------

class Halt(Exception):
    pass


def _ignore_errors(loop, context):
    pass


class World:
    """m parties; events are fired one at a time by a scheduler (see mc.explorer)."""

    HORIZON = 20000

    def __init__(self, m, t=None, no_prss=False, sec_param=None, extra=(), monitors=True,
                 universes=None, seed=0):
        self.m = m
        self.t = t
        self.cfg = dict(m=m, t=t, no_prss=no_prss, sec_param=sec_param, extra=list(extra))
        self.universes = universes or get_universes(m)
        for i, u in enumerate(self.universes):
            u.configure(m, i, t, no_prss, sec_param, extra)
        self.t = self.universes[0].mpc.threshold
        self.monitors = monitors
        self.current = None
        self.seed = seed
        self.capture_payloads = False
        self.refuse_mode = False     # True: connecting to a party that does not listen yet is refused (start() retries)
        self.seams = None
        if seed is not None:
            from mc.randseam import install_seeded
            install_seeded(self, seed)
        else:
            import secrets as _real_secrets
            for u in self.universes:
                u.rtmod.secrets = _real_secrets
                u.thresha.secrets = _real_secrets
        self.reset()

    # -- (re)initialisation --------------------------------------------------------------
    def reset(self):
        m = self.m
        self.epoch = getattr(self, 'epoch', 0) + 1
        for old_loop in getattr(self, 'loops', ()):
            old_loop.set_exception_handler(_ignore_errors)   # garbage of earlier executions
        if self.seams:
            for sm in self.seams:
                sm.reseed()       # before the runtimes are made: PRSS keys are drawn in __init__
        self.loops = [VLoop() for _ in range(m)]
        self.mpcs = []
        for i, (u, loop) in enumerate(zip(self.universes, self.loops)):
            loop.world, loop.party = self, i
            rt = u.fresh_runtime(loop)
            if rt._loop is not loop:
                raise HarnessError('runtime did not pick up the virtual loop')
            self.mpcs.append(rt)
            self._install_exception_recorder(i, loop)
        self.links = {}            # (src, dst) -> Link
        self.transports = {}       # (me, peer) -> VTransport
        self.listeners = {}        # port -> (party, factory)
        self.conn_waiters = {}     # port -> [(party, future)]
        self.pending_accepts = []  # (client, server, factory)
        self.mains = [None] * m
        self.crashed = [False] * m
        self.stutter = [False] * m
        self.polls = [0] * m
        self.activity = [0] * m    # writes / accepted connections etc. in the current iteration
        self.loop_errors = [[] for _ in range(m)]
        self.steps = 0
        self.hist = [hashlib.blake2b(bytes([i]), digest_size=8).digest() for i in range(m)]
        self.events = []           # log of fired events (compact tuples)
        self.msglog = []           # (kind, party, peer, label, nbytes, site)
        self.payloads = {}         # msglog index -> payload bytes (only when capture_payloads)
        self.tasklog = [[] for _ in range(m)]
        self.stdout = io.StringIO()
        self.write_after_close = []
        self.close_log = []        # (party, peer, step, unfinished task names)
        self.on_close = None
        self.on_write = None
        self.refused = 0
        if self.monitors:
            self._install_monitors()

    def _install_exception_recorder(self, i, loop):
        inner = loop._exception_handler
        errs_of = self

        def handler(lp, context):
            errs_of.loop_errors[i].append({'message': context.get('message'),
                                           'exception': repr(context.get('exception'))})
            if inner is not None:
                with contextlib.redirect_stdout(errs_of.stdout), contextlib.redirect_stderr(errs_of.stdout):
                    try:
                        inner(lp, context)
                    except Exception as exc:   # handler of the code under test failed: keep going
                        errs_of.loop_errors[i].append({'message': 'exception handler raised',
                                                       'exception': repr(exc)})
        loop.set_exception_handler(handler)

    # -- monitors: rebinding inside each universe ---------------------------------------
    def _install_monitors(self):
        world = self
        for i, u in enumerate(self.universes):
            Runtime = u.rtmod.Runtime
            if not hasattr(Runtime, '_verif_orig_send'):
                Runtime._verif_orig_send = Runtime._send_message
                Runtime._verif_orig_recv = Runtime._receive_message
                u._verif_orig_Task = u.asyncoro.Task
                u._verif_orig_asyncio = u.rtmod.asyncio

            def make(i=i, u=u, Runtime=Runtime):
                osend, orecv = Runtime._verif_orig_send, Runtime._verif_orig_recv

                def _send_message(self, peer_pid, data):
                    world.msglog.append(('send', i, peer_pid, self._program_counter[0], len(data),
                                         _site(u)))
                    if world.capture_payloads:
                        world.payloads[len(world.msglog) - 1] = bytes(data)
                    return osend(self, peer_pid, data)

                def _receive_message(self, peer_pid):
                    world.msglog.append(('recv', i, peer_pid, self._program_counter[0], 0, _site(u)))
                    return orecv(self, peer_pid)

                Runtime._send_message = _send_message
                Runtime._receive_message = _receive_message

                OrigTask = u._verif_orig_Task

                class RecTask(OrigTask):
                    def __init__(self, coro, *, loop=None, **kw):
                        super().__init__(coro, loop=loop, **kw)
                        self.verif_name = getattr(coro, '__qualname__', repr(coro))
                        self.verif_site = _site(u, want=4, depth=30)
                        self.verif_created = world.steps
                        world.tasklog[i].append(self)
                        world.activity[i] += 1

                u.asyncoro.Task = RecTask
                u.rtmod.asyncio = _AsyncioProxy(u._verif_orig_asyncio, world, i)
            make()

    # -- party context -------------------------------------------------------------------
    @contextlib.contextmanager
    def party(self, i):
        if self.current is not None:
            raise HarnessError('nested party context')
        self.current = i
        self.universes[i].install()
        _aevents._set_running_loop(self.loops[i])
        so, se = sys.stdout, sys.stderr
        sys.stdout = sys.stderr = self.stdout
        try:
            yield
        finally:
            sys.stdout, sys.stderr = so, se
            _aevents._set_running_loop(None)
            self.current = None

    def spawn(self, i, coro_fn, *args):
        """Start party i's main program: coro_fn(mpc, *args)."""
        with self.party(i):
            self.mains[i] = self.loops[i].create_task(coro_fn(self.mpcs[i], *args))

    # -- connections ---------------------------------------------------------------------
    def _create_server(self, party, factory, port):
        self.listeners[port] = (party, factory)
        for client, fut in self.conn_waiters.pop(port, []):
            if not fut.done():
                fut.set_result(None)     # wakes the client through its own loop
                self.stutter[client] = False
        return VServer(self, party, port)

    async def _create_connection(self, client, factory, port):
        if port not in self.listeners and self.refuse_mode:
            self.refused += 1
            raise ConnectionRefusedError(f'[virtual] connect call failed: port {port}')
        if port not in self.listeners:
            fut = self.loops[client].create_future()
            self.conn_waiters.setdefault(port, []).append((client, fut))
            await fut
        server, sfactory = self.listeners[port]
        for a, b in ((client, server), (server, client)):
            self.links[(a, b)] = Link(a, b)
        tc = VTransport(self, client, server)
        ts = VTransport(self, server, client)
        self.transports[(client, server)] = tc
        self.transports[(server, client)] = ts
        self.links[(server, client)].accepted = True   # client side protocol exists right now
        proto = factory()
        tc.protocol = proto
        self.activity[client] += 1
        proto.connection_made(tc)
        self.pending_accepts.append((client, server, sfactory))
        return tc, proto

    def _write(self, tr, data):
        link = self.links[(tr.me, tr.peer)]
        self.activity[tr.me] += 1
        if tr.closing or self.crashed[tr.me]:
            self.write_after_close.append((tr.me, tr.peer, len(data)))
            return
        link.wire += data
        link.marks.append(len(link.wire))
        if self.on_write is not None:
            self.on_write(tr.me, tr.peer, data)
        if not link.dst_open:
            link.dropped += len(data)
            return
        link.inflight += data

    def _close(self, tr, exc):
        """Local close of tr (like _SelectorTransport.close): reader detached, EOF to the peer,
        connection_lost(exc) via call_soon on the closing side."""
        me, peer = tr.me, tr.peer
        self.activity[me] += 1
        out = self.links[(me, peer)]
        inc = self.links[(peer, me)]
        out.src_closed = True
        if inc.dst_open:
            inc.dst_open = False
            inc.dropped += len(inc.inflight)
            inc.inflight.clear()
        if self.on_close is not None:
            self.on_close(me, peer)
        self.close_log.append((me, peer, self.steps))
        if tr.protocol is not None:
            self.loops[me].call_soon(self._connection_lost, me, tr, exc)

    def _connection_lost(self, me, tr, exc):
        tr.protocol.connection_lost(exc)

    # -- events --------------------------------------------------------------------------
    def ready(self, p):
        return (not self.crashed[p] and not self.loops[p].halted and bool(self.loops[p]._ready)
                and not self.stutter[p])

    def local_events(self, p):
        """Pending local events of party p in canonical order (accepts, deliveries, eofs, run/timer)."""
        evs = []
        if self.crashed[p] or self.loops[p].halted:
            return evs
        for (c, s, f) in self.pending_accepts:
            if s == p:
                evs.append(('accept', c, p))
        for q in range(self.m):
            link = self.links.get((q, p))
            if link is None or not link.accepted or not link.dst_open:
                continue
            if link.inflight:
                evs.append(('deliver', q, p, len(link.inflight)))
        for q in range(self.m):
            link = self.links.get((q, p))
            if link is None or not link.accepted or not link.dst_open or link.eof_seen:
                continue
            if link.src_closed and not link.inflight:
                evs.append(('reset' if link.reset else 'eof', q, p))
        if self.ready(p):
            evs.append(('run', p))
        elif not self.loops[p]._ready or self.stutter[p]:
            if self.loops[p].next_timer() is not None:
                evs.append(('timer', p))
        return evs

    def enabled(self):
        evs = []
        for p in range(self.m):
            evs.extend(self.local_events(p))
        return evs

    def _note(self, p, *what):
        h = hashlib.blake2b(self.hist[p], digest_size=8)
        h.update(repr(what).encode())
        self.hist[p] = h.digest()

    def state_key(self):
        return int.from_bytes(hashlib.blake2b(b''.join(self.hist), digest_size=8).digest(), 'little')

    def fire(self, ev):
        self.steps += 1
        if self.steps > self.HORIZON:
            raise Halt('horizon')
        kind = ev[0]
        self.events.append(ev)
        if kind == 'run':
            p = ev[1]
            self._run(p)
        elif kind == 'deliver':
            _, q, p, n = ev
            link = self.links[(q, p)]
            if not (link.accepted and link.dst_open and 1 <= n <= len(link.inflight)):
                raise HarnessError(f'deliver not enabled: {ev}')
            data = bytes(link.inflight[:n])
            del link.inflight[:n]
            link.delivered += n
            self._note(p, 'd', q, data)
            self.stutter[p] = False
            tr = self.transports[(p, q)]
            with self.party(p):
                self._guard(p, tr.protocol.data_received, data)
        elif kind == 'accept':
            _, c, s = ev
            for k, (c2, s2, f) in enumerate(self.pending_accepts):
                if (c2, s2) == (c, s):
                    del self.pending_accepts[k]
                    break
            else:
                raise HarnessError(f'accept not enabled: {ev}')
            self._note(s, 'a', c)
            self.stutter[s] = False
            tr = self.transports[(s, c)]
            with self.party(s):
                proto = f()
                tr.protocol = proto
                self._guard(s, proto.connection_made, tr)
            self.links[(c, s)].accepted = True
        elif kind in ('eof', 'reset'):
            _, q, p = ev
            link = self.links[(q, p)]
            if not (link.src_closed and not link.inflight and link.dst_open and not link.eof_seen):
                raise HarnessError(f'eof not enabled: {ev}')
            link.eof_seen = True
            self._note(p, kind, q)
            self.stutter[p] = False
            tr = self.transports[(p, q)]
            with self.party(p):
                if kind == 'eof':
                    keep = self._guard(p, tr.protocol.eof_received)
                    if not keep:
                        tr.close()
                else:
                    if not tr.closing:
                        tr.closing = True
                        self._close(tr, ConnectionResetError('connection reset by peer (injected)'))
        elif kind == 'timer':
            p = ev[1]
            self._note(p, 't')
            self.stutter[p] = False
            self.loops[p].fire_timers()
        else:
            raise HarnessError(f'unknown event {ev}')

    def _guard(self, p, fn, *args):
        """Call a protocol callback the way a transport does: exceptions go to the loop's handler."""
        try:
            return fn(*args)
        except (SystemExit, KeyboardInterrupt):
            raise
        except BaseException as exc:
            self.loops[p].call_exception_handler({'message': f'Fatal error: protocol.{fn.__name__}() call failed.',
                                                  'exception': exc})
            return None

    def _run(self, p):
        loop = self.loops[p]
        if not self.ready(p):
            raise HarnessError(f'run({p}) not enabled')
        rt = self.mpcs[p]
        before = (rt._pc_level, tuple(rt._program_counter), len(loop._scheduled))
        nready = len(loop._ready)
        self.polls[p] = 0
        self.activity[p] = 0
        with self.party(p):
            ran = loop.run_iteration()
        after = (rt._pc_level, tuple(rt._program_counter), len(loop._scheduled))
        self._note(p, 'r')
        main = self.mains[p]
        if (ran >= 1 and ran == nready and self.polls[p] == ran and self.activity[p] == 0 and before == after
                and len(loop._ready) == ran and not (main is not None and main.done())):
            self.stutter[p] = True     # poll-only iteration: wait for an external event

    # -- crash fault ---------------------------------------------------------------------
    def crash(self, p, keep, mode='eof'):
        """Party p stops for good.  keep[q] = number of in-flight bytes of link p->q that still
        arrive; the stream then ends with EOF or a reset."""
        self.crashed[p] = True
        self.events.append(('crash', p, dict(keep), mode))
        for q in range(self.m):
            link = self.links.get((p, q))
            if link is None:
                continue
            k = keep.get(q, len(link.inflight))
            del link.inflight[k:]
            if mode != 'freeze':           # 'freeze': the party just goes silent (stopped process, partition): no EOF
                link.src_closed = True
                link.reset = (mode == 'reset')
            inc = self.links.get((q, p))
            if inc is not None:
                inc.dst_open = False     # nothing is read any more (writes into it are dropped silently)
                inc.inflight.clear()

    # -- status ----------------------------------------------------------------------------
    def all_done(self):
        return all(self.crashed[p] or (t is not None and t.done()) for p, t in enumerate(self.mains))

    def result(self, p):
        t = self.mains[p]
        if t is None or not t.done():
            return ('pending',)
        if t.cancelled():
            return ('cancelled',)
        exc = t.exception()
        if exc is not None:
            return ('raised', repr(exc))
        return ('ok', t.result())

    def waiting_summary(self):
        """For deadlock reports: labels each party waits for / holds unconsumed."""
        out = {}
        for p in range(self.m):
            waits, holds = {}, {}
            for peer in self.mpcs[p].parties:
                proto = peer.protocol
                if proto is None or isinstance(proto, asyncio.Future):
                    continue
                for label, v in getattr(proto, 'buffers', {}).items():
                    (waits if isinstance(v, asyncio.Future) else holds).setdefault(peer.pid, []).append(label)
            out[p] = {'waits': waits, 'holds': holds, 'pc_level': self.mpcs[p]._pc_level,
                      'main': self.result(p)[0]}
        return out

    def close(self):
        """Drop references so that pending tasks are collected quietly."""
        for t in self.mains:
            if t is not None and not t.done():
                t.cancel()
        for loop in self.loops:
            loop._ready.clear()
            loop._scheduled.clear()
            loop.set_exception_handler(_ignore_errors)


_SKIP = frozenset(('_send_message', '_receive_message', 'typed_asyncoro'))


def _site(u, skip_asyncoro=False, want=2, depth=14):
    """Names of the nearest enclosing functions defined in this universe's mpyc modules
    (runtime.py first), skipping the plumbing.  Bounded walk: this runs once per message."""
    f = sys._getframe(2)
    rtfile = u.rtmod.__file__
    pkgdir = u.pkgdir
    names = []
    while f is not None and depth > 0 and len(names) < want:
        co = f.f_code
        fn = co.co_filename
        if fn is rtfile or fn == rtfile:
            if co.co_name not in _SKIP:
                names.append(co.co_name)
        elif fn.startswith(pkgdir) and not fn.endswith('asyncoro.py'):
            names.append(fn[len(pkgdir):-3] + '.' + co.co_name)
        f = f.f_back
        depth -= 1
    return '<'.join(names)


class _AsyncioProxy:
    """Stands in for the asyncio module inside a universe's runtime.py: identical, except
    that zero-delay sleeps (the polling idiom of barrier()/shutdown()) are counted."""

    def __init__(self, real, world, party):
        self.__dict__['_real'] = real
        self.__dict__['_world'] = world
        self.__dict__['_party'] = party

    def __getattr__(self, name):
        return getattr(self._real, name)

    def sleep(self, delay, result=None):
        if delay <= 0:
            self._world.polls[self._party] += 1
        return self._real.sleep(delay, result)
