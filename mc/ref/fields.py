"""Independent reference model of finite fields, used by the C20/C21/C22 drivers.

Boring on purpose: GF(p) is Python-int arithmetic mod p; GF(p^d) is coefficient lists (low degree
first) modulo the field's modulus, schoolbook multiplication and long division.  Elements are
named by their integer *code* sum(c_i * p**i) in range(q) (for d == 1 the code is the residue).
Inverses/squares come from brute-force search (small q) or Fermat's little theorem computed with
this module's own square-and-multiply (large q) -- never from extended Euclid, Legendre symbols,
Cipolla or Tonelli-Shanks, which is what the code under test uses.

Nothing in here imports mpyc.  `Adapter` is the only place that touches real field objects: it
reads modulus/characteristic/degree from the field class and maps elements <-> codes through the
documented views (int residue; coefficient list / bit-integer of the polynomial value).
"""

SMALL = 1 << 16         # brute-force tables up to this order


# -- integers ---------------------------------------------------------------------------------

_MR_BASES = (2, 3, 5, 7, 11, 13, 17, 19, 23, 29, 31, 37, 41)


def is_prime(n):
    """Deterministic: trial division for small n, fixed-base Miller-Rabin above
    (bases 2..41 are a proof for n < 3.3e24; beyond that a strong-probable-prime test)."""
    if n < 2:
        return False
    for q in _MR_BASES:
        if n % q == 0:
            return n == q
    if n < 43 * 43:
        return True
    if n < 1 << 20:
        f = 43
        while f * f <= n:
            if n % f == 0:
                return False
            f += 2
        return True
    s, t = 0, n - 1
    while t % 2 == 0:
        s, t = s + 1, t // 2
    for a in _MR_BASES:
        b = powmod_int(a, t, n)
        if b in (1, n - 1):
            continue
        for _ in range(s - 1):
            b = b * b % n
            if b == n - 1:
                break
        else:
            return False
    return True


def powmod_int(a, e, n):
    """a**e mod n for e >= 0 by square-and-multiply (own loop, not builtin 3-arg pow)."""
    r = 1 % n
    a %= n
    while e:
        if e & 1:
            r = r * a % n
        a = a * a % n
        e >>= 1
    return r


def primes_upto(n):
    return [k for k in range(2, n + 1) if is_prime(k)]


def prev_prime_in_class(start, residue, modulus):
    """Largest prime <= start that is = residue mod modulus."""
    k = start - (start - residue) % modulus
    while not is_prime(k):
        k -= modulus
    return k


# -- polynomials over GF(p) as coefficient lists (low first, no trailing zeros) ---------------

def trim(a):
    a = list(a)
    while a and a[-1] == 0:
        a.pop()
    return a


def digits(n, p):
    """Base-p digits of n >= 0, low first."""
    c = []
    while n:
        c.append(n % p)
        n //= p
    return c


def undigits(c, p):
    s = 0
    for ci in reversed(c):
        s = s * p + ci
    return s


def poly_mul(a, b, p):
    if not a or not b:
        return []
    c = [0] * (len(a) + len(b) - 1)
    for i, ai in enumerate(a):
        for j, bj in enumerate(b):
            c[i + j] = (c[i + j] + ai * bj) % p
    return trim(c)


def poly_divmod(a, b, p):
    """Long division a = q*b + r, deg r < deg b; b nonzero with arbitrary leading coefficient."""
    b = trim(b)
    assert b
    r = trim(a)
    lead_inv = powmod_int(b[-1], p - 2, p)
    q = [0] * max(0, len(r) - len(b) + 1)
    while len(r) >= len(b):
        k = len(r) - len(b)
        f = r[-1] * lead_inv % p
        q[k] = f
        for j, bj in enumerate(b):
            r[k + j] = (r[k + j] - f * bj) % p
        r = trim(r)
    return trim(q), r


def poly_mod(a, b, p):
    return poly_divmod(a, b, p)[1]


def monic_polys(p, d):
    """All monic polynomials of degree d over GF(p)."""
    for code in range(p**d):
        c = digits(code, p)
        yield c + [0] * (d - len(c)) + [1]


def is_irreducible(f, p):
    """Brute force: no monic divisor of degree 1..deg//2."""
    f = trim(f)
    d = len(f) - 1
    if d < 1:
        return False
    for e in range(1, d // 2 + 1):
        for g in monic_polys(p, e):
            if not poly_mod(f, g, p):
                return False
    return True


def monic_irreducibles(p, d):
    return [f for f in monic_polys(p, d) if is_irreducible(f, p)]


# -- fields -----------------------------------------------------------------------------------

class RefField:
    """GF(p) (modulus=None) or GF(p)[x]/(modulus); elements are codes in range(q)."""

    def __init__(self, p, modulus=None):
        assert is_prime(p)
        self.p = p
        if modulus is None:
            self.d = 1
            self.modulus = None
        else:
            self.modulus = trim(modulus)
            self.d = len(self.modulus) - 1
            assert self.d >= 1 and all(0 <= c < p for c in self.modulus)
        self.q = p**self.d
        self.prime = modulus is None
        self._inv = None
        self._mul = {}
        self._squares = None
        self._roots = None

    # representation
    def coeffs(self, a):
        if self.prime:
            return [a] if a else []
        return digits(a, self.p)

    def enc(self, c):
        if self.prime:
            return c[0] if c else 0
        return undigits(c, self.p)

    def from_coeffs(self, c):
        """Element for an arbitrary polynomial (coefficients in range(p), any degree)."""
        p = self.p
        if self.prime:       # evaluate nothing: only constants make sense for GF(p)
            assert len(c) <= 1
            return c[0] % p if c else 0
        return undigits(poly_mod(c, self.modulus, p), p)

    def from_int(self, n):
        """Documented integer view: residue mod p for prime fields; for extension fields the
        base-p digits of |n| are the coefficients (negated coefficientwise for n < 0)."""
        p = self.p
        if self.prime:
            return n % p
        c = digits(abs(n), p)
        if n < 0:
            c = [(p - ci) % p for ci in c]
        return self.from_coeffs(c)

    # arithmetic
    def add(self, a, b):
        p = self.p
        if self.prime:
            return (a + b) % p
        x, y = digits(a, p), digits(b, p)
        n = max(len(x), len(y))
        x += [0] * (n - len(x))
        y += [0] * (n - len(y))
        return undigits([(xi + yi) % p for xi, yi in zip(x, y)], p)

    def neg(self, a):
        p = self.p
        if self.prime:
            return (-a) % p
        return undigits([(p - ci) % p for ci in digits(a, p)], p)

    def sub(self, a, b):
        return self.add(a, self.neg(b))

    def mul(self, a, b):
        p = self.p
        if self.prime:
            return a * b % p
        if self.q <= 256:       # memoise (at most q*q entries)
            r = self._mul.get((a, b))
            if r is None:
                r = self._mul[a, b] = self._mul_raw(a, b)
            return r
        return self._mul_raw(a, b)

    def _mul_raw(self, a, b):
        p = self.p
        return undigits(poly_mod(poly_mul(digits(a, p), digits(b, p), p), self.modulus, p), p)

    def power(self, a, e):
        """a**e for e >= 0 by square-and-multiply on self.mul."""
        r = self.from_int(1)
        while e:
            if e & 1:
                r = self.mul(r, a)
            a = self.mul(a, a)
            e >>= 1
        return r

    def inv(self, a):
        """Inverse of a != 0 (None for 0): brute-force search for small q, else a**(q-2) by this
        class's own square-and-multiply; either way certified by multiplying back."""
        if a == 0:
            return None
        if self._inv is None:
            self._inv = {}
        r = self._inv.get(a)
        if r is None:
            one = self.from_int(1)
            if self.q <= 256:
                for b in range(1, self.q):
                    if self.mul(a, b) == one:
                        r = b
                        break
            else:
                r = self.power(a, self.q - 2)
            assert r is not None and self.mul(a, r) == one
            self._inv[a] = r
            self._inv[r] = a
        return r

    def div(self, a, b):
        ib = self.inv(b)
        return None if ib is None else self.mul(a, ib)

    def pow(self, a, e):
        """a**e for any integer e; None if undefined (0 to a negative power)."""
        if e < 0:
            a = self.inv(a)
            if a is None:
                return None
            e = -e
        return self.power(a, e)

    def powers(self, a, lo, hi):
        """{e: a**e for lo <= e <= hi} by literally repeated multiplication (None if undefined)."""
        out = {}
        r = self.from_int(1)
        for e in range(0, hi + 1):
            out[e] = r
            r = self.mul(r, a)
        ia = self.inv(a)
        r = self.from_int(1)
        for e in range(-1, lo - 1, -1):
            r = None if ia is None else self.mul(r, ia)
            out[e] = r
        return out

    # squares
    def squares(self):
        """Brute-force set of squares {x*x}, and one root per square."""
        if self._squares is None:
            assert self.q <= SMALL
            roots = {}
            for x in range(self.q):
                roots.setdefault(self.mul(x, x), x)
            self._squares = frozenset(roots)
            self._roots = roots
        return self._squares

    def nonsquare_witness(self):
        """Some g with g**((q-1)/2) == -1 (odd q): a certified non-square by Euler's criterion."""
        assert self.q % 2
        minus_one = self.neg(self.from_int(1))
        for g in range(2, self.q):
            if self.power(g, (self.q - 1) // 2) == minus_one:
                return g
        raise AssertionError


# -- bridge to the real classes ---------------------------------------------------------------

def kind_of(F):
    if F.ext_deg == 1 and isinstance(F.modulus, int):
        return 'prime'
    return 'binary' if F.characteristic == 2 else 'ext_odd'


class Adapter:
    """Maps elements of a real mpyc field class F <-> codes of the matching RefField."""

    def __init__(self, F):
        self.F = F
        self.kind = kind_of(F)
        p = F.characteristic
        if self.kind == 'prime':
            self.ref = RefField(F.modulus)
        else:
            m = F.modulus.value
            mod = digits(m, 2) if isinstance(m, int) else list(m)
            self.ref = RefField(p, mod)
        self.p = p
        self.q = self.ref.q
        self.d = self.ref.d
        self.poly = None if self.kind == 'prime' else type(F.modulus)

    def make(self, code):
        """Fresh real element for a code (via the residue / coefficient-list constructor)."""
        if self.kind == 'prime':
            return self.F(code)
        return self.F(digits(code, self.p))

    def make_poly(self, coeffs):
        """Real polynomial (of the field's polynomial type) with the given coefficient list."""
        return self.poly(list(coeffs))

    def code(self, e):
        """Code of a real element, or None if it is not a reduced element of F."""
        if type(e) is not self.F:
            return None
        v = e.value
        p = self.p
        if self.kind == 'prime':
            return v if isinstance(v, int) and 0 <= v < p else None
        if type(v) is not self.poly:
            return None
        raw = v.value
        if self.kind == 'binary':
            return raw if isinstance(raw, int) and 0 <= raw < self.q else None
        if not isinstance(raw, list) or len(raw) > self.d:
            return None
        if not all(isinstance(c, int) and 0 <= c < p for c in raw) or (raw and raw[-1] == 0):
            return None
        return undigits(raw, p)


def spec_of(F):
    a = Adapter(F)
    return dict(p=a.p, mod=a.ref.modulus)


def make_field(spec):
    """Real field class for spec = dict(p=.., mod=None | coefficient list[, nw=(n, w)])."""
    from mpyc import finfields, gfpx
    p, mod = spec['p'], spec.get('mod')
    if mod is None:
        if spec.get('nw'):
            return finfields.GF((p, spec['nw'][0], spec['nw'][1]))
        return finfields.GF(p)
    return finfields.GF(gfpx.GFpX(p)(list(mod)))


def field_name(spec):
    p, mod = spec['p'], spec.get('mod')
    if mod is None:
        return f'GF({p})' + (f'[n,w={spec["nw"]}]' if spec.get('nw') else '')
    return f'GF({p}^{len(mod) - 1})/{mod}'


# -- boundary alphabets for fields too large to enumerate -------------------------------------------

def prime_alphabet(p):
    """Residues {0,1,2,3,p-3..p-1,(p+-1)/2,(p+-3)/2,p//3.., +-2^j, +-2^j+-1 for all j <= bits(p)}."""
    s = {0, 1, 2, 3, p - 1, p - 2, p - 3, (p - 1) // 2, (p + 1) // 2, (p - 3) // 2, (p + 3) // 2, p // 3, p // 3 + 1}
    for j in range(1, p.bit_length() + 1):
        for dlt in (-1, 0, 1):
            s.add((2**j + dlt) % p)
            s.add((dlt - 2**j) % p)
    return sorted(c % p for c in s)


def ext_alphabet(R):
    """Codes of elements whose coefficients come from a boundary alphabet (odd p) or whose bit
    patterns are 0,1,x,x+1, all-ones, alternating, x^j, x^j+1, x^j-1 ... (p = 2)."""
    p, d, q = R.p, R.d, R.q
    if p == 2:
        s = {0, 1, 2 % q, 3 % q, q - 1, q - 2, q >> 1, (q >> 1) + 1, max(0, (q >> 1) - 1), undigits(R.modulus, 2) ^ q}
        s.add(int('0' + '01' * (d // 2), 2) % q)
        s.add(int('0' + '10' * (d // 2), 2) % q)
        step = 1 if d <= 16 else 8
        for j in list(range(1, d, step)) + [d // 2, d // 2 + 1, d - 1]:
            s.update(((1 << j) % q, ((1 << j) + 1) % q, ((1 << j) - 1) % q))
        return sorted(s)
    ca = sorted({0, 1, 2, p - 2, p - 1, (p - 1) // 2, (p + 1) // 2})
    codes = [0]
    for _ in range(d):
        codes = [c * p + a for c in codes for a in ca]
    return sorted(set(codes))


def alphabet(R):
    return prime_alphabet(R.p) if R.prime else ext_alphabet(R)


def first_irreducible(p, d, skip=0):
    """The (skip+1)-th monic irreducible polynomial of degree d over GF(p) in code order (brute force)."""
    for f in monic_polys(p, d):
        if is_irreducible(f, p):
            if skip == 0:
                return f
            skip -= 1
    raise AssertionError


# -- watchdog: a planted/real bug may turn a loop of the code under test into an endless one ----------

class Hang(Exception):
    """Raised inside the code under test when a single call exceeds the watchdog limit."""


def _on_alarm(signum, frame):
    raise Hang('single call exceeded the watchdog limit')


def arm_watchdog():
    import signal
    signal.signal(signal.SIGALRM, _on_alarm)


def limited(fn, seconds=20.0):
    """Run fn() (one call into the code under test, normally well under a millisecond) under a
    generous real-time limit; verdicts on a terminating tree do not depend on it."""
    import signal
    signal.setitimer(signal.ITIMER_REAL, seconds)
    try:
        return fn()
    finally:
        signal.setitimer(signal.ITIMER_REAL, 0)


# -- deterministic evidence: the pool merges job results in completion order -------------------------

def note_violation(part, key, what, detail):
    """part.violation() plus a pooled copy of the job's first case per key, so that finalize() can
    report the same (smallest) case on every run whatever the order in which jobs complete."""
    if not any(v['key'] == key for v in part.violations):
        part.note('_violation_pool', [[key, what, detail]])
    part.violation(key, what, detail)


def note_sample(part, sample):
    part.note('_sample_pool', [sample])


def finalize(total, max_samples=6, prefer=None):
    """Call from coverage_extra(): canonical violation texts and evenly spread, sorted samples."""
    import json

    def order(x):
        s = json.dumps(x, sort_keys=True, default=repr)
        return len(s), s

    pool = total.notes.pop('_violation_pool', [])
    for v in total.violations:
        cands = [(what, detail) for key, what, detail in pool if key == v['key']]
        if cands:
            v['what'], v['detail'] = min(cands, key=lambda c: ((prefer(c[1]) if prefer else 0,) + order([c[1], c[0]])))
    samples = sorted(total.notes.pop('_sample_pool', []), key=order)
    if samples:
        step = max(1, len(samples) // max_samples)
        total.samples = samples[::step][:max_samples]
    return {}


def spec_kind(spec):
    return 'prime' if spec.get('mod') is None else 'binary' if spec['p'] == 2 else 'ext_odd'


def guarded_adapter(part, pid, spec, detail):
    """Build the real field and its adapter under the watchdog.  A valid modulus that the code under
    test rejects (or loops on) is reported as a violation; returns None in that case."""
    try:
        return limited(lambda: Adapter(make_field(spec)), 120.0)
    except Exception as exc:
        note_violation(part, f'{pid}:field_construction:{spec_kind(spec)}' + (':hang' if isinstance(exc, Hang) else ''),
                       f'{field_name(spec)}: constructing the field raised {type(exc).__name__}: {exc}', detail)
        return None
