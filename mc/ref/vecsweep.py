"""Seeded single-party sweeps of exact.Op tables over large structured domains (used by C29, C30).

A task = (operation name, domain kind, size parameter n, window [lo, hi) of the enumeration order); tasks are
packed into jobs of similar weight.  Every input of the window is run once with seeded masks (and with the
all-zero / all-max mask patterns when the whole domain has at most `small` inputs); the mask scripts proper are
the business of exact.run_sp on the small table domains.  Violation documents are replayable with
exact.replay_sp.
"""

import itertools

from mc.core import Part, stable_hash
from mc import exact


def pack(tasks, cap, tier, seed):
    """First fit, decreasing weight; deterministic."""
    tasks = sorted(tasks, key=lambda t: (-t['w'], t['name'], t['kind'], t['n'], t['lo']))
    bins = []
    for t in tasks:
        for b in bins:
            if b['w'] + t['w'] <= cap:
                b['tasks'].append(t)
                b['w'] += t['w']
                break
        else:
            bins.append(dict(engine='sweep', tasks=[t], w=t['w'], tier=tier, seed=seed))
    return bins


def tasks_for(names, kind, ns, size_fn, chunk=1024, cost=1.0, small=32, skip=None):
    out = []
    for name in names:
        for n in ns:
            if skip and skip(name, n):
                continue
            size = size_fn(kind, n)
            for lo in range(0, size, chunk):
                hi = min(size, lo + chunk)
                out.append(dict(name=name, kind=kind, n=n, lo=lo, hi=hi, w=cost * (hi - lo) * max(n, 1) * (3 if size <= small else 1) + 50))
    return out


def run_sweep(pid, job, build, k, domain_fn, size_fn, small=32):
    from mc import sp
    part = Part()
    mpc, seam = sp.setup(sec_param=k, no_prss=True)
    ops = build(mpc)
    for task in job['tasks']:
        name, kind, n = task['name'], task['kind'], task['n']
        op = ops[name]
        cfg = f'sp/k{k}/sweep-{kind}'
        cnt = 0
        modes = ('seeded', 'zero', 'max') if size_fn(kind, n) <= small else ('seeded',)
        for vec in itertools.islice(domain_fn(kind, n), task['lo'], task['hi']):
            vals = (tuple(vec),)
            want = op.ref(vals)
            if want is None:
                continue
            for mode in modes:
                sd = job['seed'] + (stable_hash(vals) & 0xffff)
                doc = dict(engine='sp', name=name, vals=[exact_jsonable(vec)], mode=mode, script={}, k=k, seed=sd, cfg=cfg, tier=job['tier'])
                try:
                    got, draws = exact.eval_sp(mpc, seam, op, vals, mode, None, sd)
                except Exception as exc:
                    part.case(key=None)
                    part.violation(f'{pid}:{name}:exception', f'[{cfg}] {name}({list(vec)}) raised {exc!r}', doc)
                    continue
                part.case(key=None, nontrivial=bool(draws))
                cnt += 1
                part.outcomes.add(stable_hash((name, repr(got))) & 0xfffff)
                res = exact.check_result(op.kind, got, want)
                if res is not True and res != 1:
                    key = f'{pid}:{name}' + (f':{res}' if isinstance(res, str) else '')
                    part.violation(key, f'[{cfg}] {name}({list(vec)}) = {got!r} (masks: {mode})', doc)
                if len(part.samples) < 1 and n >= 3 and len(set(map(repr, vec))) > 1:
                    part.sample(dict(config=cfg, op=name, input=exact_jsonable(vec), result=repr(got), draws=len(draws)))
        part.note(f'sweep_{kind}_cases', cnt)
        part.note_max(f'max_n_{kind}', n)
    return part


def exact_jsonable(v):
    if isinstance(v, (list, tuple)):
        return [exact_jsonable(a) for a in v]
    return v


def retuple(v):
    """Inverse of the JSON round trip for nested vectors."""
    if isinstance(v, (list, tuple)):
        return tuple(retuple(a) for a in v)
    return v
