"""Independent reference for Shamir secret sharing over finite fields (C12, C13, C15).

Boring on purpose.  Field arithmetic comes from mc.ref.fields.RefField (ints mod p; coefficient
lists modulo the field's modulus, schoolbook multiplication, brute-force inverses); for q <= 256
the binary operations are memoised into plain tables, which changes nothing but speed.
Elements are named by their integer *code* in range(q): the residue for GF(p), and
sum(c_i * p**i) for the element c_0 + c_1 x + ... of GF(p^d).  Party i (0-based) sits at the
x-coordinate with code i+1, exactly as mpyc documents (thresha: x-coordinates 1..m).

Nothing in here imports mpyc.thresha; `code_of`/`make_field` are the only places that touch real
field objects (through int(), .value and the constructors).
"""

import itertools

from mc.ref.fields import RefField, digits

_TABLE_MAX = 256
_cache = {}


class TField:
    """RefField with memoised add/mul tables (q <= 256) or direct int arithmetic (large primes)."""

    def __init__(self, p, mod=None):
        self.ref = RefField(p, list(mod) if mod is not None else None)
        self.p = p
        self.q = self.ref.q
        self.prime = mod is None
        self.tab = self.q <= _TABLE_MAX
        self._red = {}          # memo for reduce()
        if self.tab:
            q, ref = self.q, self.ref
            self._add = [[ref.add(a, b) for b in range(q)] for a in range(q)]
            self._neg = [ref.neg(a) for a in range(q)]
            self._mul = [[0] * q for _ in range(q)]
            for a in range(q):
                row = self._mul[a]
                for b in range(a, q):
                    row[b] = ref.mul(a, b)
            for a in range(q):          # commutativity is NOT assumed for the code under test,
                for b in range(a):      # only used to halve the work of building our own table
                    self._mul[a][b] = self._mul[b][a]
            self._invs = {}

    def add(self, a, b):
        return self._add[a][b] if self.tab else (a + b) % self.p

    def neg(self, a):
        return self._neg[a] if self.tab else (-a) % self.p

    def sub(self, a, b):
        return self._add[a][self._neg[b]] if self.tab else (a - b) % self.p

    def mul(self, a, b):
        return self._mul[a][b] if self.tab else a * b % self.p

    def inv(self, a):
        assert a != 0
        if self.tab:
            r = self._invs.get(a)
            if r is None:
                r = next(b for b in range(1, self.q) if self._mul[a][b] == 1)
                self._invs[a] = r
            return r
        return self.ref.inv(a)

    def reduce(self, n):
        """Code of the element denoted by an arbitrary int n >= 0 (mpyc's integer view: residue
        mod p for GF(p); base-p digits = polynomial coefficients, reduced modulo the modulus)."""
        r = self._red.get(n)
        if r is None:
            r = self.ref.from_int(n)
            if len(self._red) < 1 << 18:
                self._red[n] = r
        return r

    def sum(self, codes):
        s = 0
        for c in codes:
            s = self.add(s, c)
        return s


def get_field(p, mod=None):
    key = (p, None if mod is None else tuple(mod))
    f = _cache.get(key)
    if f is None:
        f = _cache[key] = TField(p, mod)
    return f


# -- polynomials over the reference field (coefficient lists, low degree first) ---------------

def poly_eval(F, coeffs, x):
    """sum_k coeffs[k] * x**k, literally."""
    y = 0
    xk = 1
    for c in coeffs:
        y = F.add(y, F.mul(c, xk))
        xk = F.mul(xk, x)
    return y


def sharing_poly(s, c):
    """Coefficient list (low first) of thresha's documented sharing polynomial
    f(X) = s + c[t-1] X + c[t-2] X^2 + ... + c[0] X^t."""
    return [s] + list(reversed(c))


def lagrange_weights(F, xs, x_r):
    """w_i = prod_{j != i} (x_r - x_j) / (x_i - x_j)."""
    ws = []
    for i, xi in enumerate(xs):
        num, den = 1, 1
        for j, xj in enumerate(xs):
            if j != i:
                num = F.mul(num, F.sub(x_r, xj))
                den = F.mul(den, F.sub(xi, xj))
        ws.append(F.mul(num, F.inv(den)))
    return ws


def lagrange_at(F, xs, ys, x_r, ws=None):
    if ws is None:
        ws = lagrange_weights(F, xs, x_r)
    y = 0
    for w, yi in zip(ws, ys):
        y = F.add(y, F.mul(w, yi))
    return y


def poly_mul_lin(F, a, r):
    """a(X) * (X - r)."""
    out = [0] * (len(a) + 1)
    nr = F.neg(r)
    for k, ak in enumerate(a):
        out[k] = F.add(out[k], F.mul(ak, nr))
        out[k + 1] = F.add(out[k + 1], ak)
    return out


def lagrange_basis(F, xs):
    """Coefficient lists of the basis polynomials L_i (L_i(x_j) = [i == j])."""
    basis = []
    for i, xi in enumerate(xs):
        num = [1]
        den = 1
        for j, xj in enumerate(xs):
            if j != i:
                num = poly_mul_lin(F, num, xj)
                den = F.mul(den, F.sub(xi, xj))
        dinv = F.inv(den)
        basis.append([F.mul(c, dinv) for c in num])
    return basis


def interpolate(F, xs, ys, basis=None):
    """Coefficients (low first, len(xs) of them) of the unique polynomial of degree < len(xs)
    through the points."""
    if basis is None:
        basis = lagrange_basis(F, xs)
    out = [0] * len(xs)
    for yi, Li in zip(ys, basis):
        if yi:
            for k, c in enumerate(Li):
                out[k] = F.add(out[k], F.mul(yi, c))
    return out


def degree(coeffs):
    d = -1
    for k, c in enumerate(coeffs):
        if c:
            d = k
    return d


# -- enumeration helpers ----------------------------------------------------------------------

def subsets_at_least(m, k):
    """All subsets of range(m) of size k and k+1 (when < m) plus the full set, as sorted tuples."""
    out = list(itertools.combinations(range(m), k))
    if k + 1 < m:
        out += list(itertools.combinations(range(m), k + 1))
    if k < m:
        out.append(tuple(range(m)))
    return out


# -- bridge to the real classes ---------------------------------------------------------------

FIELD_SPECS = {
    # name: (p, code of the modulus polynomial in base p | None)
    'GF(2)': (2, None), 'GF(3)': (3, None), 'GF(5)': (5, None), 'GF(7)': (7, None),
    'GF(11)': (11, None), 'GF(13)': (13, None), 'GF(101)': (101, None),
    'GF(2^61-1)': (2**61 - 1, None),
    'GF(4)': (2, 0b111),          # x^2+x+1
    'GF(8)': (2, 0b1011),         # x^3+x+1
    "GF(8)'": (2, 0b1101),        # x^3+x^2+1
    'GF(9)': (3, 10),             # x^2+1
    "GF(9)'": (3, 14),            # x^2+x+2
    'GF(16)': (2, 0b10011),       # x^4+x+1
    'GF(25)': (5, 27),            # x^2+2
    'GF(27)': (3, 34),            # x^3+2x+1
    'GF(256)': (2, 283),          # x^8+x^4+x^3+x+1
}


def ref_field(name):
    p, modcode = FIELD_SPECS[name]
    return get_field(p, None if modcode is None else digits(modcode, p))


def make_field(name):
    """The real mpyc field class for a name in FIELD_SPECS."""
    from mpyc import finfields, gfpx
    p, modcode = FIELD_SPECS[name]
    if modcode is None:
        return finfields.GF(p)
    return finfields.GF(gfpx.GFpX(p)(modcode))


def order(name):
    p, modcode = FIELD_SPECS[name]
    return p if modcode is None else p ** (len(digits(modcode, p)) - 1)


def code_of(F, v):
    """Code of a raw value (int / gfpx polynomial, possibly unreduced and -- for GF(p) -- of either
    sign) or of a field element, via the documented integer view int(.)."""
    if not isinstance(v, int):
        if hasattr(v, 'modulus') and hasattr(v, 'value'):      # field element
            v = v.value
        if not isinstance(v, int):
            v = int(v)                                           # gfpx polynomial -> base-p code
    if 0 <= v < F.q:
        return v
    return F.reduce(v)
