"""Boring number-theory references (trial division, sieves, brute force, definitions).

Nothing here imports mpyc.  Everything is written from the textbook definitions and is meant
to be obviously right rather than fast.
"""

from math import gcd


# ---------------------------------------------------------------- primes, small range

def sieve(n):
    """bytearray s of length n with s[i] = 1 iff i is prime (Eratosthenes)."""
    s = bytearray([1]) * n
    for i in range(min(2, n)):
        s[i] = 0
    i = 2
    while i * i < n:
        if s[i]:
            s[i*i::i] = bytes(len(range(i*i, n, i)))
        i += 1
    return s


def spf_table(n):
    """list t of length n with t[i] = smallest prime factor of i (t[0] = t[1] = 0)."""
    t = [0] * n
    for i in range(2, n):
        if t[i] == 0:
            for j in range(i, n, i):
                if t[j] == 0:
                    t[j] = i
    return t


def trial_is_prime(x):
    """Primality by trial division (any int)."""
    if x < 2:
        return False
    d = 2
    while d * d <= x:
        if x % d == 0:
            return False
        d += 1
    return True


def factorize(x):
    """Prime factorisation of x >= 1 as sorted list of (p, e), by trial division."""
    assert x >= 1
    out = []
    d = 2
    while d * d <= x:
        if x % d == 0:
            e = 0
            while x % d == 0:
                x //= d
                e += 1
            out.append((d, e))
        d += 1
    if x > 1:
        out.append((x, 1))
    return out


# ---------------------------------------------------------------- Miller-Rabin (definition)

MR_BASES = (2, 3, 5, 7, 11, 13, 17, 19, 23, 29, 31, 37, 41)
MR_LIMIT = 3317044064679887385961981   # psi_13: smallest composite that is a strong pseudoprime to all 13 prime
#                                        bases 2..41 (Sorenson & Webster 2015); below it the 13 bases decide primality.
#                                        (psi_12 = 318665857834031151167461 passes the 12 bases 2..37; 41 exposes it.)


def strong_probable_prime(x, a):
    """Definition: odd x > 2, x - 1 = 2^r s with s odd; a is a strong 'liar or honest base' for x iff
    a^s = 1 or a^(2^i s) = -1 (mod x) for some 0 <= i < r."""
    assert x > 2 and x % 2 == 1
    r, s = 0, x - 1
    while s % 2 == 0:
        r, s = r + 1, s // 2
    for i in range(r):
        if pow(a, s << i, x) == x - 1:
            return True
    return pow(a, s, x) == 1


def is_prime_det(x):
    """Deterministic primality for x < MR_LIMIT (about 3.3e24): small trial division, then the 13 fixed bases."""
    assert x < MR_LIMIT
    if x < 2:
        return False
    for p in MR_BASES:
        if x % p == 0:
            return x == p
    return all(strong_probable_prime(x, a) for a in MR_BASES)


def next_prime_det(x):
    x = max(x + 1, 2)
    while not is_prime_det(x):
        x += 1
    return x


def prev_prime_det(x):
    """Greatest prime < x, or None."""
    x -= 1
    while x >= 2 and not is_prime_det(x):
        x -= 1
    return x if x >= 2 else None


class WitnessSeam:
    """Deterministic stand-in for the `random` module where a Miller-Rabin implementation draws its witnesses
    (`random.randint(lo, hi)`): returns the entries of `script` cyclically, or -- with script None -- the 13
    bases MR_BASES cyclically (every window of 13 consecutive draws contains all of them)."""

    def __init__(self):
        self.script = None
        self.pos = 0
        self.calls = 0

    def feed(self, script):
        self.script = script
        self.pos = 0
        self.calls = 0

    def randint(self, lo, hi):
        self.calls += 1
        seq = MR_BASES if self.script is None else self.script
        a = seq[self.pos % len(seq)]
        self.pos += 1
        return a

    def __getattr__(self, name):
        raise AttributeError(f'witness seam: random.{name} was used; only randint is modelled')


# Exponents j <= 1300 for which 2^j - 1 is prime (classical table, Mersenne .. Robinson 1952).
MERSENNE_EXPONENTS = (2, 3, 5, 7, 13, 17, 19, 31, 61, 89, 107, 127, 521, 607, 1279)


def small_order(w, p, cap):
    """Smallest 1 <= n <= cap with w^n = 1 (mod p) by repeated multiplication, else None."""
    acc = 1
    for n in range(1, cap + 1):
        acc = acc * w % p
        if acc == 1 % p:
            return n
    return None


# ---------------------------------------------------------------- gcd, Bezout with GMP's normalisation

def sgn(a):
    return (a > 0) - (a < 0)


def gmp_gcdext(a, b):
    """(g, s, t) as documented for GMP's mpz_gcdext, found by brute force (no Euclid).

    GMP manual: 'normally |s| < |b|/(2g) and |t| < |a|/(2g), and these relations define s and t uniquely.
    Exceptional cases: if |a| = |b| then s = 0, t = sgn(b).  Otherwise s = sgn(a) if b = 0 or |b| = 2g,
    and t = sgn(b) if a = 0 or |a| = 2g.'
    """
    g = 0
    for d in range(1, max(abs(a), abs(b)) + 1):      # brute-force gcd
        if a % d == 0 and b % d == 0:
            g = d
    if abs(a) == abs(b):
        return g, 0, sgn(b)                          # includes a = b = 0 -> (0, 0, 0)
    if b == 0:
        return g, sgn(a), 0                          # |t| < |a|/(2g) = 1/2
    if a == 0:
        return g, 0, sgn(b)                          # |s| < 1/2
    if abs(b) == 2 * g:
        s = sgn(a)
        assert (g - a * s) % b == 0
        return g, s, (g - a * s) // b
    if abs(a) == 2 * g:
        t = sgn(b)
        assert (g - b * t) % a == 0
        return g, (g - b * t) // a, t
    sols = []
    for s in range(-abs(b), abs(b) + 1):
        if 2 * g * abs(s) < abs(b) and (g - a * s) % b == 0:
            t = (g - a * s) // b
            if 2 * g * abs(t) < abs(a):
                sols.append((s, t))
    assert len(sols) == 1, (a, b, sols)              # 'define s and t uniquely'
    return (g,) + sols[0]


def brute_inverse(x, m):
    """The y with 0 <= y < |m| and x*y = 1 (mod |m|), or None.  m != 0."""
    m = abs(m)
    if m == 1:
        return 0
    for y in range(m):
        if (x * y - 1) % m == 0:
            return y
    return None


# ---------------------------------------------------------------- quadratic-residue symbols (definitions)

def legendre_def(x, p):
    """Legendre symbol for odd prime p straight from the definition (search for a square root)."""
    x %= p
    if x == 0:
        return 0
    for r in range(1, p):
        if r * r % p == x:
            return 1
    return -1


def jacobi_def(x, y):
    """Jacobi symbol for odd y > 0: product of Legendre symbols over the factorisation of y."""
    assert y > 0 and y % 2 == 1
    j = 1
    for p, e in factorize(y):
        j *= legendre_def(x, p) ** e
    return j


def kronecker_def(x, y):
    """Kronecker symbol (x|y) for all integers, by its definition:
    (x|0) = 1 if |x| = 1 else 0; (x|-1) = -1 if x < 0 else 1; (x|2) = 0 for even x, +1 for x = +-1 mod 8,
    -1 for x = +-3 mod 8; multiplicative in y over y = unit * prod p^e."""
    if y == 0:
        return 1 if abs(x) == 1 else 0
    k = 1
    if y < 0:
        k = -1 if x < 0 else 1
        y = -y
    for p, e in factorize(y):
        if p == 2:
            two = 0 if x % 2 == 0 else (1 if x % 8 in (1, 7) else -1)
            k *= two ** e
        else:
            k *= legendre_def(x, p) ** e
    return k


# ---------------------------------------------------------------- roots

def iroot_def(x, n):
    """(floor(x^(1/n)), exact) for x >= 0, n >= 1 by bisection on integers."""
    assert x >= 0 and n >= 1
    lo, hi = 0, 1
    while hi ** n <= x:
        hi *= 2
    while hi - lo > 1:                               # invariant lo^n <= x < hi^n
        mid = (lo + hi) // 2
        if mid ** n <= x:
            lo = mid
        else:
            hi = mid
    return lo, lo ** n == x


# ---------------------------------------------------------------- rational reconstruction (brute force)

def ratrec_solutions(x, y, N, D):
    """All (n, d) with -N <= n <= N, 0 < d <= D, gcd(d, y) = 1 and n = x*d (mod y)  [i.e. n/d = x mod y]."""
    out = []
    for d in range(1, D + 1):
        if gcd(d, y) != 1:
            continue
        n0 = x * d % y
        for n in (n0, n0 - y):                       # the only candidates with |n| < y
            if -N <= n <= N:
                out.append((n, d))
    return out

