"""Reference arithmetic for polynomials over GF(p): boring schoolbook code on coefficient tuples.

A polynomial c_0 + c_1 x + ... + c_n x^n is the tuple (c_0, ..., c_n) of ints in range(p) with
c_n != 0; the zero polynomial is ().  Nothing here imports mpyc.  The integer code of a polynomial
is sum c_i p^i (the "integer order" of the property statements).
"""

import itertools


# -- representation ------------------------------------------------------------------------

def trim(c):
    c = tuple(c)
    n = len(c)
    while n and c[n - 1] == 0:
        n -= 1
    return c if n == len(c) else c[:n]


def from_int(n, p):
    assert n >= 0
    c = []
    while n:
        c.append(n % p)
        n //= p
    return tuple(c)


def to_int(a, p):
    return sum(c * p**i for i, c in enumerate(a))


def deg(a):
    return len(a) - 1


def polys_upto(p, maxdeg):
    """All polynomials of degree <= maxdeg, in integer order."""
    return [from_int(n, p) for n in range(p**(maxdeg + 1))]


def polys_over(alphabet, maxdeg):
    """All polynomials of degree <= maxdeg with coefficients from alphabet (sorted, no repeats)."""
    seen = set()
    out = []
    for n in range(maxdeg + 2):
        for c in itertools.product(alphabet, repeat=n):
            t = trim(c[::-1])
            if t not in seen:
                seen.add(t)
                out.append(t)
    return out


# -- ring operations -----------------------------------------------------------------------

def add(a, b, p):
    if len(a) < len(b):
        a, b = b, a
    c = list(a)
    for i, y in enumerate(b):
        c[i] = (c[i] + y) % p
    return trim(c)


def neg(a, p):
    return tuple([(-x) % p for x in a])


def sub(a, b, p):
    c = list(a) + [0] * (len(b) - len(a))
    for i, y in enumerate(b):
        c[i] = (c[i] - y) % p
    return trim(c)


def mul(a, b, p):
    if not a or not b:
        return ()
    c = [0] * (len(a) + len(b) - 1)
    for i, x in enumerate(a):
        for j, y in enumerate(b):
            c[i + j] += x * y
    return trim([x % p for x in c])


def scal(k, a, p):
    return trim((k * x) % p for x in a)


def shift(a, n):
    """a * x^n."""
    return ((0,) * n + tuple(a)) if a else ()


def inv_mod(x, p):
    """Inverse of x modulo the prime p (Fermat), checked."""
    x %= p
    if x == 0:
        raise ZeroDivisionError
    y = pow(x, p - 2, p)
    assert x * y % p == 1
    return y


def pow_(a, n, p):
    assert n >= 0
    r = (1,)
    for _ in range(n):
        r = mul(r, a, p)
    return r


def _longdiv(a, b, p):
    if not b:
        raise ZeroDivisionError
    r = list(a)
    q = [0] * max(len(a) - len(b) + 1, 0)
    lb = inv_mod(b[-1], p)
    for k in range(len(a) - len(b), -1, -1):
        f = r[k + len(b) - 1] * lb % p
        q[k] = f
        for j, y in enumerate(b):
            r[k + j] = (r[k + j] - f * y) % p
    return trim(q), trim(r)


def divmod_(a, b, p):
    """Schoolbook long division: (q, r) with a = q b + r, deg r < deg b (law asserted on every call)."""
    q, r = _longdiv(a, b, p)
    assert len(r) < len(b) and add(mul(q, b, p), r, p) == tuple(a)      # the division law itself
    return q, r


def mod(a, b, p):
    return _longdiv(a, b, p)[1]


def divides(d, a, p):
    """d | a  (0 | a only for a = 0)."""
    if not d:
        return not a
    return mod(a, d, p) == ()


def monic(a, p):
    return scal(inv_mod(a[-1], p), a, p) if a else ()


def gcd(a, b, p):
    """Euclid; result monic (zero for a = b = 0)."""
    while b:
        a, b = b, mod(a, b, p)
    return monic(a, p)


def gcdext(a, b, p):
    """(g, s, t) with s a + t b = g = gcd(a, b), g monic; checked."""
    a0, b0 = a, b
    s, s1, t, t1 = (1,), (), (), (1,)
    while b:
        q, r = divmod_(a, b, p)
        a, b = b, r
        s, s1 = s1, sub(s, mul(q, s1, p), p)
        t, t1 = t1, sub(t, mul(q, t1, p), p)
    if a:
        u = inv_mod(a[-1], p)
        a, s, t = scal(u, a, p), scal(u, s, p), scal(u, t, p)
    assert add(mul(s, a0, p), mul(t, b0, p), p) == a
    return a, s, t


def inverse(a, b, p):
    """The reduced c with a c = 1 (mod b), or None when gcd(a, b) != 1; b != 0."""
    g, s, _ = gcdext(a, b, p)
    if g != (1,):
        return None
    c = mod(s, b, p)
    assert mod(mul(a, c, p), b, p) == mod((1,), b, p)
    return c


def powers_mod(a, nmax, b, p):
    """[a^0 mod b, ..., a^nmax mod b] by repeated multiplication modulo b (all reduced)."""
    r = mod((1,), b, p)
    out = [r]
    for _ in range(nmax):
        r = mod(mul(r, a, p), b, p)
        out.append(r)
    return out


def evaluate(a, x, p):
    return sum(c * pow(x, i, p) for i, c in enumerate(a)) % p


def deriv(a, m, p):
    """m-th formal derivative: coefficient of x^(i-m) is i(i-1)...(i-m+1) a_i."""
    if m >= p:
        return ()       # a product of m >= p consecutive integers is divisible by p
    out = []
    for i in range(m, len(a)):
        f = 1
        for k in range(m):
            f *= i - k
        out.append(f * a[i] % p)
    return trim(out)


def reverse(a, d=None):
    """Reverse of a taken as a polynomial of degree d (padded/truncated to d+1 coefficients)."""
    if d is None:
        d = len(a) - 1
    c = list(a[:d + 1])
    c += [0] * (d + 1 - len(c))
    return trim(c[::-1])


def less(a, b):
    """Order of the module docstring: by degree, then lexicographic from the leading coefficient
    (zero polynomial smallest); this is the order of the integer codes."""
    if len(a) != len(b):
        return len(a) < len(b)
    return a[::-1] < b[::-1]


def terms(a, x='x'):
    """Sum-of-powers string, highest power first (format of the gfpx doctests)."""
    if not a:
        return '0'
    out = []
    for i in range(len(a) - 1, -1, -1):
        c = a[i]
        if c:
            if i == 0:
                out.append(str(c))
            else:
                out.append(('' if c == 1 else str(c)) + x + ('' if i == 1 else f'^{i}'))
    return '+'.join(out)


# -- divisors, irreducibility --------------------------------------------------------------

def monic_polys(p, d):
    """All monic polynomials of degree exactly d, in integer order."""
    out = []
    for n in range(p**d):
        low = from_int(n, p)
        out.append(low + (0,) * (d - len(low)) + (1,))
    return out


def monic_divisors(a, p, maxdeg=None):
    """Set of monic divisors of a != 0 (brute force: every monic polynomial of degree <= deg a)."""
    assert a
    out = set()
    top = deg(a) if maxdeg is None else min(deg(a), maxdeg)
    for d in range(top + 1):
        for m in monic_polys(p, d):
            if mod(a, m, p) == ():
                out.add(m)
    return out


def irreducible_table(p, D):
    """bytearray T of length p^(D+1): T[n] = 1 iff the polynomial with integer code n is irreducible.

    Sieve by multiplication: a polynomial of degree >= 1 is reducible iff it is f*g with f monic of
    degree 1..deg/2 and deg g >= deg f (leading units can be moved into g). Constants and 0 are
    not irreducible."""
    size = p**(D + 1)
    T = bytearray([1]) * size
    for n in range(min(p, size)):
        T[n] = 0
    for df in range(1, D // 2 + 1):
        fs = monic_polys(p, df)
        for g_code in range(p**df, p**(D - df + 1)):
            g = from_int(g_code, p)
            for f in fs:
                T[to_int(mul(f, g, p), p)] = 0
    return T


def is_irreducible_trial(a, p):
    """Trial division by every monic polynomial of degree 1..deg/2."""
    if deg(a) < 1:
        return False
    for d in range(1, deg(a) // 2 + 1):
        for m in monic_polys(p, d):
            if mod(a, m, p) == ():
                return False
    return True
