"""Plain reference elements for the secure-array checks (C37): NumPy object arrays of these elements are pushed through
NumPy's own generic (dtype=object) implementations, so shapes, broadcasting, axes and orders come from plain NumPy and
the element arithmetic from boring Python.

 * secure integers      -> Python ints;
 * secure fixed point   -> Fx: a closed interval [lo, hi] of exact rationals in units of 2**-f.  Inputs are points;
                           `tr()` models ONE probabilistic truncation (result is floor or ceil of the exact value, exact
                           when the value is a whole number of units), so a result is accepted iff it lies in the interval;
 * finite fields        -> FE: (table field of mc.ref.shamir / mc.ref.fields, code).

Nothing in here imports mpyc.
"""

from fractions import Fraction
import math


class Skip(Exception):
    """Raised by a reference computation when a documented precondition does not hold (value leaves the type's range,
    comparison of values that are not determined, division by zero): the case is not evaluated."""


def make_fx(f, l):
    """Fixed-point reference class for SecFxp(l, f): intervals in units of 2**-f; values must stay inside the l-bit range."""
    unit = 1 << f
    bound = 1 << (l - 1)          # |scaled value| must be < 2**(l-1)

    class Fx:
        __slots__ = ('lo', 'hi')
        F, L = f, l
        EACH = False          # True (class FxT): every multiplication is truncated at once, as for secure scalars

        def __init__(self, lo, hi=None):
            self.lo = Fraction(lo)
            self.hi = self.lo if hi is None else Fraction(hi)

        # -- conversions of public operands ---------------------------------------------------
        @classmethod
        def of(cls, x):
            if isinstance(x, Fx):
                return x
            if isinstance(x, bool):
                return cls(unit if x else 0)
            if isinstance(x, int):
                return cls(x * unit)
            if isinstance(x, float):          # public floats are rounded to the fixed-point grid first
                return cls(round(x * unit))
            if hasattr(x, 'item') and not hasattr(x, '__setitem__'):            # numpy scalar (not ndarray)
                return cls.of(x.item())
            return NotImplemented

        def point(self):
            return self.lo == self.hi

        def is_int(self):
            return self.point() and self.lo.denominator == 1 and self.lo % unit == 0

        def __repr__(self):
            a = f'{float(self.lo / unit):g}'
            return a if self.point() else f'[{a},{float(self.hi / unit):g}]'

        # -- arithmetic -----------------------------------------------------------------------
        def __add__(self, o):
            o = self.of(o)
            if o is NotImplemented:
                return o
            return type(self)(self.lo + o.lo, self.hi + o.hi)

        __radd__ = __add__

        def __neg__(self):
            return type(self)(-self.hi, -self.lo)

        def __pos__(self):
            return self

        def __sub__(self, o):
            o = self.of(o)
            if o is NotImplemented:
                return o
            return type(self)(self.lo - o.hi, self.hi - o.lo)

        def __rsub__(self, o):
            o = self.of(o)
            if o is NotImplemented:
                return o
            return o - self

        def __mul__(self, o):
            """Exact product in units (no truncation: see tr())."""
            o = self.of(o)
            if o is NotImplemented:
                return o
            c = [a * b / unit for a in (self.lo, self.hi) for b in (o.lo, o.hi)]
            r = type(self)(min(c), max(c))
            return r.tr() if self.EACH else r

        __rmul__ = __mul__

        def __abs__(self):
            if self.lo >= 0:
                return self
            if self.hi <= 0:
                return -self
            return type(self)(0, max(-self.lo, self.hi))

        def tr(self):
            """One secure truncation of the exact value: floor or ceil (in units)."""
            if max(abs(self.lo), abs(self.hi)) >= bound:
                raise Skip('fixed-point value out of range')
            return type(self)(math.floor(self.lo), math.ceil(self.hi))

        def check(self):
            if max(abs(self.lo), abs(self.hi)) >= bound:
                raise Skip('fixed-point value out of range')
            return self

        # -- comparisons (only of determined values) --------------------------------------------
        def _cmp(self, o):
            o = self.of(o)
            if self.hi < o.lo:
                return -1
            if self.lo > o.hi:
                return 1
            if self.point() and o.point() and self.lo == o.lo:
                return 0
            raise Skip('comparison of undetermined fixed-point values')

        def __lt__(self, o):
            return self._cmp(o) < 0

        def __le__(self, o):
            return self._cmp(o) <= 0

        def __gt__(self, o):
            return self._cmp(o) > 0

        def __ge__(self, o):
            return self._cmp(o) >= 0

        def __eq__(self, o):
            return self._cmp(o) == 0

        def __ne__(self, o):
            return self._cmp(o) != 0

        def __hash__(self):
            return hash((self.lo, self.hi))

        def __bool__(self):
            if self.point():
                return self.lo != 0
            raise Skip('truth value of undetermined fixed-point value')

    Fx.T = type('FxT', (Fx,), {'__slots__': (), 'EACH': True})
    return Fx


def make_fe(F):
    """Field-element reference class over table field F (mc.ref.shamir.TField)."""

    class FE:
        __slots__ = ('c',)
        R = F

        def __init__(self, c):
            self.c = c

        @staticmethod
        def of(x):
            if isinstance(x, FE):
                return x
            if isinstance(x, bool):
                return FE(F.reduce(int(x)))
            if isinstance(x, int):
                return FE(F.reduce(x) if x >= 0 else F.ref.from_int(x))
            if hasattr(x, 'item') and not hasattr(x, '__setitem__'):
                return FE.of(x.item())
            return NotImplemented

        def __repr__(self):
            return str(self.c)

        def __add__(self, o):
            o = FE.of(o)
            return o if o is NotImplemented else FE(F.add(self.c, o.c))

        __radd__ = __add__

        def __sub__(self, o):
            o = FE.of(o)
            return o if o is NotImplemented else FE(F.sub(self.c, o.c))

        def __rsub__(self, o):
            o = FE.of(o)
            return o if o is NotImplemented else FE(F.sub(o.c, self.c))

        def __neg__(self):
            return FE(F.neg(self.c))

        def __pos__(self):
            return self

        def __mul__(self, o):
            o = FE.of(o)
            return o if o is NotImplemented else FE(F.mul(self.c, o.c))

        __rmul__ = __mul__

        def inv(self):
            if self.c == 0:
                raise Skip('division by zero')
            return FE(F.inv(self.c))

        def __truediv__(self, o):
            o = FE.of(o)
            return o if o is NotImplemented else self * o.inv()

        def __rtruediv__(self, o):
            o = FE.of(o)
            return o if o is NotImplemented else o * self.inv()

        def __pow__(self, e):
            b = self
            if e < 0:
                b, e = self.inv(), -e
            r = FE(F.reduce(1))
            for _ in range(e):          # literally repeated multiplication (small exponents only)
                r = r * b
            return r

        def __eq__(self, o):
            o = FE.of(o)
            return o is not NotImplemented and self.c == o.c

        def __ne__(self, o):
            return not self == o

        def __hash__(self):
            return hash(self.c)

        def __bool__(self):
            return self.c != 0

    return FE


def obj_array(np, shape, elems):
    """NumPy object array of the given shape filled (C order) with the given elements."""
    a = np.empty(len(elems), dtype=object)
    for i, e in enumerate(elems):
        a[i] = e
    return a.reshape(shape)


class LazyField:
    """Same interface as mc.ref.shamir.TField on top of mc.ref.fields.RefField, without eager tables (for GF(2^8))."""

    def __init__(self, p, mod=None):
        from mc.ref.fields import RefField
        self.ref = RefField(p, list(mod) if mod is not None else None)
        self.p, self.q, self.prime = p, self.ref.q, mod is None
        self._m = {}

    def add(self, a, b):
        return self.ref.add(a, b)

    def neg(self, a):
        return self.ref.neg(a)

    def sub(self, a, b):
        return self.ref.sub(a, b)

    def mul(self, a, b):
        r = self._m.get((a, b))
        if r is None:
            r = self._m[a, b] = self.ref._mul_raw(a, b) if not self.prime else a * b % self.p
        return r

    def inv(self, a):
        assert a != 0
        return self.ref.inv(a)

    def reduce(self, n):
        return self.ref.from_int(n)
