"""Independent reference models of the finite groups of mpyc.fingroups (used by C27).

Everything here is plain-int Python written from the textbook definitions; nothing imports mpyc.
All small reference groups expose: .identity, .op(x, y), .inv(x), .elements() (identity first),
with hashable elements.  Curve references additionally expose on_curve() and mul().
"""

import itertools
import math


# ------------------------------------------------------------------------------ number theory

def is_prime(n):
    """Trial division for small n, Miller-Rabin with 24 fixed prime bases otherwise
    (deterministic below 3.3e24; for the 250-450 bit curve orders a fixed-base strong test)."""
    if n < 2:
        return False
    small = (2, 3, 5, 7, 11, 13, 17, 19, 23, 29, 31, 37, 41, 43, 47, 53, 59, 61, 67, 71, 73, 79, 83, 89)
    for q in small:
        if n % q == 0:
            return n == q
    if n < 89 * 89:
        return True
    d, s = n - 1, 0
    while d % 2 == 0:
        d, s = d // 2, s + 1
    for a in small:
        x = pow(a, d, n)
        if x in (1, n - 1):
            continue
        for _ in range(s - 1):
            x = x * x % n
            if x == n - 1:
                break
        else:
            return False
    return True


def prime_factors(n):
    fs = []
    q = 2
    while q * q <= n:
        if n % q == 0:
            fs.append(q)
            while n % q == 0:
                n //= q
        q += 1
    if n > 1:
        fs.append(n)
    return fs


def sqrt_mod(a, p):
    """Some square root of a modulo the odd prime p, or None (Tonelli-Shanks)."""
    a %= p
    if a == 0:
        return 0
    if pow(a, (p - 1) // 2, p) != 1:
        return None
    if p % 4 == 3:
        return pow(a, (p + 1) // 4, p)
    q, s = p - 1, 0
    while q % 2 == 0:
        q, s = q // 2, s + 1
    z = 2
    while pow(z, (p - 1) // 2, p) != p - 1:
        z += 1
    m, c, t, r = s, pow(z, q, p), pow(a, q, p), pow(a, (q + 1) // 2, p)
    while t != 1:
        i, t2 = 0, t
        while t2 != 1:
            t2, i = t2 * t2 % p, i + 1
        b = pow(c, 1 << (m - i - 1), p)
        m, c, t, r = i, b * b % p, t * b * b % p, r * b % p
    return r


# ------------------------------------------------------------------------------ fields

class Fp:
    """Prime field, elements are ints in range(p)."""

    def __init__(self, p):
        self.p = p
        self.zero = 0
        self.one = 1

    def el(self, n):
        return n % self.p

    def add(self, a, b):
        return (a + b) % self.p

    def sub(self, a, b):
        return (a - b) % self.p

    def neg(self, a):
        return -a % self.p

    def mul(self, a, b):
        return a * b % self.p

    def inv(self, a):
        if a % self.p == 0:
            raise ZeroDivisionError('reference: division by zero')
        return pow(a, -1, self.p)

    def elements(self):
        return range(self.p)

    def units(self):
        return range(1, self.p)


class Fp2:
    """F_p[i]/(i^2+1) for p = 3 mod 4, elements are pairs (c0, c1) = c0 + c1 i."""

    def __init__(self, p):
        assert p % 4 == 3
        self.p = p
        self.zero = (0, 0)
        self.one = (1, 0)

    def el(self, n):
        return (n % self.p, 0)

    def add(self, a, b):
        return ((a[0] + b[0]) % self.p, (a[1] + b[1]) % self.p)

    def sub(self, a, b):
        return ((a[0] - b[0]) % self.p, (a[1] - b[1]) % self.p)

    def neg(self, a):
        return (-a[0] % self.p, -a[1] % self.p)

    def mul(self, a, b):
        return ((a[0] * b[0] - a[1] * b[1]) % self.p, (a[0] * b[1] + a[1] * b[0]) % self.p)

    def inv(self, a):
        n = (a[0] * a[0] + a[1] * a[1]) % self.p
        if n == 0:
            raise ZeroDivisionError('reference: division by zero')
        n = pow(n, -1, self.p)
        return (a[0] * n % self.p, -a[1] * n % self.p)


# ------------------------------------------------------------------------------ generic helpers

def naive_powers(ref, x, nmax):
    """[x^0, x^1, ..., x^nmax] by repeated application of the reference operation."""
    out = [ref.identity]
    for _ in range(nmax):
        out.append(ref.op(out[-1], x))
    return out


def naive_power(ref, x, n):
    """x^n by |n|-fold application (n may be negative)."""
    if n < 0:
        x, n = ref.inv(x), -n
    r = ref.identity
    for _ in range(n):
        r = ref.op(r, x)
    return r


def element_order(ref, x):
    n, y = 1, x
    while y != ref.identity:
        y, n = ref.op(y, x), n + 1
    return n


def is_group(ref, elems):
    """Check the reference model itself (closure, identity, inverses); associativity on demand."""
    s = set(elems)
    e = ref.identity
    if e not in s:
        return False
    for x in elems:
        if ref.op(x, e) != x or ref.op(e, x) != x:
            return False
        if ref.op(x, ref.inv(x)) != e or ref.op(ref.inv(x), x) != e:
            return False
        for y in elems:
            if ref.op(x, y) not in s:
                return False
    return True


# ------------------------------------------------------------------------------ permutations

class RefSym:
    """Permutations of range(n) as tuples; op(p, q) = first p then q, i.e. i -> q[p[i]]."""

    def __init__(self, n):
        self.n = n
        self.identity = tuple(range(n))

    def op(self, p, q):
        return tuple(q[p[i]] for i in range(self.n))

    def inv(self, p):
        return tuple(sorted(range(self.n), key=p.__getitem__))

    def elements(self):
        return list(itertools.permutations(range(self.n)))


def cycle_type(p):
    seen, lens = set(), []
    for i in range(len(p)):
        if i not in seen:
            j, l = i, 0
            while j not in seen:
                seen.add(j)
                j, l = p[j], l + 1
            lens.append(l)
    return tuple(sorted(lens, reverse=True))


# ------------------------------------------------------------------------------ subgroups of Z_p^*

class RefUnits:
    """Subgroup of Z_p^* given by membership predicate; elements are ints."""

    def __init__(self, p, members):
        self.p = p
        self.identity = 1
        self._elems = [1] + [x for x in members if x != 1]

    def op(self, x, y):
        return x * y % self.p

    def inv(self, x):
        return pow(x, -1, self.p)

    def elements(self):
        return list(self._elems)


def RefQR(p):
    return RefUnits(p, sorted({x * x % p for x in range(1, p)}))


def RefSchnorr(p, q):
    return RefUnits(p, [x for x in range(1, p) if pow(x, q, p) == 1])


# ------------------------------------------------------------------------------ elliptic curves

class RefWeierstrass:
    """y^2 = x^3 + a2 x^2 + a4 x + a6 over field F; points are (x, y) or None (infinity)."""

    def __init__(self, F, a4, a6, a2=None):
        self.F = F
        self.a2 = F.zero if a2 is None else a2
        self.a4 = a4
        self.a6 = a6
        self.identity = None

    def rhs(self, x):
        F = self.F
        x2 = F.mul(x, x)
        return F.add(F.add(F.mul(x2, x), F.mul(self.a2, x2)), F.add(F.mul(self.a4, x), self.a6))

    def on_curve(self, P):
        if P is None:
            return True
        return self.F.mul(P[1], P[1]) == self.rhs(P[0])

    def inv(self, P):
        if P is None:
            return None
        return (P[0], self.F.neg(P[1]))

    def op(self, P, Q):
        F = self.F
        if P is None:
            return Q
        if Q is None:
            return P
        x1, y1 = P
        x2, y2 = Q
        if x1 == x2:
            if F.add(y1, y2) == F.zero:
                return None
            # tangent: (3 x1^2 + 2 a2 x1 + a4) / (2 y1)
            num = F.add(F.add(F.mul(F.el(3), F.mul(x1, x1)), F.mul(F.el(2), F.mul(self.a2, x1))), self.a4)
            lam = F.mul(num, F.inv(F.add(y1, y1)))
        else:
            lam = F.mul(F.sub(y2, y1), F.inv(F.sub(x2, x1)))
        x3 = F.sub(F.sub(F.sub(F.mul(lam, lam), self.a2), x1), x2)
        y3 = F.sub(F.mul(lam, F.sub(x1, x3)), y1)
        return (x3, y3)

    def mul(self, n, P):
        return _scalar_mul(self, n, P)

    def elements(self):
        """All points, by brute force over the curve equation (prime fields)."""
        F = self.F
        pts = [None]
        for x in F.elements():
            r = self.rhs(x)
            for y in F.elements():
                if F.mul(y, y) == r:
                    pts.append((x, y))
        return pts

    def discriminant_nonzero(self):
        """Non-singular iff the cubic has no repeated root (prime fields, brute force)."""
        F = self.F
        for x in F.elements():
            d = F.add(F.add(F.mul(F.el(3), F.mul(x, x)), F.mul(F.el(2), F.mul(self.a2, x))), self.a4)
            if self.rhs(x) == F.zero and d == F.zero:
                return False
        return True


class RefEdwards:
    """a x^2 + y^2 = 1 + d x^2 y^2 over F; identity (0, 1); complete when a is a square, d is not."""

    def __init__(self, F, a, d):
        self.F = F
        self.a = a
        self.d = d
        self.identity = (F.zero, F.one)

    def on_curve(self, P):
        F = self.F
        x2, y2 = F.mul(P[0], P[0]), F.mul(P[1], P[1])
        return F.add(F.mul(self.a, x2), y2) == F.add(F.one, F.mul(self.d, F.mul(x2, y2)))

    def inv(self, P):
        return (self.F.neg(P[0]), P[1])

    def op(self, P, Q):
        F = self.F
        x1, y1 = P
        x2, y2 = Q
        t = F.mul(self.d, F.mul(F.mul(x1, x2), F.mul(y1, y2)))
        x3 = F.mul(F.add(F.mul(x1, y2), F.mul(y1, x2)), F.inv(F.add(F.one, t)))
        y3 = F.mul(F.sub(F.mul(y1, y2), F.mul(self.a, F.mul(x1, x2))), F.inv(F.sub(F.one, t)))
        return (x3, y3)

    def mul(self, n, P):
        return _scalar_mul(self, n, P)

    def elements(self):
        F = self.F
        pts = [self.identity]
        for x in F.elements():
            for y in F.elements():
                if (x, y) != self.identity and self.on_curve((x, y)):
                    pts.append((x, y))
        return pts


def _scalar_mul(ref, n, P):
    """Right-to-left binary method on the reference group (independent of fingroups.repeat,
    which works left-to-right)."""
    if n < 0:
        n, P = -n, ref.inv(P)
    R = ref.identity
    while n:
        if n & 1:
            R = ref.op(R, P)
        P = ref.op(P, P)
        n >>= 1
    return R


# Parameters of the built-in curves, from the cited standards/papers (not read from mpyc).
_BN_U = 1868033**3
_BN_P = 36 * _BN_U**4 + 36 * _BN_U**3 + 24 * _BN_U**2 + 6 * _BN_U + 1
_BN_N = 36 * _BN_U**4 + 36 * _BN_U**3 + 18 * _BN_U**2 + 6 * _BN_U + 1
_P25519 = 2**255 - 19
_P448 = 2**448 - 2**224 - 1


def builtin_curve(name):
    """-> (kind, ref, generator, order, p) for the five built-in curves."""
    if name == 'Ed25519':
        p = _P25519
        F = Fp(p)
        d = -121665 * pow(121666, -1, p) % p
        ref = RefEdwards(F, p - 1, d)
        y = 4 * pow(5, -1, p) % p
        x = sqrt_mod((y * y - 1) * pow(d * y * y + 1, -1, p), p)   # -x^2 + y^2 = 1 + d x^2 y^2
        x = x if x % 2 == 0 else p - x
        return 'edwards', ref, (x, y), 2**252 + 27742317777372353535851937790883648493, p
    if name == 'Ed448':
        p = _P448
        F = Fp(p)
        d = -39081 % p
        ref = RefEdwards(F, 1, d)
        y = 19
        x = sqrt_mod((1 - y * y) * pow(1 - d * y * y, -1, p), p)   # x^2 + y^2 = 1 + d x^2 y^2
        x = x if 2 * x < p else p - x
        n = 2**446 - 0x8335dc163bb124b65129c96fde933d8d723a70aadc873d6d54a7bb0d
        return 'edwards', ref, (x, y), n, p
    if name == 'secp256k1':
        p = 2**256 - 2**32 - 977
        F = Fp(p)
        ref = RefWeierstrass(F, 0, 7)
        G = (0x79BE667EF9DCBBAC55A06295CE870B07029BFCDB2DCE28D959F2815B16F81798,
             0x483ADA7726A3C4655DA4FBFC0E1108A8FD17B448A68554199C47D08FFB10D4B8)
        n = 0xFFFFFFFFFFFFFFFFFFFFFFFFFFFFFFFEBAAEDCE6AF48A03BBFD25E8CD0364141
        return 'weierstrass', ref, G, n, p
    if name == 'BN256':
        p = _BN_P
        F = Fp(p)
        ref = RefWeierstrass(F, 0, 3)
        return 'weierstrass', ref, (1, p - 2), _BN_N, p
    if name == 'BN256_twist':
        p = _BN_P
        F = Fp2(p)
        b = F.mul((3, 0), F.inv((3, 1)))            # 3 / (i + 3)
        ref = RefWeierstrass(F, F.zero, b)
        # generator of the order-n subgroup of the sextic twist (Naehrig-Niederhagen-Schwabe);
        # validated below by on_curve and n*G = O in the reference arithmetic
        G = ((64746500191241794695844075326670126197795977525365406531717464316923369116492,
              21167961636542580255011770066570541300993051739349375019639421053990175267184),
             (17778617556404439934652658462602675281523610326338642107814333856843981424549,
              20666913350058776956210519119118544732556678129809273996262322366050359951122))
        return 'weierstrass', ref, G, _BN_N, p
    raise ValueError(name)


# ------------------------------------------------------------------------------ binary quadratic forms

class RefForms:
    """Form class group of discriminant D < 0: reduced primitive positive definite forms (a, b, c),
    Dirichlet composition (united forms: B found by search) and textbook reduction."""

    def __init__(self, D):
        assert D < 0 and D % 4 in (0, 1)
        self.D = D
        k = D % 2
        self.identity = (1, k, (k - D) // 4)

    def is_reduced(self, f):
        a, b, c = f
        return (b * b - 4 * a * c == self.D and a > 0 and -a < b <= a <= c and (a != c or b >= 0)
                and math.gcd(a, math.gcd(b, c)) == 1)

    def reduce(self, f):
        a, b, c = f
        D = b * b - 4 * a * c
        while True:
            if not -a < b <= a:
                b %= 2 * a
                if b > a:
                    b -= 2 * a
                c = (b * b - D) // (4 * a)
            elif a > c:
                a, b, c = c, -b, a
            elif a == c and b < 0:
                b = -b
            else:
                return (a, b, c)

    def elements(self):
        D = self.D
        out = [self.identity]
        a = 1
        while 3 * a * a <= -D:
            for b in range(-a + 1, a + 1):
                if (b * b - D) % (4 * a) == 0:
                    c = (b * b - D) // (4 * a)
                    f = (a, b, c)
                    if c >= a and self.is_reduced(f) and f != self.identity:
                        out.append(f)
            a += 1
        return out

    def inv(self, f):
        return self.reduce((f[0], -f[1], f[2]))

    def op(self, f, g):
        D = self.D
        a1, b1, _ = f
        a2, b2, _ = g
        m = (b1 + b2) // 2
        e = math.gcd(a1, math.gcd(a2, m))
        a3 = a1 * a2 // (e * e)
        m1, m2, rhs = 2 * a1 // e, 2 * a2 // e, (D + b1 * b2) // (2 * e)
        # search B = b1 mod m1 in one period of length 2 a3 (stepping through the first congruence)
        sols = [B for B in range(b1 % m1, 2 * a3, m1)
                if (B - b2) % m2 == 0 and (m // e * B - rhs) % (2 * a3) == 0]
        assert len(sols) == 1, (f, g, sols)
        B = sols[0]
        assert (B * B - D) % (4 * a3) == 0
        return self.reduce((a3, B, (B * B - D) // (4 * a3)))


def transform_form(f, M):
    """f(px + qy, rx + sy) for M = ((p, q), (r, s)) of determinant 1."""
    a, b, c = f
    (p, q), (r, s) = M
    return (a * p * p + b * p * r + c * r * r,
            2 * a * p * q + b * (p * s + q * r) + 2 * c * r * s,
            a * q * q + b * q * s + c * s * s)


def sl2_alphabet(bound):
    """All integer matrices of determinant 1 with entries of absolute value <= bound."""
    rng = range(-bound, bound + 1)
    return [((p, q), (r, s)) for p in rng for q in rng for r in rng for s in rng if p * s - q * r == 1]


def class_group_discriminants(lo, hi):
    """Admissible discriminants per ClassGroup(): Delta < 0, Delta = 1 mod 4, -Delta prime, lo <= |Delta| <= hi."""
    return [-n for n in range(max(lo, 3), hi + 1) if n % 4 == 3 and is_prime(n)]


# ------------------------------------------------------------------------------ polynomials mod p

def ptrim(a):
    a = list(a)
    while a and a[-1] == 0:
        a.pop()
    return a


def padd(a, b, p):
    n = max(len(a), len(b))
    return ptrim([((a[i] if i < len(a) else 0) + (b[i] if i < len(b) else 0)) % p for i in range(n)])


def psub(a, b, p):
    n = max(len(a), len(b))
    return ptrim([((a[i] if i < len(a) else 0) - (b[i] if i < len(b) else 0)) % p for i in range(n)])


def pmul(a, b, p):
    if not a or not b:
        return []
    c = [0] * (len(a) + len(b) - 1)
    for i, x in enumerate(a):
        for j, y in enumerate(b):
            c[i + j] = (c[i + j] + x * y) % p
    return ptrim(c)


def pdivmod(a, b, p):
    a = ptrim([x % p for x in a])
    b = ptrim([x % p for x in b])
    assert b
    inv = pow(b[-1], -1, p)
    q = [0] * max(len(a) - len(b) + 1, 0)
    while len(a) >= len(b):
        k = len(a) - len(b)
        t = a[-1] * inv % p
        q[k] = t
        for i, y in enumerate(b):
            a[i + k] = (a[i + k] - t * y) % p
        a = ptrim(a)
    return ptrim(q), a


def pmod(a, b, p):
    return pdivmod(a, b, p)[1]


def pmonic(a, p):
    a = ptrim(a)
    if not a:
        return a
    inv = pow(a[-1], -1, p)
    return [x * inv % p for x in a]


def pgcd(a, b, p):
    a, b = ptrim([x % p for x in a]), ptrim([x % p for x in b])
    while b:
        a, b = b, pmod(a, b, p)
    return pmonic(a, p)


def pxgcd(a, b, p):
    """(d, s, t) with d = gcd(a, b) monic and s a + t b = d."""
    r0, r1 = ptrim([x % p for x in a]), ptrim([x % p for x in b])
    s0, s1, t0, t1 = [1], [], [], [1]
    while r1:
        q, r = pdivmod(r0, r1, p)
        r0, r1 = r1, r
        s0, s1 = s1, psub(s0, pmul(q, s1, p), p)
        t0, t1 = t1, psub(t0, pmul(q, t1, p), p)
    if not r0:
        return [], [], []
    inv = pow(r0[-1], -1, p)
    return pmul(r0, [inv], p), pmul(s0, [inv], p), pmul(t0, [inv], p)


def pshift(a, s, p):
    """a(x + s) mod p (Horner)."""
    r = []
    for coef in reversed(a):
        r = padd(pmul(r, [s % p, 1], p), [coef % p], p)
    return r


def peval(a, x, p):
    r = 0
    for coef in reversed(a):
        r = (r * x + coef) % p
    return r


class RefMumford:
    """Jacobian of y^2 = f(x), f monic squarefree of degree 2g+1 over F_p, as the set of reduced
    Mumford pairs (u, v): u monic, deg v < deg u <= g, u | f - v^2 (tuples of coefficient tuples,
    little endian).  Only membership/enumeration/inverse and the composition *without* reduction
    are modelled (see compose_unreduced); the full group law is checked through the group axioms."""

    def __init__(self, p, f, g):
        self.p = p
        self.f = ptrim([c % p for c in f])
        self.g = g
        assert len(self.f) == 2 * g + 2 and self.f[-1] == 1
        self.identity = ((1,), ())

    def is_member(self, D):
        u, v = list(D[0]), list(D[1])
        p = self.p
        if not u or u[-1] != 1 or len(u) - 1 > self.g or len(v) >= len(u):
            return False
        if any(not 0 <= c < p for c in u + v) or (v and v[-1] == 0):
            return False
        return not pmod(psub(self.f, pmul(v, v, p), p), u, p)

    def inv(self, D):
        return (D[0], tuple(ptrim([-c % self.p for c in D[1]])))

    def elements(self):
        p, g = self.p, self.g
        out = [self.identity]
        for du in range(1, g + 1):
            for lo in itertools.product(range(p), repeat=du):
                u = list(lo) + [1]
                fu = pmod(self.f, u, p)
                for vc in itertools.product(range(p), repeat=du):
                    v = ptrim(vc)
                    if pmod(pmul(v, v, p), u, p) == fu:
                        out.append((tuple(u), tuple(v)))
        return out

    def op(self, D1, D2):
        """Cantor's algorithm in the Handbook of Elliptic and Hyperelliptic Curve Cryptography
        formulation (Algorithm 14.7): two extended gcds, composition, reduction steps."""
        p, f = self.p, self.f
        u1, v1 = list(D1[0]), list(D1[1])
        u2, v2 = list(D2[0]), list(D2[1])
        d1, e1, e2 = pxgcd(u1, u2, p)
        d, c1, c2 = pxgcd(d1, padd(v1, v2, p), p)
        s1, s2, s3 = pmul(c1, e1, p), pmul(c1, e2, p), c2
        u, rem = pdivmod(pmul(u1, u2, p), pmul(d, d, p), p)
        assert not rem
        num = padd(padd(pmul(pmul(s1, u1, p), v2, p), pmul(pmul(s2, u2, p), v1, p), p),
                   pmul(s3, padd(pmul(v1, v2, p), f, p), p), p)
        v, rem = pdivmod(num, d, p)
        assert not rem
        v = pmod(v, u, p)
        while len(u) - 1 > self.g:
            u, rem = pdivmod(psub(f, pmul(v, v, p), p), u, p)
            assert not rem
            v = pmod([-c % p for c in v], u, p)
        u = pmonic(u, p)
        return (tuple(u), tuple(v))

    def mul(self, n, D):
        return _scalar_mul(self, n, D)

    def compose_unreduced(self, D1, D2):
        """If deg u1 + deg u2 <= g and gcd(u1, u2, v1 + v2) = 1, the sum is the unique (u, v) with
        u = u1 u2, v = v1 mod u1, v = v2 mod u2, u | f - v^2; returns a predicate on candidates.
        Returns None when the case does not apply."""
        p = self.p
        u1, v1 = list(D1[0]), list(D1[1])
        u2, v2 = list(D2[0]), list(D2[1])
        if (len(u1) - 1) + (len(u2) - 1) > self.g:
            return None
        if pgcd(pgcd(u1, u2, p), padd(v1, v2, p), p) != [1]:
            return None
        u = pmul(u1, u2, p)

        def ok(D):
            uu, vv = list(D[0]), list(D[1])
            return (uu == u and len(vv) < len(uu) and not pmod(psub(vv, v1, p), u1, p)
                    and not pmod(psub(vv, v2, p), u2, p)
                    and not pmod(psub(self.f, pmul(vv, vv, p), p), u, p))
        return ok


class RefGenus1:
    """Genus-1 Mumford pairs <-> points of y^2 = f(x) (monic cubic): (x + c, y0) <-> (-c, y0)."""

    def __init__(self, p, f):
        self.p = p
        f = [c % p for c in f]
        assert len(f) == 4 and f[3] == 1
        self.curve = RefWeierstrass(Fp(p), f[1], f[0], f[2])
        self.identity = ((1,), ())

    def to_point(self, D):
        if D == self.identity:
            return None
        u, v = D
        return (-u[0] % self.p, v[0] if v else 0)

    def from_point(self, P):
        if P is None:
            return self.identity
        return ((-P[0] % self.p, 1), tuple(ptrim([P[1]])))

    def op(self, D1, D2):
        return self.from_point(self.curve.op(self.to_point(D1), self.to_point(D2)))

    def inv(self, D):
        return self.from_point(self.curve.inv(self.to_point(D)))

    def elements(self):
        return [self.from_point(P) for P in self.curve.elements()]
