"""C14 -- sharings dealt during protocols have full threshold degree.  See mc/sharing.py."""

from mc import sharing

LEVEL = 'exploration'
RULE = ('one case = one recorded secure value (C11) / one dealing (C14) in one execution (program, input pair, m, t, PRSS mode, schedule); '
        'all input pairs of the declared alphabet are enumerated; non-trivial = t >= 1')
ASSUMPTIONS = ['prime fields only (secint, secfxp, prime secfld)', 'world model of mc/world.py; seeded randomness seam',
               'default eager/lazy schedules (+ all single deviations in thorough at (3,1))']
MANIFEST = dict(level='exploration', technique='bounded-exhaustive input enumeration on real multi-party executions with share probes, a random_split monitor and an independent Lagrange oracle',
                text='Same executions (t>=1). A monitor around thresha.random_split and a trace of the randomness seam show for every dealing inside a protocol: threshold = runtime threshold, exactly t coefficient draws per secret each with bound |F| (fresh, uniform), shares = secret + sum c_j X^(t-j) for exactly those draws, and every message sent by _distribute/_reshare is the row dealt to its recipient (never the secret, never another row), each row sent once.', ref='DESIGN 5/C14', note='trusted: world model, probe via mpc.gather, independent interpolation mod p')


def jobs(tier, seed):
    return sharing.plan('C14', tier, seed)


run_job = sharing.run_job
replay = sharing.replay
