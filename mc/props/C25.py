"""C25 -- the pure-Python gmpy2 stubs (mpyc/gmpy.py) compute what they document.

Bounded-exhaustive enumeration of every helper over declared finite domains, compared with
boring references (sieve, trial division, brute force, definitions) from mc/ref/numth.py.
The Miller-Rabin witnesses of is_prime are not left to chance: `mpyc.gmpy.random` is rebound to
a seam whose randint() returns witnesses chosen by the driver, so that (a) EVERY witness is
enumerated for small x and (b) the large sweeps are deterministic (13 fixed prime bases).
"""

import os
import signal
from math import gcd

from mc.core import Part
from mc.ref import numth as R

LEVEL = 'exploration'
RULE = ('one case = one call of one helper on one argument tuple (for is_prime: plus the exact witness '
        'sequence fed through the random.randint seam); every argument tuple of the declared domains is '
        'enumerated exactly once; non-trivial = the call reaches the algorithm proper (not an argument '
        'check / early exit)')
ASSUMPTIONS = [
    'gmpy2 is absent or MPYC_NOGMPY=1: the stubs are what is checked (the driver sets MPYC_NOGMPY=1)',
    'is_prime draws its witnesses only through mpyc.gmpy.random.randint (seam); for the sweeps the seam cycles '
    'through the 13 prime bases 2..41, which decide primality for every x < 3317044064679887385961981 '
    '(Sorenson-Webster 2015), and any 25 consecutive draws contain all 13; above that bound the expected '
    'answer is the one a correct Miller-Rabin gives for exactly these bases (cross-checked with the table of '
    'Mersenne primes)',
    'builtin int arithmetic, pow() and math.gcd/isqrt are correct (used by the references)',
    'undefined inputs are not judged: legendre with y not an odd prime > 0 may return anything or raise; '
    'is_square of a negative number may return False or raise; isqrt of a negative must not return; iroot of a '
    'negative x (gmpy2: ValueError) must raise or return the true root -- the property says "correct results or '
    'raise on invalid input"',
    'exception types are demanded only where documented (invert: ZeroDivisionError) or where gmpy2 and the stub '
    'agree on ValueError (prev_prime below 3, jacobi/legendre with y even or <= 0, factor_prime_power); ratrec '
    'failures may be any exception',
    'a job that has used 60 (thorough 900) s of CPU is reported as non-termination of the call in progress '
    '(normal job: a few s)',
]
MANIFEST = dict(
    level='exploration',
    technique='bounded-exhaustive enumeration with a witness-controlling seam on random.randint, against '
              'sieve / brute-force / definition references',
    text='is_prime: every witness a in [2,x-2] for all odd x < 3000 and for all composites < 10000 (40000 thorough) '
         'that survive the trial division (primes never rejected, composite accepted iff a is a strong liar), '
         'round-count logic, all x < 2*10^5 (2*10^6) and 2^j+d (j <= 128, |d| <= 16; thorough j <= 200, |d| <= 40) with 13 fixed bases, known '
         'strong pseudoprimes/Carmichael numbers; next_prime/prev_prime on the same ranges; invert, gcdext (GMP '
         'normalisation found by brute force), powmod for all |a|,|b| <= 60 (100); legendre/jacobi/kronecker vs '
         'definitions for all x,y in +-60 (+-150) and 2^j+-1 numerators; isqrt/iroot/is_square for all n < 10^4 '
         '(10^5), roots 1..9, and r^n+-1, 2^j+-1 up to 2^200; factor_prime_power for all x < 10^5 (10^6) and '
         'constructed p^d (all primes p < 1100 (2100), d <= 8 (12); primes around 2^10, 2^16, 2^20, 2^32, 2^64, d up to 64), '
         'p^a q^b, (pq)^d, s^a p^b; ratrec for all y < 200 (all x, all '
         'admissible (N,D) for y < 64 (128)) vs brute-force solution sets.',
    ref='DESIGN 5/C25',
    note='trusted: Python int arithmetic/pow/math; the seam assumption (witnesses only via random.randint); '
         'finite declared domains')

TRIAL = (3, 5, 7, 11, 13, 17, 19, 23, 29, 31, 37, 41, 43, 47, 53)     # read from gmpy.is_prime
BASES = R.MR_BASES

# known hard composites (all prime factors > 53 for most of them): strong pseudoprimes psi_k, Carmichael numbers
HARD = [2047, 3277, 4033, 4681, 8321, 1373653, 25326001, 3215031751, 2152302898747, 3474749660383,
        341550071728321, 3825123056546413051, 318665857834031151167461,
        561, 1105, 1729, 2465, 2821, 6601, 8911, 294409, 56052361, 118901521, 172947529,
        3481, 3599, 59 * 61 * 67, (2**31 - 1) ** 2, (2**31 - 1) * (2**61 - 1), (2**61 - 1) ** 2,
        (2**89 - 1) * (2**61 - 1), (2**107 - 1) ** 2, (2**127 - 1) * (2**89 - 1)]
HARD_FACT = {3215031751: (151, 751, 28351), 318665857834031151167461: (399165290221, 798330580441)}


def load():
    os.environ['MPYC_NOGMPY'] = '1'
    import mpyc.gmpy as g
    if g.version() != 'MPyC stubs':
        raise RuntimeError('gmpy2 was loaded before the driver could select the stubs')
    if not isinstance(getattr(g, 'random', None), R.WitnessSeam):
        g.random = R.WitnessSeam()
    return g, g.random


CUR = [None, None]          # the call in progress (for the watchdog)


def call(f, *args):
    """-> ('ok', value) or ('exc', ExceptionTypeName)."""
    CUR[0], CUR[1] = f, args
    try:
        return 'ok', f(*args)
    except Exception as e:           # noqa
        return 'exc', type(e).__name__


class Hang(BaseException):
    """Raised by the CPU-time watchdog inside a call that does not return."""


def _on_alarm(signum, frame):
    raise Hang()


def watched(part, budget, body):
    """Run body() under a CPU-time budget (seconds of this process, so machine load does not matter); a call
    still running when the budget is spent is reported as non-termination (prev_prime/next_prime/
    factor_prime_power loop until is_prime says yes)."""
    signal.signal(signal.SIGVTALRM, _on_alarm)
    signal.setitimer(signal.ITIMER_VIRTUAL, budget)
    try:
        body()
    except Hang:
        name = getattr(CUR[0], '__name__', '?')
        args = list(CUR[1] or ())
        part.violation(f'C25:{name}:no-termination',
                       f'{name}{tuple(args)} still running after the job had used {budget} s of CPU (normal: a few s)',
                       dict(fn='hang', name=name, args=args))
        part.caps.append('a job was cut by the non-termination watchdog')
    finally:
        signal.setitimer(signal.ITIMER_VIRTUAL, 0)


def bases_is_prime(x):
    """What a correct trial-division + Miller-Rabin answers when the witnesses are exactly BASES (= truth
    below R.MR_LIMIT)."""
    if x < 2:
        return False
    for p in (2,) + TRIAL:
        if x % p == 0:
            return x == p
    return all(R.strong_probable_prime(x, a) for a in BASES)


# =============================================================== single-case checkers (used by run_job and replay)

def ck_witness(part, g, seam, x, script, n, truth):
    """is_prime(x, n) with the witness script; truth = is x prime."""
    seam.feed(list(script))
    st, got = call(g.is_prime, x, n)
    d = dict(fn='witness', x=x, script=list(script), n=n, truth=truth)
    if st != 'ok' or not isinstance(got, bool) and got not in (0, 1):
        part.violation('C25:is_prime:raises', f'is_prime({x},{n}) -> {st} {got}', d)
        return None
    if seam.calls > n:
        part.violation('C25:is_prime:rounds', f'is_prime({x},{n}) drew {seam.calls} witnesses (> n)', d)
    used = script[:max(seam.calls, 0)]
    if truth:
        if not got:
            part.violation('C25:is_prime:prime-rejected', f'is_prime({x},{n}) is False with witnesses {used[:4]}', d)
    elif x > 2 and x % 2 and all(x % p for p in TRIAL):
        want = all(R.strong_probable_prime(x, a) for a in script[:n])
        if bool(got) != want:
            kind = 'nonliar-accepted' if got else 'liar-rejected'
            part.violation(f'C25:is_prime:miller-rabin:{kind}',
                           f'is_prime({x},{n}) with witnesses {list(script[:n])} -> {got}, definition says {want}', d)
    elif got:
        if not (x > 2 and x % 2 and all(R.strong_probable_prime(x, a) for a in script[:n])):
            part.violation('C25:is_prime:small-composite-accepted', f'is_prime({x},{n}) -> True', d)
    return got


def ck_prime_fns(part, g, seam, x, truth, nxt, prv):
    """is_prime(x) (default rounds, 13 cycling bases), next_prime(x), prev_prime(x) against the given truth."""
    seam.script = None
    d = dict(fn='prime_fns', x=x)
    st, got = call(g.is_prime, x)
    if st != 'ok' or bool(got) != truth:
        cls = 'prime-rejected' if truth else 'composite-accepted'
        part.violation(f'C25:is_prime:{cls}', f'is_prime({x}) -> {st} {got}, truth {truth}', d)
    st, got = call(g.next_prime, x)
    if st != 'ok' or got != nxt:
        part.violation('C25:next_prime' + (':x<2' if x < 2 else ''), f'next_prime({x}) -> {st} {got}, expected {nxt}', d)
    st, got = call(g.prev_prime, x)
    if prv is None:
        if (st, got) != ('exc', 'ValueError'):
            part.violation('C25:prev_prime:x<3', f'prev_prime({x}) -> {st} {got}, expected ValueError', d)
    elif st != 'ok' or got != prv:
        part.violation('C25:prev_prime', f'prev_prime({x}) -> {st} {got}, expected {prv}', d)


def ck_invert(part, g, x, m):
    st, got = call(g.invert, x, m)
    d = dict(fn='invert', x=x, m=m)
    want = None if m == 0 else R.brute_inverse(x, m)
    part.outcomes.add(('invert', st, want is None))
    if want is None:
        if (st, got) != ('exc', 'ZeroDivisionError'):
            part.violation('C25:invert:no-inverse', f'invert({x},{m}) -> {st} {got}, expected ZeroDivisionError', d)
    elif st != 'ok':
        part.violation('C25:invert:spurious-error', f'invert({x},{m}) raised {got}, inverse {want} exists', d)
    elif got != want:
        cls = 'range' if (x * got - 1) % abs(m) == 0 else 'value'
        part.violation(f'C25:invert:{cls}', f'invert({x},{m}) -> {got}, expected {want} in [0,|m|)', d)
    return want is not None


def ck_gcdext(part, g, a, b):
    st, got = call(g.gcdext, a, b)
    d = dict(fn='gcdext', a=a, b=b)
    want = R.gmp_gcdext(a, b)
    if st != 'ok' or not (isinstance(got, tuple) and len(got) == 3):
        part.violation('C25:gcdext:raises', f'gcdext({a},{b}) -> {st} {got}', d)
        return
    gg, s, t = got
    if gg != want[0] or a * s + b * t != gg:
        part.violation('C25:gcdext:bezout', f'gcdext({a},{b}) -> {got}: not (gcd, s, t) with a*s+b*t = gcd = {want[0]}', d)
    elif tuple(got) != want:
        exceptional = a == 0 or b == 0 or abs(a) == abs(b) or abs(a) == 2 * gg or abs(b) == 2 * gg
        part.violation('C25:gcdext:gmp-normalisation:' + ('exceptional' if exceptional else 'normal'),
                       f'gcdext({a},{b}) -> {got}, GMP convention gives {want}', d)
    part.outcomes.add(('gcdext', R.sgn(s), R.sgn(t)))


def ref_powmod(x, y, m):
    """x^y mod m for m > 0 by repeated multiplication; None if y < 0 and x is not invertible."""
    if y < 0:
        x = R.brute_inverse(x, m)
        if x is None:
            return None
        y = -y
    acc = 1 % m
    for _ in range(y):
        acc = acc * x % m
    return acc


def ck_powmod(part, g, x, y, m):
    st, got = call(g.powmod, x, y, m)
    d = dict(fn='powmod', x=x, y=y, m=m)
    if m == 0:
        if st != 'exc':
            part.violation('C25:powmod:m=0', f'powmod({x},{y},0) -> {got}', d)
        return
    want = ref_powmod(x, y, abs(m))
    part.outcomes.add(('powmod', st, y < 0))
    if want is None:
        if st != 'exc' or got not in ('ValueError', 'ZeroDivisionError'):
            part.violation('C25:powmod:non-invertible', f'powmod({x},{y},{m}) -> {st} {got}, base has no inverse', d)
    elif st != 'ok' or (got - want) % abs(m) or (m > 0 and not 0 <= got < m):
        part.violation('C25:powmod:value' + (':negative-exponent' if y < 0 else ''),
                       f'powmod({x},{y},{m}) -> {st} {got}, expected {want}', d)


def ck_symbols(part, g, x, y, isprime_y):
    d = dict(fn='symbols', x=x, y=y)
    st, got = call(g.kronecker, x, y)
    want = R.kronecker_def(x, y)
    if (st, got) != ('ok', want):
        cls = 'y=0' if y == 0 else 'y<0' if y < 0 else 'y-even' if y % 2 == 0 else 'y-odd'
        part.violation(f'C25:kronecker:{cls}', f'kronecker({x},{y}) -> {st} {got}, definition gives {want}', d)
    st, got = call(g.jacobi, x, y)
    if y > 0 and y % 2:
        want = R.jacobi_def(x, y)
        part.outcomes.add(('jacobi', want))
        if (st, got) != ('ok', want):
            part.violation(f'C25:jacobi:value:x%8={x % 8}', f'jacobi({x},{y}) -> {st} {got}, definition gives {want}', d)
    elif (st, got) != ('exc', 'ValueError'):
        part.violation('C25:jacobi:invalid-y', f'jacobi({x},{y}) -> {st} {got}, expected ValueError', d)
    st, got = call(g.legendre, x, y)
    if y > 0 and y % 2:
        if isprime_y:
            want = R.legendre_def(x, y)
            if (st, got) != ('ok', want):
                part.violation('C25:legendre:value', f'legendre({x},{y}) -> {st} {got}, definition gives {want}', d)
    elif (st, got) != ('exc', 'ValueError'):
        part.violation('C25:legendre:invalid-y', f'legendre({x},{y}) -> {st} {got}, expected ValueError', d)


def ck_symbols_big(part, g, x, p):
    """Large numerator x, odd prime p: Euler's criterion as reference; jacobi = legendre = kronecker."""
    d = dict(fn='symbols_big', x=x, p=p)
    e = pow(x, (p - 1) // 2, p)
    want = -1 if e == p - 1 else e
    for name in ('legendre', 'jacobi', 'kronecker'):
        st, got = call(getattr(g, name), x, p)
        if (st, got) != ('ok', want):
            part.violation(f'C25:{name}:large-numerator', f'{name}({x},{p}) -> {st} {got}, Euler criterion gives {want}', d)
    # reciprocity side: small odd prime on top, large odd y = x|1 below (jacobi only needs y odd > 0)
    y = abs(x) | 1
    if y > 1 and gcd(y, p) == 1:
        # (p|y) = (y|p) * (-1)^((p-1)/2 * (y-1)/2)   (quadratic reciprocity, y odd positive, p odd prime)
        e = pow(y, (p - 1) // 2, p)
        yp = -1 if e == p - 1 else e
        want = yp * (-1 if (p % 4 == 3 and y % 4 == 3) else 1)
        for name in ('jacobi', 'kronecker'):
            st, got = call(getattr(g, name), p, y)
            if (st, got) != ('ok', want):
                part.violation(f'C25:{name}:large-denominator', f'{name}({p},{y}) -> {st} {got}, reciprocity gives {want}', d)


def ck_roots(part, g, x, maxn):
    d = dict(fn='roots', x=x, maxn=maxn)
    if x < 0:
        st, got = call(g.isqrt, x)
        if st == 'ok':
            part.violation('C25:isqrt:negative-x', f'isqrt({x}) -> {got}, expected an exception', d)
        st, got = call(g.is_square, x)
        part.note('is_square_negative_' + ('raises' if st == 'exc' else 'returns_False' if got is False else 'other'), 1)
        if st == 'ok' and got:
            part.violation('C25:is_square:negative-x', f'is_square({x}) -> {got}', d)
        for n in range(1, maxn + 1):
            st, got = call(g.iroot, x, n)
            # a negative x has no non-negative integer nth root and (for odd n) a negative one: anything but the
            # true root (or an exception, as in gmpy2) is a wrong answer
            if st == 'ok':
                y, b = got
                r, ex = R.iroot_def(-x, n)
                true_root = n % 2 == 1 and ex and (y, bool(b)) == (-r, True)
                if not true_root:
                    part.violation('C25:iroot:negative-x-no-error',
                                   f'iroot({x},{n}) -> {got}: neither an exception (gmpy2: ValueError) nor a root', d)
        return
    r, ex = R.iroot_def(x, 2)
    st, got = call(g.isqrt, x)
    if (st, got) != ('ok', r):
        part.violation('C25:isqrt:value', f'isqrt({x}) -> {st} {got}, expected {r}', d)
    st, got = call(g.is_square, x)
    part.outcomes.add(('is_square', ex))
    if st != 'ok' or bool(got) != ex:
        part.violation(f'C25:is_square:value:{"square" if ex else "nonsquare"}', f'is_square({x}) -> {st} {got}, expected {ex}', d)
    for n in range(1, maxn + 1):
        want = R.iroot_def(x, n)
        st, got = call(g.iroot, x, n)
        part.outcomes.add(('iroot', want[1]))
        if st != 'ok' or not (isinstance(got, tuple) and len(got) == 2) or got[0] != want[0] or bool(got[1]) != want[1]:
            cls = 'perfect-power' if want[1] else 'non-power'
            part.violation(f'C25:iroot:value:{cls}', f'iroot({x},{n}) -> {st} {got}, expected {want}', d)
    for n in (0, -1, -2):
        st, got = call(g.iroot, x, n)
        if st == 'ok' and x > 1:
            part.violation('C25:iroot:invalid-n', f'iroot({x},{n}) -> {got}, expected an exception', d)


def ck_fpp(part, g, seam, x, want):
    """want = (p, d) or None (not a prime power -> ValueError)."""
    seam.script = None
    st, got = call(g.factor_prime_power, x)
    d = dict(fn='fpp', x=x, want=list(want) if want else None)
    part.outcomes.add(('fpp', want[1] if want else 0))
    if want is None:
        if (st, got) != ('exc', 'ValueError'):
            cls = 'x<=1' if x <= 1 else 'small-factor' if any(x % p == 0 for p in (2,) + TRIAL) else 'large-factors'
            part.violation(f'C25:factor_prime_power:not-rejected:{cls}',
                           f'factor_prime_power({x}) -> {st} {got}, expected ValueError (not a prime power)', d)
    elif st != 'ok' or tuple(got) != tuple(want):
        cls = 'p<1024' if want[0] < 1024 else 'p>1024'
        part.violation(f'C25:factor_prime_power:value:{cls}:d={"1" if want[1] == 1 else "2^k" if want[1] & (want[1]-1) == 0 else "odd" if want[1] % 2 else "mixed"}',
                       f'factor_prime_power({x}) -> {st} {got}, expected {want}', d)


def ck_ratrec(part, g, x, y, N, D):
    """Oracle from the docstring: result (n, d) has n/d = x (mod y), |n| <= N, 0 < d <= D provided 2ND < y;
    failure (ValueError) only if no such pair exists / the bounds are not supported."""
    st, got = call(g.ratrec, x, y, N, D)
    d = dict(fn='ratrec', x=x, y=y, N=N, D=D)
    if y <= 0 or (N is not None and N < 0) or (D is not None and D <= 0) or \
            (N is not None and 2 * N * (1 if D is None else D) >= y):     # no D >= 1 with 2ND < y either
        part.outcomes.add(('ratrec', 'unsupported'))
        if st != 'exc':
            part.violation('C25:ratrec:unsupported-bounds-accepted', f'ratrec({x},{y},{N},{D}) -> {got}, expected an exception', d)
        return False
    if st == 'ok':
        part.outcomes.add(('ratrec', 'found'))
        n, dd = got
        ok = dd > 0 and gcd(dd, y) == 1 and (n - x * dd) % y == 0 and 2 * abs(n) * dd < y
        ok = ok and (N is None or abs(n) <= N) and (D is None or dd <= D)
        if not ok:
            part.violation('C25:ratrec:wrong-fraction', f'ratrec({x},{y},{N},{D}) -> {got}: not n/d = x mod y within the bounds', d)
        if ok and N is not None and D is not None:
            sols = R.ratrec_solutions(x, y, N, D)
            red = {(a // gcd(a, b), b // gcd(a, b)) for a, b in sols}
            if red != {(n, dd)}:
                part.violation('C25:ratrec:not-the-reduced-solution', f'ratrec({x},{y},{N},{D}) -> {got}, solutions {sorted(red)}', d)
        return True
    part.outcomes.add(('ratrec', 'none', got))
    # smallest box the documented defaults could mean (see module docstring of this check)
    if N is None and D is None:
        D0 = max(1, R.iroot_def((y - 1) // 2, 2)[0])
        box = (D0, D0) if 2 * D0 * D0 < y else (0, 1)
    elif D is None:
        box = (N, 1)
    elif N is None:
        box = (0, D)
    else:
        box = (N, D)
    sols = R.ratrec_solutions(x, y, *box)
    if sols:
        part.violation('C25:ratrec:solution-missed', f'ratrec({x},{y},{N},{D}) raised ValueError but {sols[0]} is a solution', d)
    return False


# =============================================================== job construction

def chunks(lo, hi, k):
    step = -(-(hi - lo) // k)
    return [(a, min(a + step, hi)) for a in range(lo, hi, step)]


def jobs(tier, seed):
    q = tier == 'quick'
    js = []
    # (1) every witness
    wl = 10000 if q else 40000
    spf = R.spf_table(wl)
    surv = [x for x in range(3000, wl) if spf[x] >= 59 and spf[x] != x]
    js += [dict(kind='witness_small', lo=a, hi=b) for a, b in chunks(0, 3000, 4)]
    k = 10 if q else 12
    # balance by cost ~ x: deal round robin
    js += [dict(kind='witness_surv', xs=surv[i::k]) for i in range(k)]
    # (2) sweep
    top = 200_000 if q else 2_000_000
    js += [dict(kind='sweep', lo=a, hi=b) for a, b in chunks(-20, top, 10)]
    # (3) large alphabet
    jm = 128 if q else 200
    js += [dict(kind='large', js=list(range(6, jm + 1))[i::6], dmax=16 if q else 40) for i in range(6)]
    js.append(dict(kind='hard'))
    # (4) arithmetic
    r = 60 if q else 100
    js += [dict(kind='arith', avals=list(range(-r, r + 1))[i::3], r=r) for i in range(3)]
    rs = 60 if q else 150
    js += [dict(kind='symbols', xs=list(range(-rs, rs + 1))[i::2], r=rs) for i in range(2)]
    js.append(dict(kind='symbols_big', jm=jm))
    # (5) roots
    rt = 10_000 if q else 100_000
    js += [dict(kind='roots', lo=a, hi=b) for a, b in chunks(-40, rt, 3)]
    js.append(dict(kind='roots_big', jm=200))
    # (6) factor_prime_power
    ft = 100_000 if q else 1_000_000
    js += [dict(kind='fpp', lo=a, hi=b) for a, b in chunks(-5, ft, 10)]
    js += [dict(kind='fpp_big', thorough=not q, idx=i, of=6) for i in range(6)]
    # (7) ratrec
    ry, rfull = (200, 64) if q else (200, 128)
    ys = list(range(-2, ry))
    js += [dict(kind='ratrec', ys=ys[i::5], full=rfull) for i in range(5)]
    for j in js:
        j['budget'] = 60 if q else 900            # CPU seconds per job before the watchdog reports a hang
    for kind in ('witness_small', 'witness_surv', 'sweep', 'large', 'fpp_big', 'ratrec'):
        next(j for j in js if j['kind'] == kind)['sampler'] = True      # fixed set of 6 written-out samples
    order = ['fpp_big', 'witness_surv', 'large', 'fpp', 'sweep']          # longest first (pool balance only)
    js.sort(key=lambda j: order.index(j['kind']) if j['kind'] in order else len(order))
    return js


# =============================================================== job bodies

def job_witness_small(part, g, seam, job):
    sv = R.sieve(3000)
    for x in range(job['lo'], job['hi']):
        truth = bool(sv[x])
        if x % 2 == 0 or x < 5:
            for a in (2, 3):
                ck_witness(part, g, seam, x, (a,), 1, truth)
                part.case(nontrivial=False)
            continue
        reaches = all(x % p for p in TRIAL)
        acc = 0
        for a in range(2, x - 1):
            acc += bool(ck_witness(part, g, seam, x, (a,), 1, truth))
        part.case(nontrivial=reaches, n=x - 3)
        part.outcomes.add(('w', truth, acc > 0))
        if reaches and len(part.samples) < 1:
            part.sample(dict(fn='is_prime', x=x, witnesses=f'all {x - 3} in [2,{x - 2}]', accepted=acc))
        if truth:
            ck_witness(part, g, seam, x, (2, 3), 0, truth)      # zero rounds: a prime is still not rejected
            part.case(nontrivial=False)


def job_witness_surv(part, g, seam, job):
    for x in job['xs']:
        liars, non = [], []
        for a in range(2, x - 1):
            got = ck_witness(part, g, seam, x, (a,), 1, False)
            (liars if got else non).append(a)
        part.case(n=x - 3)
        part.note('survivor_composites', 1)
        part.note('liars_seen', len(liars))
        part.outcomes.add(('liars', min(len(liars), 40)))
        if len(part.samples) < 1:
            part.sample(dict(fn='is_prime', x=x, rounds=1, accepted_witnesses=len(liars), first=liars[:6]))
        # (after the loop the accepted set equals the reference liar set, or a violation is recorded)
        liars = [a for a in range(2, x - 1) if R.strong_probable_prime(x, a)]
        non = [a for a in range(2, x - 1) if not R.strong_probable_prime(x, a)][:2]
        if liars and non:
            L0, L1, N0 = liars[0], liars[-1], non[0]
            for script in ((L0, L1), (L0, N0), (N0, L0), (L0, L1, L0), (L0, L1, N0), (L1, N0, L0), (L0,) * 5 + (N0,)):
                ck_witness(part, g, seam, x, script, len(script), False)
                part.case()


def job_sweep(part, g, seam, job):
    lo, hi = job['lo'], job['hi']
    top = hi + 400                      # prime gaps below 2*10^6 are < 150
    sv = R.sieve(max(top, 10))
    nxt = [0] * (top + 1)
    cur = None
    for i in range(top - 1, -1, -1):
        nxt[i] = cur                    # smallest prime > i
        if sv[i]:
            cur = i
    prv = None
    base = max(lo, 0)
    for i in range(base - 1, 1, -1):
        if sv[i]:
            prv = i
            break
    for x in range(lo, hi):
        if x < 0:
            ck_prime_fns(part, g, seam, x, False, 2, None)
        else:
            ck_prime_fns(part, g, seam, x, bool(sv[x]), nxt[x], prv)
            if sv[x]:
                prv = x
        part.case(nontrivial=x > 53 and x % 2 == 1, n=3)
        part.outcomes.add(('sweep', x >= 0 and bool(sv[x])))
    x = max(lo, 0) + 1000
    part.sample(dict(x=x, is_prime=bool(g.is_prime(x)), next_prime=g.next_prime(x), prev_prime=g.prev_prime(x), oracle='sieve'))


def job_large(part, g, seam, job):
    for j in job['js']:
        for dlt in range(-job['dmax'], job['dmax'] + 1):
            x = 2**j + dlt
            truth = bases_is_prime(x)
            if dlt == -1 and j <= 1300:
                known = j in R.MERSENNE_EXPONENTS
                if known != truth:
                    raise RuntimeError(f'reference disagrees with Mersenne table at 2^{j}-1')
            if j <= 24 and R.trial_is_prime(x) != truth:
                raise RuntimeError(f'reference Miller-Rabin disagrees with trial division at {x}')
            nx = x + 1
            while not bases_is_prime(nx):
                nx += 1
            pv = x - 1
            while not bases_is_prime(pv):
                pv -= 1
            ck_prime_fns(part, g, seam, x, truth, nx, pv)
            part.case(n=3)
            part.outcomes.add(('large', truth))
            if truth and len(part.samples) < 1:
                part.sample(dict(fn='is_prime', x=f'2^{j}{dlt:+d}', result=True))


def job_hard(part, g, seam, job):
    for x in HARD:
        if x in HARD_FACT:
            f = 1
            for p in HARD_FACT[x]:
                f *= p
            if f != x:
                raise RuntimeError('bad factor table')
        if bases_is_prime(x):
            raise RuntimeError(f'reference calls the composite {x} prime')
        nx = x + 1
        while not bases_is_prime(nx):
            nx += 1
        pv = x - 1
        while not bases_is_prime(pv):
            pv -= 1
        ck_prime_fns(part, g, seam, x, False, nx, pv)
        part.case(n=3)
        # every single fixed base, one round each
        if all(x % p for p in TRIAL) and x % 2:
            for a in BASES + (41 * 43, x - 2, x // 2):
                ck_witness(part, g, seam, x, (a,), 1, False)
                part.case()
    # n-th Mersenne primes: never rejected, for any of the bases, any number of rounds
    for j in R.MERSENNE_EXPONENTS:
        x = 2**j - 1
        if x > 53:
            for a in BASES + (x - 2, x // 3):
                ck_witness(part, g, seam, x, (a,), 1, True)
                part.case()
            ck_witness(part, g, seam, x, BASES, 13, True)
            part.case()


def job_arith(part, g, seam, job):
    r = job['r']
    rng = range(-r, r + 1)
    for a in job['avals']:
        for b in rng:
            nt = ck_invert(part, g, a, b)
            part.case(nontrivial=nt)
            ck_gcdext(part, g, a, b)
            part.case(nontrivial=a != 0 and b != 0)
    # powmod: bases a, exponents -6..8, all moduli |m| <= 40 (incl. 0 and negative)
    for a in job['avals']:
        if abs(a) > 45:
            continue
        for m in range(-40, 41):
            for y in range(-6, 9):
                ck_powmod(part, g, a, y, m)
                part.case(nontrivial=m != 0 and y != 0)
    if 0 in job['avals']:
        for mod in (1, 2, 97, 2**61 - 1, 2**64, 10**30 + 57):
            bs = [0, 1, 2, mod - 1, mod + 5, -3, 2**70 + 1]
            es = [0, 1, 2, 5, mod - 1, 2**65 + 3]
            d = dict(fn='powmod_lists', mod=mod)
            if g.powmod_base_list(bs, 65537, mod) != [pow(b, 65537, mod) for b in bs]:
                part.violation('C25:powmod_base_list', f'wrong list for modulus {mod}', d)
            if g.powmod_exp_list(3, es, mod) != [pow(3, e, mod) for e in es]:
                part.violation('C25:powmod_exp_list', f'wrong list for modulus {mod}', d)
            part.case(n=2)
            for b in bs:
                for e in (0, 1, 2, 3, 65537, -1, -2):
                    if e < 0 and gcd(b, mod) != 1:
                        continue
                    want = pow(pow(b, -1, mod), -e, mod) if e < 0 else pow(b, e, mod)
                    if e < 0 and mod > 1 and (want * pow(b, -e, mod)) % mod != 1:
                        raise RuntimeError('reference')
                    st, got = call(g.powmod, b, e, mod)
                    if (st, got) != ('ok', want):
                        part.violation('C25:powmod:value:large', f'powmod({b},{e},{mod}) -> {st} {got}, expected {want}',
                                       dict(fn='powmod', x=b, y=e, m=mod, big=True))
                    part.case()


def job_symbols(part, g, seam, job):
    r = job['r']
    sv = R.sieve(r + 1)
    for x in job['xs']:
        for y in range(-r, r + 1):
            ck_symbols(part, g, x, y, y > 0 and bool(sv[y]))
            part.case(nontrivial=y > 1 and y % 2 == 1, n=3)


def job_symbols_big(part, g, seam, job):
    ps = [3, 5, 7, 11, 13, 17, 19, 23, 29, 31, 37, 41, 43, 47, 53, 59, 61, 67, 71, 73, 79, 83, 89, 97, 101,
          8191, 65537, 2**31 - 1, 2**61 - 1]
    for j in range(3, job['jm'] + 1):
        for x in (2**j - 1, 2**j, 2**j + 1, -(2**j) + 3, 3**(j // 2) + 2, -(2**j + 1)):
            for p in ps:
                ck_symbols_big(part, g, x, p)
                part.case(n=5)


def job_roots(part, g, seam, job):
    for x in range(job['lo'], job['hi']):
        ck_roots(part, g, x, 9)
        part.case(nontrivial=x > 1, n=11 if x >= 0 else 11)


def job_roots_big(part, g, seam, job):
    xs = set()
    for j in range(1, job['jm'] + 1):
        xs.update((2**j - 1, 2**j, 2**j + 1))
    for r in (2, 3, 5, 7, 10, 15, 16, 17, 255, 256, 257, 1000, 65535, 65536, 65537, 2**32 - 1, 2**32, 2**32 + 1,
              10**9 + 7, 2**53 - 1, 2**53, 2**53 + 1, 2**64 - 1, 2**64, 2**64 + 1):
        for n in range(1, 10):
            if r.bit_length() * n <= 700:
                xs.update((r**n - 1, r**n, r**n + 1))
    for x in sorted(xs):
        ck_roots(part, g, x, 9)
        part.case(n=11)
    part.note('roots_boundary_values', len(xs))


def job_fpp(part, g, seam, job):
    lo, hi = job['lo'], job['hi']
    spf = R.spf_table(max(hi, 4))
    for x in range(lo, hi):
        want = None
        if x >= 2:
            p, y, dd = spf[x], x, 0
            while y % p == 0:
                y //= p
                dd += 1
            if y == 1:
                want = (p, dd)
        ck_fpp(part, g, seam, x, want)
        part.case(nontrivial=x > 1)


def fpp_primes():
    ps = [2, 3, 5, 29, 31, 37, 53, 59, 61]
    for c in (2**10, 2**16, 2**20, 2**32, 2**64):
        p = c
        for _ in range(3):
            p = R.prev_prime_det(p)
            ps.append(p)
        p = c
        for _ in range(3):
            p = R.next_prime_det(p)
            ps.append(p)
    return sorted(set(ps))


def job_fpp_big(part, g, seam, job):
    ps = fpp_primes()
    big = [p for p in ps if p > 1024]
    ds = list(range(1, 17)) + [18, 20, 21, 24, 25, 27, 32, 35, 49, 64]
    if job['thorough']:
        ds += [28, 30, 33, 36, 40, 45, 48, 50, 54, 63, 81]
    cnt = 0
    idx, of = job['idx'], job['of']
    for p in ps if idx == 0 else ():
        for d in ds:
            if p.bit_length() * d > 1400:
                continue
            ck_fpp(part, g, seam, p**d, (p, d))
            cnt += 1
            if p > 1024:       # neighbours of a big prime power that have a small factor or not: not prime powers
                for y in (p**d - 1, p**d + 1):     # even and > 2: a prime power iff a power of two (65537 - 1)
                    ck_fpp(part, g, seam, y, (2, y.bit_length() - 1) if y & (y - 1) == 0 else None)
                    cnt += 1
    # every prime on both sides of the trial-division bound 2^10, exponents 1..12 (consistency of that bound with
    # the root-extraction bound k*e <= bit_length), and products of neighbouring primes there
    small = [p for p in range(2, 1100 if not job['thorough'] else 2100) if R.trial_is_prime(p)]
    for i, p in enumerate(small):
        if i % of != idx:
            continue
        for d in range(1, 13 if job['thorough'] else 9):
            ck_fpp(part, g, seam, p**d, (p, d))
            cnt += 1
        if i + 1 < len(small) and p > 400:
            q = small[i + 1]
            for a, b in ((1, 1), (2, 1), (1, 2), (2, 2), (3, 3)):
                ck_fpp(part, g, seam, p**a * q**b, None)
                cnt += 1
    # products of two distinct primes (powers), every ordered combination of a window
    for i, p in enumerate(big if idx == 0 else ()):
        for q in big[i + 1:i + 4] + big[-2:]:
            if q == p:
                continue
            for a, b in ((1, 1), (2, 1), (1, 2), (2, 2), (3, 3), (2, 4), (3, 6), (5, 5), (4, 6)):
                ck_fpp(part, g, seam, p**a * q**b, None)
                cnt += 1
        for s in (2, 3, 31, 1021):            # small prime times big prime power
            for a, b in ((1, 1), (1, 2), (2, 3), (3, 1)):
                ck_fpp(part, g, seam, s**a * p**b, None)
                cnt += 1
    for x in (-7, -1, 0, 1) if idx == 0 else ():
        ck_fpp(part, g, seam, x, None)
        cnt += 1
    part.case(n=cnt)
    part.note('fpp_constructed_values', cnt)
    part.sample(dict(fn='factor_prime_power', x=f'{big[0]}^6', result=list(g.factor_prime_power(big[0]**6))))


def job_ratrec(part, g, seam, job):
    for y in job['ys']:
        xs = range(-y, 2 * y) if 0 < y < 40 else range(0, max(y, 0)) if y > 0 else (0, 1, 5)
        for x in xs:
            nt = ck_ratrec(part, g, x, y, None, None)
            part.case(nontrivial=nt)
        if y >= job['full']:
            continue
        for N in range(-1, max(y, 0) // 2 + 2):
            for D in range(-1, max(y, 0) // 2 + 2):
                if N >= 1 and D >= 1 and 2 * N * D >= y + 4:
                    continue                         # far outside 'supported'; the boundary 2ND in [y, y+3] is kept
                for x in (range(0, y) if y > 0 else (0, 1)):
                    nt = ck_ratrec(part, g, x, y, N, D)
                    part.case(nontrivial=nt)
            for x in (range(0, y) if y > 0 else (0, 1)):
                ck_ratrec(part, g, x, y, N, None)
                ck_ratrec(part, g, x, y, None, N)
                part.case(nontrivial=False, n=2)
    part.sample(dict(fn='ratrec', x=34, y=101, N=7, D=7, result=list(g.ratrec(34, 101, 7, 7)), solutions=R.ratrec_solutions(34, 101, 7, 7)))


JOBS = dict(witness_small=job_witness_small, witness_surv=job_witness_surv, sweep=job_sweep, large=job_large,
            hard=job_hard, arith=job_arith, symbols=job_symbols, symbols_big=job_symbols_big, roots=job_roots,
            roots_big=job_roots_big, fpp=job_fpp, fpp_big=job_fpp_big, ratrec=job_ratrec)


def run_job(job):
    g, seam = load()
    part = Part()
    watched(part, job.get('budget', 120), lambda: JOBS[job['kind']](part, g, seam, job))
    part.note('cases_' + job['kind'], part.evaluations)
    if not job.get('sampler'):
        part.samples = []
    return part


def coverage_extra(tier, seed, total):
    return {'samples': sorted(total.samples, key=repr)}        # independent of the order in which jobs finish


def replay(case):
    g, seam = load()
    part = Part()
    watched(part, 30, lambda: _replay(part, g, seam, case))
    return part


def _replay(part, g, seam, case):
    fn = case['fn']
    if fn == 'hang':
        seam.script = None
        call(getattr(g, case['name']), *case['args'])
    elif fn == 'witness':
        ck_witness(part, g, seam, case['x'], tuple(case['script']), case['n'], case['truth'])
    elif fn == 'prime_fns':
        x = case['x']
        nx = x + 1
        while not bases_is_prime(nx):
            nx += 1
        pv = x - 1
        while pv >= 2 and not bases_is_prime(pv):
            pv -= 1
        ck_prime_fns(part, g, seam, x, bases_is_prime(x), max(nx, 2), pv if pv >= 2 else None)
    elif fn == 'invert':
        ck_invert(part, g, case['x'], case['m'])
    elif fn == 'gcdext':
        ck_gcdext(part, g, case['a'], case['b'])
    elif fn == 'powmod':
        if case.get('big'):
            st, got = call(g.powmod, case['x'], case['y'], case['m'])
            want = pow(case['x'], case['y'], case['m'])
            if (st, got) != ('ok', want):
                part.violation('C25:powmod:value:large', f'powmod -> {st} {got}, expected {want}', case)
        else:
            ck_powmod(part, g, case['x'], case['y'], case['m'])
    elif fn == 'powmod_lists':
        mod = case['mod']
        if g.powmod_base_list([2, 3], 65537, mod) != [pow(2, 65537, mod), pow(3, 65537, mod)]:
            part.violation('C25:powmod_base_list', f'wrong list for modulus {mod}', case)
        if g.powmod_exp_list(3, [2, 5], mod) != [pow(3, 2, mod), pow(3, 5, mod)]:
            part.violation('C25:powmod_exp_list', f'wrong list for modulus {mod}', case)
    elif fn == 'symbols':
        ck_symbols(part, g, case['x'], case['y'], R.trial_is_prime(case['y']))
    elif fn == 'symbols_big':
        ck_symbols_big(part, g, case['x'], case['p'])
    elif fn == 'roots':
        ck_roots(part, g, case['x'], case['maxn'])
    elif fn == 'fpp':
        ck_fpp(part, g, seam, case['x'], tuple(case['want']) if case['want'] else None)
    elif fn == 'ratrec':
        ck_ratrec(part, g, case['x'], case['y'], case['N'], case['D'])
    return part
