"""C33 -- secure random functions stay in range and are exactly uniform.

All secret randomness of mpyc.random comes from runtime.random_bits (and runtime._random when n equals the order
of a secure field).  In the single-party --no-prss runtime every such bit is one secrets.randbits(1) draw (every
field element one secrets.randbelow(order) draw) through the scripted randomness seam, so the function under test
is a deterministic function of the sequence of these *outcome draws*.  The check explores the tree of outcome
draws depth-first on the real code (run with a forced prefix, read the bound of the next outcome draw from the
seam's log, branch over all its values), weights every leaf by the exact product of 1/bound (Fractions) and
carries the mass of the nodes below the depth cap as an explicit residual (rejection loops make the tree infinite).
  * at EVERY leaf (and every cut run): the documented shape / range (unit vector with exactly one 1, permutation,
    derangement without fixed point, sample without repeated positions, value on the range lattice, ...);
  * over the tree: for every outcome o of the documented support  p(o) <= target(o) <= p(o) + residual, where
    target is the documented probability (1/n, 1/n!, 1/!n, weights/total, ...); outcomes outside the support
    must not occur.
Protocol masks drawn by sub-protocols (comparisons in choices(), truncations, zero tests) are not outcome draws:
they are seeded, and the result does not depend on them (C01/C02).  Then m real parties at (3,1) and (5,2), PRSS
on and off, seeded / all-zero / all-max patterns: shape / range invariants and agreement between the parties.
"""

import sys
import math
import itertools
from fractions import Fraction

from mc.core import Part, stable_hash
from mc import exact

LEVEL = 'exploration'
FRESH_PROCESS_PER_JOB = True
K_SP = 30         # mpyc's default: the wrap-around event of the probabilistic truncation (probability ~2^-k per secure
                  # fixed-point multiplication of a negative number) is excluded; it is frequent at toy values of k
RULE = ('one case = one leaf of the outcome-draw tree of (function, secure type, parameters): a complete run of the real function '
        'with every random bit / field element it consumes fixed; trees are explored exhaustively up to a depth cap D of outcome '
        'draws, the unexplored mass is the residual of the distribution bounds; parameters: all ranges 0 <= start < stop <= 6 with '
        'steps +-1, +-2 (and n <= 8, negative starts), populations of size <= 4, k <= n, unit vectors n <= 6 (8), k-bit numbers '
        'k <= 4, SecFxp(8,4) for random/uniform; secure types SecInt(8), SecFxp(8,4), SecFld(7), SecFld(2^3); multi-party: one run '
        'per (function, type, parameters, configuration, mask pattern), shape and agreement only; non-trivial = at least one '
        'outcome draw or more than one party')
ASSUMPTIONS = [
    'outcome draws = secrets.randbits / secrets.randbelow calls made by runtime.random_bits / runtime._randoms when called directly '
    'from mpyc/random.py (identified by the call stack); all other draws are protocol masks whose values do not influence results',
    'single-party --no-prss runtime: one outcome draw per secret random bit (runtime.random_bits with t = 0 multiplies t+1 = 1 '
    'random sign); the multi-party generation of random bits is exercised in the virtual-world runs (shape only)',
    'documented distributions: "each function behaves like its Python counterpart": sample() is uniform over ordered selections; '
    'uniform(a, b) is uniform over the fixed-point lattice points of [a, b] with the end point b included or not (as in Python)',
    'secure fields: ranges must be representable (values taken modulo p; ranges inside 0..p-1); binary fields only with start = 0, '
    'step = 1 (field addition is not integer addition); choices() with weights needs secure comparisons: not for secure fields',
    'uniform(a, b) only for a, b that are exact fixed-point numbers (otherwise the end points are rounded)',
    'excluded event: runtime.trunc wraps around when its statistical mask is smaller than |x| >> f (probability about 2^-k); the '
    'checks run with the default k = 30 and seeded masks; fixed-point multi-party runs use seeded masks only (an all-zero mask '
    'forces that event)',
    'populations are chosen such that all pairwise differences fit the secure type (shuffle computes x[i] - x[j])',
    'random_derangement needs n >= 2 (no derangement of a single element exists: the documented loop cannot end)']
MANIFEST = dict(
    level='exploration',
    technique='exact enumeration of the tree of random-bit outcomes on the real code with probabilities as fractions and an explicit '
              'residual for the cut-off rejection loops; shape invariants at every leaf',
    text='randrange/randint (all ranges within 0..6, steps +-1/+-2, n<=8), choice, choices (uniform, weights, cum_weights, k<=2), sample '
         '(lists and ranges, all k), shuffle, random_permutation, random_derangement (n<=4), random_unit_vector (n<=6/8), getrandbits '
         '(k<=4, bits), random, uniform for SecInt(8), SecFxp(8,4), SecFld(7), SecFld(8): every reachable combination of secret random '
         'bits up to the depth cap is executed; every result has the documented shape/range and every outcome probability lies within '
         '[p, p + residual] of the documented uniform (or weighted) value; multi-party (3,1),(5,2), PRSS on/off: shape and agreement.',
    ref='DESIGN 5/C33', note='trusted: randomness seam and the call-stack classification of outcome draws; protocol masks are seeded')


# ------------------------------------------------------------------------------------------
# secure types and plain views
# ------------------------------------------------------------------------------------------

TTAGS = ('int', 'fxp', 'fld7', 'fld8')


def sectype(mpc, ttag):
    if ttag == 'int':
        return mpc.SecInt(8)
    if ttag == 'fxp':
        return mpc.SecFxp(8, 4)
    if ttag == 'fld7':
        return mpc.SecFld(7)
    return mpc.SecFld(8)


def norm(ttag, v):
    """The plain value a correct result v (an integer / lattice number) is opened as."""
    if ttag == 'fld7':
        return v % 7
    return v


def plain(ttag, x):
    if isinstance(x, (list, tuple)):
        return tuple(plain(ttag, a) for a in x)
    if ttag == 'fxp':
        x = float(x)
        return int(x) if x == int(x) else x
    return int(x)


# ------------------------------------------------------------------------------------------
# experiments: (function, type tag, parameters)
# ------------------------------------------------------------------------------------------

def derangements(items):
    return [p for p in itertools.permutations(items) if all(a != b for a, b in zip(p, items))]


def pop_values(ttag, n):
    return tuple({'int': [3, -5, 7, 11], 'fxp': [1.5, -2.25, 3, 0.5], 'fld7': [1, 3, 4, 6], 'fld8': [1, 2, 4, 7]}[ttag][:n])


class Exp:
    """One experiment.  call(R, mpc, T) -> secure result; support() -> {outcome: Fraction} (or list of alternatives);
    shape(outcome) -> None | (class, message); cls = input class for violation keys."""

    def __init__(self, fname, ttag, params):
        self.fname, self.ttag, self.params = fname, ttag, params
        getattr(self, '_' + fname)()

    # -- helpers
    def _rng_setup(self, rng, call):
        t = self.ttag
        vals = [norm(t, v) for v in rng]
        n = len(rng)
        self.support = lambda: {v: Fraction(1, n) for v in vals}
        p2 = n & (n - 1) == 0
        self.cls = 'n=1' if n == 1 else ('n=field-order' if (t, n) in (('fld7', 7), ('fld8', 8)) else 'n=2^k' if p2 else 'n!=2^k')
        self.call = call

        def shape(o):
            if not isinstance(o, (int, float)) or isinstance(o, tuple):
                return 'not-a-number', f'result {o!r}'
            if o in vals:
                return None
            lo, hi = min(rng), max(rng)
            if t in ('int', 'fxp') and o > hi:
                return 'above-range', f'{o!r} > {hi}'
            if t in ('int', 'fxp') and o < lo:
                return 'below-range', f'{o!r} < {lo}'
            return 'off-range', f'{o!r} not in {vals}'
        self.shape = shape

    def _randrange(self):
        p = self.params
        rng = range(*p)
        self._rng_setup(rng, lambda R, mpc, T: R.randrange(T, *p))

    def _randint(self):
        a, b = self.params
        self._rng_setup(range(a, b + 1), lambda R, mpc, T: R.randint(T, a, b))

    def _choice(self):
        seq, secret = self.params
        t = self.ttag
        n = len(seq)
        self.cls = ("n=2^k" if n & (n - 1) == 0 else "n!=2^k") + (':secret-elements' if secret else '')
        sup = {}
        for v in seq:
            sup[norm(t, v)] = sup.get(norm(t, v), 0) + Fraction(1, n)
        self.support = lambda: sup
        self.call = lambda R, mpc, T: R.choice(T, [T(v) for v in seq] if secret else list(seq))
        self.shape = lambda o: None if o in sup else ('not-an-element', f'{o!r} not in {seq}')

    def _choices(self):
        pop, weights, cum, k = self.params
        t = self.ttag
        n = len(pop)
        w = list(weights) if weights is not None else ([cum[0]] + [b - a for a, b in zip(cum, cum[1:])] if cum is not None else [1] * n)
        W = sum(w)
        g = math.gcd(*list(itertools.accumulate(w))) if W else 1
        self.cls = ('uniform' if weights is None and cum is None else 'weights' if cum is None else 'cum_weights') \
            + ((':n=1' if n == 1 else ':total=1') if (weights is not None or cum is not None) and W // g == 1 else '') \
            + (':k=0' if k == 0 else '')
        sup = {}
        for pos in itertools.product(range(n), repeat=k):
            pr = Fraction(1)
            for i in pos:
                pr *= Fraction(w[i], W)
            if pr:
                o = tuple(norm(t, pop[i]) for i in pos)
                sup[o] = sup.get(o, 0) + pr
        self.support = lambda: sup
        kw = {}
        if cum is not None:
            kw['cum_weights'] = list(cum)
        self.call = lambda R, mpc, T: R.choices(T, list(pop), list(weights) if weights is not None else None, k=k, **kw)

        def shape(o):
            if not isinstance(o, tuple) or len(o) != k:
                return 'wrong-length', f'{o!r}, k = {k}'
            if o not in sup:
                return ('zero-weight-element' if all(a in [norm(t, v) for v in pop] for a in o) else 'not-an-element'), f'{o!r}'
            return None
        self.shape = shape

    def _sample(self):
        pop, k = self.params
        t = self.ttag
        if pop[0] == 'range':
            items = list(range(*pop[1:]))
            arg = lambda T: range(*pop[1:])
            self.cls = 'range'
        else:
            items = list(pop[1])
            arg = (lambda T: [T(v) for v in items]) if pop[0] == 'secret' else (lambda T: list(items))
            self.cls = 'list'
        n = len(items)
        self.cls += f':k={"0" if k == 0 else "n" if k == n else "mid"}' + (':n=1' if n == 1 else '')
        sels = list(itertools.permutations(range(n), k))
        sup = {}
        for s in sels:
            o = tuple(norm(t, items[i]) for i in s)
            sup[o] = sup.get(o, 0) + Fraction(1, len(sels))
        self.support = lambda: sup
        self.call = lambda R, mpc, T: R.sample(T, arg(T), k)
        nitems = [norm(t, v) for v in items]

        def shape(o):
            if not isinstance(o, tuple) or len(o) != k:
                return 'wrong-length', f'{o!r}, k = {k}'
            if any(a not in nitems for a in o):
                return 'not-an-element', f'{o!r} from {items}'
            if len(set(o)) != k:
                return 'repeated-position', f'{o!r} from {items}'
            return None
        self.shape = shape

    def _perm_setup(self, items, call, derange=False):
        t = self.ttag
        rows = isinstance(items[0], tuple)
        nitems = [tuple(norm(t, a) for a in v) if rows else norm(t, v) for v in items]
        outs = derangements(nitems) if derange else list(itertools.permutations(nitems))
        self.support = lambda: {tuple(o): Fraction(1, len(outs)) for o in outs}
        self.call = call
        n = len(items)
        self.cls = f'n={n}'

        def shape(o):
            if not isinstance(o, tuple) or len(o) != n or sorted(map(repr, o)) != sorted(map(repr, nitems)):
                return 'not-a-permutation', f'{o!r} of {nitems}'
            if derange and any(a == b for a, b in zip(o, nitems)):
                return 'fixed-point', f'{o!r} of {nitems}'
            return None
        self.shape = shape

    def _shuffle(self):
        n, style = self.params
        t = self.ttag
        vals = pop_values(t, 4)[:n] if n <= 4 else tuple(range(1, n + 1))
        if style == 'rows':
            items = [(v, i) for i, v in enumerate(vals)]

            def call(R, mpc, T):
                x = [[a, b] for a, b in items]
                R.shuffle(T, x)
                return x
            self._perm_setup(items, call)
            self.flatten = 2
            self.cls += ':rows'
        else:
            def call(R, mpc, T):
                x = [T(v) for v in vals] if style == 'secret' else list(vals)
                R.shuffle(T, x)
                return x
            self._perm_setup(list(vals), call)
            self.cls += ':' + style

    def _random_permutation(self):
        arg = self.params[0]
        t = self.ttag
        if isinstance(arg, int):
            self._perm_setup(list(range(arg)), lambda R, mpc, T: R.random_permutation(T, arg))
            self.cls += ':int'
        else:
            self._perm_setup(list(arg), lambda R, mpc, T: R.random_permutation(T, list(arg)))
            self.cls += ':seq'

    def _random_derangement(self):
        arg = self.params[0]
        if isinstance(arg, int):
            self._perm_setup(list(range(arg)), lambda R, mpc, T: R.random_derangement(T, arg), derange=True)
            self.cls += ':int'
        else:
            self._perm_setup(list(arg), lambda R, mpc, T: R.random_derangement(T, list(arg)), derange=True)
            self.cls += ':seq'

    def _random_unit_vector(self):
        n = self.params[0]
        units = [tuple(int(i == j) for i in range(n)) for j in range(n)]
        self.support = lambda: {u: Fraction(1, n) for u in units}
        self.call = lambda R, mpc, T: R.random_unit_vector(T, n)
        self.cls = 'n=1' if n == 1 else 'n=2^k' if n & (n - 1) == 0 else 'n!=2^k'

        def shape(o):
            if not isinstance(o, tuple) or len(o) != n:
                return 'wrong-length', f'{o!r}, n = {n}'
            if any(a not in (0, 1) for a in o):
                return 'not-bits', f'{o!r}'
            if sum(o) != 1:
                return 'not-one-1', f'{o!r}'
            return None
        self.shape = shape

    def _getrandbits(self):
        k, bits = self.params
        self.cls = f'bits={bits}' + (':k=0' if k == 0 else '')
        if bits:
            outs = list(itertools.product((0, 1), repeat=k))
        else:
            outs = list(range(1 << k))
        self.support = lambda: {o: Fraction(1, len(outs)) for o in outs}
        self.call = lambda R, mpc, T: R.getrandbits(T, k, bits)
        self.shape = lambda o: None if o in outs else ('out-of-range', f'{o!r} for k = {k}')

    def _random(self):
        outs = [i / 16 if i else 0 for i in range(16)]
        self.cls = 'f=4'
        self.support = lambda: {o: Fraction(1, 16) for o in outs}
        self.call = lambda R, mpc, T: R.random(T)
        self.shape = lambda o: None if o in outs else (('out-of-range' if not 0 <= o < 1 else 'off-lattice'), f'{o!r}')

    def _uniform(self):
        a, b = self.params
        lo, hi = min(a, b), max(a, b)
        n = round(abs(a - b) * 16)
        s = 1 if b >= a else -1
        pts = [a + s * j / 16 for j in range(n + 1)]
        pts = [int(x) if x == int(x) else x for x in pts]
        self.cls = 'a==b' if a == b else 'n=1' if n == 1 else 'a<b' if a < b else 'a>b'
        # the end point b may or may not be included
        alts = [{o: Fraction(1, n + 1) for o in pts}]
        if n:
            alts.append({o: Fraction(1, n) for o in pts[:-1]})
        self.support = lambda: alts
        self.call = lambda R, mpc, T: R.uniform(T, a, b)

        def shape(o):
            if not isinstance(o, (int, float)):
                return 'not-a-number', f'{o!r}'
            if not lo <= o <= hi:
                return 'out-of-range', f'{o!r} not in [{lo}, {hi}]'
            if o not in pts:
                return 'off-lattice', f'{o!r}'
            return None
        self.shape = shape

    flatten = 0

    def key(self, what, cls2=''):
        # degenerate parameters (a single possible value) fail in the same way for every secure type: no type in the key
        degenerate = any(c in self.cls.split(':') for c in ('n=1', 'k=0', 'total=1')) and self.fname != 'random_unit_vector'
        return f'C33:{self.fname}:' + ('' if degenerate else f'{self.ttag}:') + f'{what}:{self.cls}' + (f':{cls2}' if cls2 else '')

    def describe(self):
        return f'{self.fname}({self.ttag}, {self.params!r})'


def experiments(tier):
    """-> list of (fname, ttag, params, depth cap)."""
    q = tier == 'quick'
    out = []

    def add(fname, ttag, params, dq, dt=None):
        out.append((fname, ttag, params, dq if q else (dt or dq)))
    for t in TTAGS:
        fld = t.startswith('fld')
        # ---- randrange / randint
        if t == 'fld8':
            ranges = [(n,) for n in range(1, 9)] + [(0, n, 1) for n in (3, 5, 8)]
        else:
            # quick tier: the full square of ranges for SecInt only, a cross-section (start 0 / 3, all stops) for the other types
            starts = range(0, 6) if not q or t == 'int' else (0, 3)
            ranges = [(a, b, s) for a in starts for b in range(a + 1, 7) for s in (1, 2)]
            ranges += [(b, a, -s) for a in starts for b in range(a + 1, 7) for s in (1, 2)]
            ranges += [(n,) for n in range(1, 9 if not fld else 8)] + [(1, 4)]
            if fld:
                ranges += [(0, 7, 1), (0, 7, 2), (6, -1, -1)]
            else:
                ranges += [(-3, 2, 1), (-6, 6, 3), (2, -6, -3), (-8, 8, 1), (0, 16, 5)]
        for r in ranges:
            add('randrange', t, r, 18, 26)
        if t != 'fld8':
            for a in range(-2 if not fld else 0, 4):
                for b in range(a, 4 if not fld else 6):
                    if not q or t == 'int' or a in (-2, 0):
                        add('randint', t, (a, b), 18, 26)
        else:
            add('randint', t, (0, 2), 18, 26)
            add('randint', t, (0, 7), 18, 26)
        # ---- unit vectors, bits
        for n in range(1, 7 if q else 9):
            add('random_unit_vector', t, (n,), 16, 24)
        for k in range(0, 5):
            for bits in (False, True):
                if bits or k <= {'fld7': 2, 'fld8': 3}.get(t, 4):       # a k-bit number must be representable in the field
                    add('getrandbits', t, (k, bits), 8)
        # ---- choice / choices
        for n in range(1, 5):
            add('choice', t, (pop_values(t, n), False), 16, 24)
            add('choice', t, (pop_values(t, n), True), 16, 24)
        add('choice', t, ((pop_values(t, 2) + pop_values(t, 1)), False), 16, 24)
        for n in range(1, 5):
            for k in (0, 1, 2):
                add('choices', t, (pop_values(t, n), None, None, k), 14, 20)
        if not fld:
            W = {1: [(1,), (3,)], 2: [(1, 1), (1, 2), (3, 1), (25, 75), (0, 1), (2, 0)], 3: [(1, 1, 1), (2, 1, 1), (1, 2, 3), (1, 0, 2)],
                 4: [(1, 1, 1, 1), (1, 2, 3, 2), (4, 1, 1, 1)]}
            C = {2: [(1, 3), (2, 4)], 3: [(2, 3, 6), (1, 1, 4)], 4: [(1, 2, 3, 5)]}
            for n in W:
                for w in W[n]:
                    for k in (1, 2):
                        if k == 2 and q and sum(w) > 6:
                            continue
                        add('choices', t, (pop_values(t, n), w, None, k), 10 if k == 2 else 12, 14 if k == 2 else 20)
            for n in C:
                for c in C[n]:
                    add('choices', t, (pop_values(t, n), None, c, 1), 12, 20)
        # ---- sample
        for n in range(1, 5):
            for k in range(0, n + 1):
                add('sample', t, (('public', pop_values(t, n)), k), 14, 20)
                if n == 3:
                    add('sample', t, (('secret', pop_values(t, n)), k), 14, 20)
                if t != 'fld8':
                    add('sample', t, (('range', n), k), 10, 16)
        if t != 'fld8':
            add('sample', t, (('range', 1, 6, 2), 2), 12, 16)
            add('sample', t, (('range', 5, 0, -1), 2), 10, 14)
        # ---- permutations
        for n in range(1, 5):
            for style in ('public', 'secret'):
                add('shuffle', t, (n, style), 12, 16)
            if n <= 3:
                add('shuffle', t, (n, 'rows'), 12, 16)
            if t != 'fld8' or n <= 4:
                add('random_permutation', t, (n,), 12, 16)
            add('random_permutation', t, (pop_values(t, n),), 12, 16)
        add('random_derangement', t, (2,), 14, 24)
        add('random_derangement', t, (3,), 12, 19)
        add('random_derangement', t, (4,), 9, 13)
        add('random_derangement', t, (pop_values(t, 3),), 9, 15)
        if not q:
            add('random_derangement', t, (pop_values(t, 4),), 9, 10)
    # ---- fixed point only
    add('random', 'fxp', (), 8)
    for ab in [(0, 1), (1, 2.5), (-1.5, 0.5), (2, 0.5), (0.25, -0.25), (0.5, 0.5), (0, 0.0625), (3, 3), (-2, -1.75)]:
        add('uniform', 'fxp', ab, 18, 24)
    return out


# ------------------------------------------------------------------------------------------
# outcome-draw classification and the tree enumerator
# ------------------------------------------------------------------------------------------

_RB_FRAMES = ('random_bits', '_randoms', '_random', 'random_bit', '<listcomp>', '<genexpr>')


def _is_outcome_draw():
    """True iff the current secrets.* call is made by runtime.random_bits / _randoms on behalf of mpyc/random.py."""
    f = sys._getframe(2)
    depth = 0
    seen_rb = False
    while f is not None and depth < 40:
        fn = f.f_code.co_filename
        name = f.f_code.co_name
        if fn.endswith('/mpyc/random.py'):
            return seen_rb
        if fn.endswith('/mpyc/runtime.py'):
            if name not in _RB_FRAMES:
                return False
            seen_rb = True
        elif not (fn.endswith('/mpyc/asyncoro.py') or fn.endswith('/mc/sp.py') or fn.endswith('/mc/props/C33.py')):
            return False
        f = f.f_back
        depth += 1
    return False


def install_classifier(seam):
    if getattr(seam, '_c33', False):
        return
    orig = seam._decide
    seam.marks = []

    def _decide(kind, n):
        v = orig(kind, n)
        seam.marks.append(_is_outcome_draw())
        return v
    seam._decide = _decide
    seam._c33 = True


class CpuTimeout(BaseException):
    """not an Exception: must not be swallowed by the code under test"""


class Deadline:
    """CPU-time budget for one experiment (a loop that never ends is a violation, not a hanging check)."""

    def __init__(self, seconds):
        self.seconds = seconds

    def _fire(self, *_):
        raise CpuTimeout()

    def __enter__(self):
        import signal
        self.old = signal.signal(signal.SIGPROF, self._fire)
        signal.setitimer(signal.ITIMER_PROF, self.seconds)

    def __exit__(self, *exc):
        import signal
        signal.setitimer(signal.ITIMER_PROF, 0)
        signal.signal(signal.SIGPROF, self.old)
        return False


class Tree:
    """Exact distribution of one experiment up to D outcome draws."""

    def __init__(self):
        self.p = {}               # outcome -> accumulated mass
        self.residual = Fraction(0)
        self.error_mass = Fraction(0)
        self.leaves = 0
        self.cuts = 0
        self.runs = 0
        self.max_depth = 0
        self.nondet = None


def enumerate_tree(run, D, on_run):
    """run(script) -> (outcome | ('raised', repr), draws = [(index, bound, value)] of the outcome draws)."""
    tree = Tree()
    stack = [[]]
    while stack:
        prefix = stack.pop()
        outcome, draws = run({i: v for i, b, v in prefix})
        tree.runs += 1
        if draws[:len(prefix)] != prefix:
            tree.nondet = (prefix, draws[:len(prefix) + 1])
            break
        mass = Fraction(1)
        for _, b, _ in draws[:D]:
            mass /= b
        failed = isinstance(outcome, tuple) and outcome and outcome[0] == 'raised'
        if failed:
            tree.error_mass += mass
        elif len(draws) <= D:
            tree.leaves += 1
            tree.p[outcome] = tree.p.get(outcome, 0) + mass
        else:
            tree.cuts += 1
            tree.residual += mass
        tree.max_depth = max(tree.max_depth, len(draws))
        on_run(outcome, draws, len(draws) <= D)
        for j in range(len(prefix), min(len(draws), D)):
            i, b, v = draws[j]
            for w in range(b):
                if w != v:
                    stack.append(draws[:j] + [(i, b, w)])
    return tree


def make_runner(mpc, seam, R, exp, seed):
    from mc import sp
    T = sectype(mpc, exp.ttag)

    def run(script):
        seam.begin('seeded', seed, script)
        del seam.marks[:]
        try:
            r = exp.call(R, mpc, T)
            if exp.flatten:
                r = [a for row in r for a in row]
            o = () if isinstance(r, list) and not r else plain(exp.ttag, sp.opened(mpc, r))
            if exp.flatten:
                o = tuple(tuple(o[i:i + exp.flatten]) for i in range(0, len(o), exp.flatten))
        except Exception as exc:
            o = ('raised', repr(exc)[:200])
        draws = [(i, n, v) for i, ((kind, n, v), mk) in enumerate(zip(seam.log, seam.marks)) if mk]
        return o, draws
    return run


def check_distribution(tree, support):
    """-> None, or (class, message) for the first alternative-independent failure."""
    alts = support if isinstance(support, list) else [support]
    fails = []
    for sup in alts:
        bad = None
        for o in sorted(set(sup) | set(tree.p), key=repr):
            p = tree.p.get(o, Fraction(0))
            tgt = sup.get(o, Fraction(0))
            if p > tgt:
                bad = ('overweight' if tgt else 'outside-support', f'outcome {o!r} has probability >= {p} (documented {tgt})')
                break
            if p + tree.residual + tree.error_mass < tgt:
                bad = ('missing-outcome' if not p else 'underweight',
                       f'outcome {o!r} has probability <= {p} + residual {tree.residual} < documented {tgt}')
                break
        if bad is None:
            return None
        fails.append(bad)
    return fails[0]


def run_tree_job(job):
    from mc import sp
    part = Part()
    mpc, seam = sp.setup(sec_param=K_SP, no_prss=True)
    install_classifier(seam)
    R = sys.modules['mpyc.random']
    stats = {}
    for fname, ttag, params, D in job['exps']:
        params = detuple(params)
        exp = Exp(fname, ttag, params)
        run = make_runner(mpc, seam, R, exp, job['seed'])
        detail = dict(engine='tree', exp=[fname, ttag, params, D], seed=job['seed'])

        flawed = []

        def on_run(outcome, draws, is_leaf, exp=exp, detail=detail, flawed=flawed):
            part.case(key=None, nontrivial=bool(draws))
            bits = ''.join(str(v) if b == 2 else f'[{v}/{b}]' for _, b, v in draws)
            if isinstance(outcome, tuple) and outcome and outcome[0] == 'raised':
                flawed.append(1)
                part.violation(exp.key('exception'), f'{exp.describe()} raised {outcome[1]} for random bits {bits or "-"}',
                               dict(detail, script={str(i): v for i, b, v in draws}))
                return
            bad = exp.shape(outcome)
            if bad is not None:
                flawed.append(1)
                part.violation(exp.key('shape', bad[0]), f'{exp.describe()} returned {bad[1]} for random bits {bits or "-"}',
                               dict(detail, script={str(i): v for i, b, v in draws}))
        budget = 150 if job.get('tier') != 'thorough' else 600
        try:
            with Deadline(budget):
                tree = enumerate_tree(run, D, on_run)
        except CpuTimeout:
            part.violation(exp.key('hangs'), f'{exp.describe()}: no end within {budget} s of CPU time (last random bits: '
                           f'{[v for _, _, v in seam.log[-12:]]})', detail)
            part.caps.append(f'CPU budget hit in {fname}')
            sp.setup(sec_param=K_SP, no_prss=True)
            continue
        if tree.nondet is not None:
            part.note('harness_errors', [f'{exp.describe()}: forced prefix {tree.nondet[0]} not reproduced: {tree.nondet[1]}'])
            continue
        bad = check_distribution(tree, exp.support()) if not flawed else None      # ill-shaped results are reported as such
        if bad is not None:
            part.violation(exp.key('distribution', bad[0]), f'{exp.describe()}: {bad[1]} [{tree.leaves} leaves, depth cap {D}]', detail)
        part.outcomes.add(stable_hash((fname, ttag, sorted(map(repr, tree.p)))) & 0xffffff)
        st = stats.setdefault(fname, dict(experiments=0, leaves=0, cut_runs=0, max_residual=Fraction(0), max_depth=0))
        st['experiments'] += 1
        st['leaves'] += tree.leaves
        st['cut_runs'] += tree.cuts
        st['max_residual'] = max(st['max_residual'], tree.residual)
        st['max_depth'] = max(st['max_depth'], tree.max_depth)
        if len(part.samples) < 1 and tree.cuts and fname in ('random_unit_vector', 'randrange'):
            part.sample(dict(experiment=exp.describe(), depth_cap=D, leaves=tree.leaves, residual=str(tree.residual),
                             distribution={repr(o): str(p) for o, p in sorted(tree.p.items(), key=repr)}))
    for fname, st in stats.items():
        part.note('tree_experiments', {fname: st['experiments']})
        part.note('tree_leaves', {fname: st['leaves']})
        part.note('tree_cut_runs', {fname: st['cut_runs']})
        part.note_max(f'max_residual_{fname}', float(st['max_residual']))
        part.note_max(f'max_depth_{fname}', st['max_depth'])
    return part


def detuple(x):
    if isinstance(x, list):
        return tuple(detuple(a) for a in x)
    if isinstance(x, tuple):
        return tuple(detuple(a) for a in x)
    return x


# ------------------------------------------------------------------------------------------
# multi-party: shape / range and agreement
# ------------------------------------------------------------------------------------------

def mp_experiments(tier):
    out = []
    for t in TTAGS:
        fld = t.startswith('fld')
        rr = [(5,), (1, 7, 2), (6, 0, -1)] if t != 'fld8' else [(5,), (0, 8, 1), (3,)]
        if t == 'fld7':
            rr.append((0, 7, 1))
        out += [('randrange', t, r) for r in rr]
        out += [('randint', t, (0, 2))]
        out += [('random_unit_vector', t, (n,)) for n in (1, 2, 3, 5, 6)]
        out += [('getrandbits', t, (3, False)), ('getrandbits', t, (2, True))]
        out += [('choice', t, (pop_values(t, 3), False)), ('choice', t, (pop_values(t, 4), True))]
        out += [('choices', t, (pop_values(t, 3), None, None, 2))]
        if not fld:
            out += [('choices', t, (pop_values(t, 3), (1, 2, 3), None, 2)), ('choices', t, (pop_values(t, 2), None, (1, 4), 1))]
        out += [('sample', t, (('public', pop_values(t, 4)), 2)), ('sample', t, (('secret', pop_values(t, 3)), 3))]
        if t != 'fld8':
            out += [('sample', t, (('range', 5), 3))]
        out += [('shuffle', t, (4, 'public')), ('shuffle', t, (3, 'secret')), ('shuffle', t, (3, 'rows'))]
        out += [('random_permutation', t, (4,)), ('random_derangement', t, (3,)), ('random_derangement', t, (pop_values(t, 4),))]
    if tier == 'quick':
        keep = ('random_unit_vector', 'randrange', 'choices', 'sample', 'shuffle', 'random_derangement')
        seen = set()
        slim = []
        for e in out:
            if e[1] in ('int', 'fld7') and e[0] != 'randint' and not (e[0] == 'random_unit_vector' and e[2][0] in (1, 2)):
                slim.append(e)
            elif e[0] in keep and (e[0], e[1]) not in seen:      # one experiment per function for fxp / fld8
                seen.add((e[0], e[1]))
                slim.append(e)
        out = slim
    out += [('random', 'fxp', ()), ('uniform', 'fxp', (1, 2.5)), ('uniform', 'fxp', (2, 0.5))]
    if tier == 'thorough':
        out += [('random_unit_vector', t, (n,)) for t in TTAGS for n in (4, 7, 8)]
        out += [('random_derangement', t, (n,)) for t in TTAGS for n in (2, 4)]
        out += [('randrange', t, (n,)) for t in TTAGS for n in (3, 6, 7)]
    return out


def build_mp(reps):
    def build(mpc):
        ops = {}
        for fname, ttag, params in EXPS_MP:
            exp = Exp(fname, ttag, params)
            name = f'{fname}:{ttag}:{params!r}'

            def fn(_rep, exp=exp):
                R = sys.modules['mpyc.random']
                r = exp.call(R, mpc, sectype(mpc, exp.ttag))
                if exp.flatten:
                    r = [a for row in r for a in row]
                return r

            def kind(got, want, exp=exp):
                o = plain(exp.ttag, got)
                if exp.flatten:
                    o = tuple(tuple(o[i:i + exp.flatten]) for i in range(0, len(o), exp.flatten))
                bad = exp.shape(o)
                return True if bad is None else f'{exp.cls}:{bad[0]}'
            ops[name] = exact.Op(1, fn, lambda v: 0, kind, make=lambda v: v, domain=list(range(reps)), mp_domain=list(range(reps)))
        return ops
    return build


EXPS_MP = []


def run_mp_job(job):
    global EXPS_MP
    EXPS_MP = [(f, t, detuple(p)) for f, t, p in job['exps']]
    if not getattr(exact, '_c33_horizon', False):       # a stuck execution must end soon (normal batches need < 10^5 steps)
        make = exact.make_world

        def make_world(*a, **k):
            w = make(*a, **k)
            w.HORIZON = 600_000
            return w
        exact.make_world = make_world
        exact._c33_horizon = True
    part = exact.run_mp('C33', job, build_mp(job['reps']), batch=job.get('batch', 12), patterns=tuple(job['patterns']))
    # keys of the generic engine name the operation (with its parameters): re-key by function / type / input class
    byname = {f'{f}:{t}:{p!r}': Exp(f, t, p) for f, t, p in EXPS_MP}
    merged = []
    for v in part.violations:
        for name, exp in byname.items():
            if v['key'].startswith(f'C33:{name}:'):
                suffix = v['key'][len(f'C33:{name}:'):]
                if suffix in ('exception', 'parties-differ'):
                    v['key'] = exp.key(suffix)
                elif suffix.startswith(exp.cls + ':'):
                    v['key'] = exp.key('shape', suffix[len(exp.cls) + 1:])
                break
        for w in merged:
            if w['key'] == v['key']:
                w['count'] += v['count']
                break
        else:
            merged.append(v)
    part.violations = merged
    part.note('mp_runs', part.evaluations)
    return part


# ------------------------------------------------------------------------------------------
# jobs
# ------------------------------------------------------------------------------------------

WEIGHT = {'random_derangement': 40, 'shuffle': 6, 'random_permutation': 6, 'sample': 4, 'choices': 6, 'randrange': 1, 'randint': 1,
          'choice': 2, 'random_unit_vector': 3, 'getrandbits': 1, 'random': 1, 'uniform': 2}


def jobs(tier, seed):
    out = []
    exps = experiments(tier)
    njobs = 10 if tier == 'quick' else 36
    bins = [[0, []] for _ in range(njobs)]
    for e in sorted(exps, key=lambda e: -WEIGHT[e[0]] * (3 if e[1] == 'fxp' else 1)):
        b = min(bins, key=lambda b: b[0])
        b[0] += WEIGHT[e[0]] * (3 if e[1] == 'fxp' else 1)
        b[1].append(e)
    for w, es in bins:
        if es:
            out.append(dict(engine='tree', exps=es, tier=tier, seed=seed))
    mpx = mp_experiments(tier)
    q = tier == 'quick'
    for (m, t) in ((3, 1), (5, 2)):
        for no_prss in (False, True):
            for fxp in (False, True):
                mine = [e for e in mpx if (e[1] == 'fxp') == fxp]
                parts = 1 if q else (2 if fxp else 4)
                for p in range(parts):
                    job = dict(engine='mp', m=m, t=t, no_prss=no_prss, part=0, parts=1, tier=tier, seed=seed, exps=mine[p::parts],
                               reps=1 if q else 3, patterns=('seeded',) if fxp else ('seeded', 'max') if q else ('seeded', 'zero', 'max'))
                    if fxp:
                        job['k'] = 30
                    out.append(job)
    out.sort(key=lambda j: -(j.get('m', 0)))
    return out


def run_job(job):
    if job['engine'] == 'tree':
        return run_tree_job(job)
    return run_mp_job(job)


def replay(case):
    if case.get('engine') == 'tree':
        return run_tree_job(dict(engine='tree', exps=[case['exp']], seed=case['seed']))
    return run_job(case['job'])
