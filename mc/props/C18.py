"""C18 -- values opened inside protocols are statistically masked.

Exact-distribution enumeration (E5): the real masked-opening protocols are run in the 1-party runtime
(--no-prss, so every mask, random bit and blinding factor is one `secrets` draw) for EVERY outcome of
EVERY draw; each leaf is weighted with the product of 1/bound, and the exact distribution of the
sequence of values opened inside the protocol is accumulated as Fractions, per secret input.  For two
secret inputs with the same public output the statistical distance of these views must be at most
4 * 2^-k (the masking promises about 2^-k).  Rejection loops make the tree infinite: it is cut at a
draw depth and the unexpanded mass is carried as an explicit error term.
"""

import itertools
from fractions import Fraction as Fr

from mc.core import Part, stable_hash

LEVEL = 'exploration'
FRESH_PROCESS_PER_JOB = True
RULE = ('one case = (protocol, bit length l, security parameter k, secret input); for each the complete tree of random draw outcomes '
        'is enumerated (leaves reported), giving the exact distribution of the opened values; every pair of inputs with equal public '
        'output is compared; non-trivial = the protocol opens at least one masked value')
ASSUMPTIONS = ['observer model: an adversary who sees every value opened inside the protocol but none of the honest randomness; decided in the 1-party runtime, '
               'where masks are drawn directly (the multi-party mask is a sum of such draws; shares received by a coalition are C13/C14)',
               'tiny parameters l in {1,2,3}, k in {3,4,5}: a missing, misplaced or >= 3 bits too short mask is caught with certainty, a one-bit shortfall is not ("about 2^-k")',
               'bound: statistical distance <= 4 * 2^-k + cut-off mass']
MANIFEST = dict(
    level='exploration',
    technique='exhaustive enumeration of all random outcomes of the real protocols with exact (Fraction) output distributions; statistical distance oracle',
    text='For sgn (full, LT, EQ), lsb, trunc, _mod, to_bits, trailing_zeros, conversions, is_zero_public, reciprocal at l<=3, k in {3,4(,5)}: the exact '
         'distribution of the values opened inside the protocol is computed for every secret input by enumerating every mask/bit/blinding outcome; '
         'inputs with equal outputs must have views within statistical distance 4*2^-k. Multi-party premise: on real (3,1), (4,1), (5,2) runs of the corpus (fresh PRSS common inputs; mask width = C(m,t) summands within 2 bits of the request) '
         'every PRSS evaluation of every party uses a fresh common input (masks, random bits and zero sharings are independent).',
    ref='DESIGN 5/C18, 7', note='trusted: randomness seam owns every draw; uniform draws; observer model (see assumptions)')

MAX_DRAWS = 24


def protocols(mpc, l, k):
    """name -> (make inputs list, fn(secure a) -> secure result(s) (never opened by us), public output fn(a) -> hashable)"""
    T = mpc.SecInt(l)
    lo, hi = -(1 << (l - 1)), (1 << (l - 1))
    allv = list(range(lo, hi))
    sgn = lambda x: (x > 0) - (x < 0)
    P = {}
    P['sgn'] = (T, allv, lambda a: mpc.sgn(a), lambda x: None)
    P['sgn_LT'] = (T, allv, lambda a: mpc.sgn(a, LT=True), lambda x: None)
    P['sgn_EQ'] = (T, allv, lambda a: mpc.sgn(a, EQ=True), lambda x: None)
    P['lsb'] = (T, allv, lambda a: mpc.lsb(a), lambda x: None)
    P['mod3'] = (T, allv, lambda a: mpc._mod(a, 3), lambda x: None)
    P['to_bits'] = (T, allv, lambda a: mpc.to_bits(a), lambda x: None)
    Tw = mpc.SecInt(l + 3)     # a wider type: asking for 1 bit of it must still mask all of a
    wide = [-(1 << (l + 2)), -1, 0, 1, (1 << (l + 2)) - 1]
    P['to_bits_l1'] = (Tw, wide, lambda a: mpc.to_bits(a, 1), lambda x: None)
    P['_is_zero'] = (T, allv, lambda a: mpc._is_zero(a), lambda x: None)      # [NO07] zero test: k opened values, each a*r + (+-)u^2
    P['trailing_zeros'] = (T, allv, lambda a: mpc.trailing_zeros(a), lambda x: None)
    P['is_zero_public'] = (T, allv, lambda a: mpc.is_zero_public(a), lambda x: x == 0)       # the result itself is public
    P['reciprocal'] = (T, [v for v in allv if v], lambda a: mpc.reciprocal(a), lambda x: None)
    T2 = mpc.SecInt(l + 2)
    P['convert_int'] = (T, allv, lambda a: mpc.convert(a, T2), lambda x: None)
    Tf = mpc.SecFxp(2 * l, l)
    fv = [i / (1 << l) for i in range(-(1 << (2 * l - 1)), 1 << (2 * l - 1))]
    # a fixed-point product carries l + f bits: its truncation mask must be widened by f as well (f = 3 here, so a mask that
    # forgets the f bits is 3 bits short)
    # (f = 4: a mask that forgets the f bits is 4 bits short, which is beyond the 4 * 2^-k tolerance at k = 4)
    Tf3 = mpc.SecFxp(8, 4)
    P['fxp_mul_f3'] = (Tf3, [0.0, 2.75, -1.5], lambda a: a * a, lambda x: None)
    if l <= 2:
        P['trunc'] = (Tf, fv, lambda a: mpc.trunc(a, f=1), lambda x: None)
        P['fxp_mul'] = (Tf, [v for v in fv if abs(v) < 1], lambda a: a * a, lambda x: None)
    return P


def enumerate_views(mpc, seam, opened, run, max_leaves):
    """Exact distribution of the tuple of opened values over all draw outcomes.  Returns (dist, residual, leaves)."""
    dist = {}
    residual = Fr(0)
    leaves = 0
    stack = [()]
    while stack:
        prefix = stack.pop()
        seam.begin('seeded', 12345, {i: v for i, v in enumerate(prefix)})
        del opened[:]
        run()
        draws = seam.log
        if len(draws) > len(prefix):
            if len(prefix) >= MAX_DRAWS:
                w = Fr(1)
                for (_, n, _) in draws[:len(prefix)]:
                    w /= n
                residual += w
                continue
            n = draws[len(prefix)][1]
            for v in range(n - 1, -1, -1):
                stack.append(prefix + (v,))
            continue
        w = Fr(1)
        for (_, n, _) in draws:
            w /= n
        view = tuple(opened)
        dist[view] = dist.get(view, 0) + w
        leaves += 1
        if leaves > max_leaves:
            raise OverflowError('too many leaves')
    return dist, residual, leaves


def jobs(tier, seed):
    out = []
    # l + 2 >= k keeps is_zero_public on its one-draw (large-field) blinding path; otherwise it draws pairs of field
    # elements in a retry loop and the outcome tree has |F|^2 branches per round
    params = [(2, 3), (2, 4)] if tier == 'quick' else [(2, 3), (2, 4), (3, 4), (3, 5)]
    names = ['sgn', 'sgn_LT', 'sgn_EQ', 'lsb', 'mod3', 'to_bits', 'to_bits_l1', 'trailing_zeros', 'is_zero_public', 'reciprocal', 'convert_int', 'trunc', 'fxp_mul']
    for (l, k) in params:
        for n in names:
            if n in ('trunc', 'fxp_mul') and l > 2:
                continue
            if n == 'mod3' and (tier == 'quick' or l > 2):
                continue
            out.append(dict(l=l, k=k, name=n, tier=tier, seed=seed))
    out.append(dict(l=2, k=4, name='fxp_mul_f3', tier=tier, seed=seed))
    if tier == 'thorough':
        out.append(dict(l=2, k=5, name='fxp_mul_f3', tier=tier, seed=seed))
    # the probabilistic zero test opens k blinded field elements: enumerable only at k = 1 (|F|^2 outcomes per round)
    out.append(dict(l=2, k=1, name='_is_zero', tier=tier, seed=seed))
    # multi-party premise of all of the above: every PRSS evaluation uses a fresh common input
    for (m, t) in ((3, 1), (4, 1), (5, 2)) if tier == 'quick' else ((2, 0), (3, 1), (4, 1), (5, 2), (7, 3)):
        out.append(dict(engine='prss_uci', m=m, t=t, tier=tier, seed=seed))
    if tier == 'thorough':
        out.append(dict(l=3, k=1, name='_is_zero', tier=tier, seed=seed))
    return out


UCI_PROGRAMS = ('randoms', 'zero_tests', 'convert', 'mul_cmp', 'fxp', 'small_field', 'linalg')


def run_prss_uci(job):
    """Masks, random bits and zero sharings generated by PRSS are independent only if every PRSS evaluation has its own common
    input (Runtime._prss_uci: "unique common input for PRSS").  All PRSS calls of every party are logged on real multi-party
    runs of the corpus programs; the one sanctioned reuse is _convert's pair of calls for the SAME random numbers in two fields."""
    from mc.world import World
    from mc.explorer import run_execution
    from mc.programs import PROGRAMS
    from mc.sched import make_setup
    part = Part()
    m, t = job['m'], job['t']
    world = World(m, t, False, seed=job['seed'])
    logs = [[] for _ in range(m)]
    names = ('pseudorandom_share', 'pseudorandom_share_zero', 'np_pseudorandom_share', 'np_pseudorandom_share_0')
    mlogs = [[] for _ in range(m)]
    for i, u in enumerate(world.universes):
        # mask width (multi-party): every bounded request to _randoms/_np_randoms is served by C(m,t) PRSS summands whose
        # bounds add up to at most the requested bound and to at least a quarter of it (power-of-two rounding loses < 2 bits)
        u.thresha._verif_mlogs = mlogs
        rtcls = type(u.mpc)
        for rn in ('_randoms', '_np_randoms'):
            orig_r = getattr(rtcls, rn, None)
            if orig_r is None or getattr(orig_r, '_verif_mask', False):
                continue

            def rwrapped(self, sftype, n, bound=None, _orig=orig_r, _th=u.thresha):
                if bound is not None:
                    _th._verif_mlogs[self.pid].append(('req', bound))
                return _orig(self, sftype, n, bound)
            rwrapped._verif_mask = True
            setattr(rtcls, rn, rwrapped)
        for fn in names:
            orig = getattr(u.thresha, fn, None)
            if orig is None or getattr(orig, '_verif_uci', False):
                continue

            def wrapped(field, m_, i_, prfs, uci, n, *a, _orig=orig, _fn=fn, _log=logs[i], _th=u.thresha, **kw):
                bound = None
                try:
                    bound = next(iter(prfs.values())).max if hasattr(next(iter(prfs.values())), 'max') else None
                except Exception:
                    pass
                _log.append((_fn, getattr(field, '__name__', str(field)), bytes(uci), n if isinstance(n, int) else tuple(n) if n is not None else None))
                if _fn in ('pseudorandom_share', 'np_pseudorandom_share'):
                    _th._verif_mlogs[i_].append(('prss', bound))
                return _orig(field, m_, i_, prfs, uci, n, *a, **kw)
            wrapped._verif_uci = True
            setattr(u.thresha, fn, wrapped)
    for name in UCI_PROGRAMS:
        prog = PROGRAMS[name]
        if m not in prog['ms'] and not (m in (4, 5, 7) and 3 in prog['ms'] and name != 'small_field'):
            continue
        ctxs = []
        for lg in logs + mlogs:
            del lg[:]
        x = run_execution(world, make_setup(prog, ctxs), (), 'eager', 'none', sched_alts=False)
        part.transitions += x.nsteps
        cfg = f'{name}/m{m}t{t}'
        for p in range(m):
            seen = {}
            for idx, (fn, fld, uci, n) in enumerate(logs[p]):
                part.case(key=None, nontrivial=True)
                if uci in seen:
                    pfn, pfld, pn, pidx = seen[uci]
                    sanctioned = fn == pfn == 'pseudorandom_share' and pn == n and pidx == idx - 1   # _convert: the same numbers in source and target field
                    if not sanctioned:
                        part.violation('C18:prss:common-input-reused',
                                       f'[{cfg}] party {p}: {fn}({fld}, n={n}) uses the same PRSS common input as the earlier '
                                       f'{pfn}({pfld}, n={pn}): the two pseudorandom sharings are not independent',
                                       dict(engine='prss_uci', m=m, t=t, tier=job['tier'], seed=job['seed']))
                seen[uci] = (fn, fld, n, idx)
            import math
            d = math.comb(m, t)
            for idx, ent in enumerate(mlogs[p]):
                if ent[0] != 'req':
                    continue
                part.case(key=None, nontrivial=True)
                nxt = mlogs[p][idx + 1] if idx + 1 < len(mlogs[p]) else None
                if nxt is None or nxt[0] != 'prss' or nxt[1] is None:
                    part.violation('C18:mask-width:no-prss-call', f'[{cfg}] party {p}: bounded random request ({ent[1]}) not followed by its PRSS '
                                   f'evaluation (got {nxt})', dict(engine='prss_uci', m=m, t=t, tier=job['tier'], seed=job['seed']))
                elif d * nxt[1] > ent[1] or (ent[1] >= 4 * d and 4 * d * nxt[1] < ent[1]):
                    part.violation('C18:mask-width', f'[{cfg}] party {p}: mask requested with bound 2^{ent[1].bit_length() - 1} is the sum of '
                                   f'{d} PRSS summands of bound {nxt[1]} each: total {d * nxt[1]} is '
                                   + ('larger than requested (overflow)' if d * nxt[1] > ent[1] else 'more than 2 bits short of the requested width'),
                                   dict(engine='prss_uci', m=m, t=t, tier=job['tier'], seed=job['seed']))
            part.outcomes.add(stable_hash((name, p, len(logs[p]), len(mlogs[p]))) & 0xffffff)
        if x.status != 'done':
            part.caps.append(f'{cfg}: run ended {x.status}')
    return part


def run_job(job):
    if job.get('engine') == 'prss_uci':
        return run_prss_uci(job)
    from mc import sp
    part = Part()
    l, k, name = job['l'], job['k'], job['name']
    mpc, seam = sp.setup(sec_param=k, no_prss=True)
    seam.sec_param = None          # the blinding factor is enumerated too (r = 0 has mass 1/p like any other value)
    from mpyc import thresha
    opened = []
    orig = thresha.recombine

    def recombine(field, points, x_rs=0):
        r = orig(field, points, x_rs)
        opened.append(tuple(int(getattr(a, 'value', a)) for a in r))
        return r
    thresha.recombine = recombine
    try:
        T, inputs, fn, pub = protocols(mpc, l, k)[name]
        dists = {}
        total_leaves = 0
        worst_res = Fr(0)
        for x in inputs:
            def run(x=x):
                # fixed-point inputs all carry integral=False: the mark is public and changes which sub-protocols run
                fn(T(x, integral=False) if getattr(T, 'frac_length', 0) else T(x))
            try:
                dist, residual, leaves = enumerate_views(mpc, seam, opened, run, 250000 if job['tier'] == 'quick' else 3000000)
            except OverflowError:
                part.caps.append(f'{name} l={l} k={k}: more than the leaf budget; skipped')
                return part
            dists[x] = (dist, residual)
            total_leaves += leaves
            worst_res = max(worst_res, residual)
            part.case(key=None, nontrivial=any(len(v) > 0 for v in dist))
        part.note('leaves', total_leaves)
        part.transitions += total_leaves
        # group inputs by public output; the secure result is never opened, so without a public result all inputs compare
        bound = Fr(4, 1 << k)
        if name == '_is_zero':
            bound = Fr(8, T.field.order)      # blinded by a uniform field element: essentially perfect
        for x, y in itertools.combinations(inputs, 2):
            if pub(x) != pub(y):
                continue
            dx, rx = dists[x]
            dy, ry = dists[y]
            sd = sum(abs(dx.get(v, 0) - dy.get(v, 0)) for v in set(dx) | set(dy)) / 2
            part.outcomes.add(stable_hash((name, str(sd))) & 0xffffff)
            part.note_max('max_statistical_distance_x1e6', int(sd * 1000000))
            if sd > bound + rx + ry:
                part.violation(f'C18:{name}', f'{name} (l={l}, k={k}): views for secret inputs {x} and {y} are at statistical distance '
                               f'{float(sd):.4f} > 4*2^-k = {float(bound):.4f} (+ cut-off {float(rx + ry):.4f})',
                               dict(job))
        if len(part.samples) < 1:
            x = inputs[0]
            top = sorted(dists[x][0].items(), key=lambda kv: -kv[1])[:3]
            part.sample(dict(protocol=name, l=l, k=k, input=x, leaves=total_leaves, distinct_views=len(dists[x][0]),
                             most_likely_views=[(list(map(list, v)), str(p)) for v, p in top], cut_off_mass=str(worst_res)))
    finally:
        thresha.recombine = orig
    return part


def replay(case):
    return run_job(case)
