"""C22 -- field elements survive serialisation.

Bounded-exhaustive enumeration on the real mpyc.finfields classes of

* to_bytes / from_bytes: every list of length <= 3 (thorough: <= 4 for q <= 16) over ALL elements of the
  small fields GF(q), q <= 27 (thorough q <= 64), and over a byte-boundary alphabet
  {0,1,2,127,128,255,256,257,...,2^(8k)-1,2^(8k),2^(8k)+1,q//2,q-257..q-255,q-2,q-1} for fields whose order
  sits just below / at / just above a byte boundary (251, 257, 65521, 65537, 2^61-1, 2^64-59, 2^64+13, GF(2^7),
  GF(2^8), GF(2^15), GF(2^16), GF(3^5), GF(3^6), GF(251^2), GF(257^2), GF(101^2); thorough: 24/31/32/127/128-bit primes,
  GF(2^24), GF(2^64)), the empty list, and long periodic lists (4..1000 entries); lists are given both as
  integers and, for extension fields, as the polynomial values of elements (what the runtime passes);
* pickle: every element of the small fields / of the boundary alphabets of the large ones, every pickle
  protocol 0..5: the copy has the same field class, equals the original, is reduced; plus a cross-process
  round trip (fresh interpreter re-creates the field from the pickle) for a few elements per field;
* integer views: int(), signed_(), unsigned_() for every such element with is_signed True and False
  (prime fields), int() for extension fields.

Oracle (independent of the code): decoded list == original integer codes; pickled copy has the original's
code; the signed view is the representative congruent mod p of least absolute value (|v| <= p//2), the
unsigned view is the residue in range(p), int() follows is_signed, and every view maps back to the element;
for extension fields int() is the base-p code sum(c_i p^i) in range(q).
"""

import itertools
import json
import os
import pickle
import subprocess
import sys

from mc.core import Part
from mc.ref import fields as rf

LEVEL = 'exploration'
RULE = ('one case = (field, list of element codes) for the byte encoding (all lists up to the length bound over '
        'the field or its byte-boundary alphabet; both integer and polynomial-value form), (field, element, pickle '
        'protocol), (field, element, is_signed) for the integer views; every combination once; non-trivial = '
        'the list / element contains something other than 0 and 1')
ASSUMPTIONS = ['Python ints, the pickle module and mc/ref/fields.py (code <-> coefficient view) are correct',
               'to_bytes is given reduced values (ints in range(order) or polynomial values of elements), as its '
               'docstring and the runtime do',
               'cross-process unpickling: the receiving interpreter has created the polynomial type gfpx.GFpX(p) '
               '(as every MPyC party does when it builds the same secure types); the field class itself is '
               're-created by unpickling',
               'numpy arrays are not exercised: numpy is absent from /venv']

MANIFEST = dict(
    level='exploration',
    technique='bounded-exhaustive round-trip enumeration (byte encoding, pickle incl. a fresh-interpreter round trip, '
              'integer views) against the reference code/coefficient view',
    text='All lists of length <= 3 over every element of GF(q), q <= 27 (thorough <= 64; length 4 for q <= 16) and over '
         'byte-boundary alphabets of 16 (thorough 27) fields with order just below/at/above 2^8, 2^16, 2^24, 2^32, 2^64, '
         '2^128 (prime, binary, odd extension), empty and long lists: from_bytes(to_bytes(x)) == x. Every element '
         '(small fields) / boundary alphabet (large fields) x pickle protocols 0-5: same class, equal, reduced, and '
         'a fresh-interpreter round trip reproduces modulus and value. Signed/unsigned views for is_signed in '
         '{True, False}: congruent mod p, |signed| <= p//2, 0 <= unsigned < p, midpoints (p-1)/2, (p+1)/2 included.',
    ref='DESIGN 5/C22',
    note='trusted: pickle, Python ints, mc/ref/fields.py; large fields on boundary alphabets only; the byte layout '
         'itself (width, endianness) is not prescribed by the property and not judged')

PROTOCOLS = [None] + list(range(pickle.HIGHEST_PROTOCOL + 1))
AES = [1, 1, 0, 1, 1, 0, 0, 0, 1]
GF2_16 = [1, 1, 0, 1] + [0] * 8 + [1, 0, 0, 0, 1]
GF2_64 = [1, 1, 0, 1, 1] + [0] * 59 + [1]


# well-known irreducible binary polynomials x^d + (low terms); mpyc re-checks irreducibility itself
BINARY_LOW_TERMS = {7: [1, 0], 9: [4, 0], 15: [1, 0], 23: [5, 0], 24: [4, 3, 1, 0], 31: [3, 0], 32: [7, 3, 2, 0]}


def binary_modulus(d):
    c = [0] * (d + 1)
    for i in BINARY_LOW_TERMS[d] + [d]:
        c[i] = 1
    return c


def near_primes(n):
    lo = n - 1
    while not rf.is_prime(lo):
        lo -= 1
    hi = n + 1
    while not rf.is_prime(hi):
        hi += 1
    return lo, hi


def field_specs(tier):
    thorough = tier == 'thorough'
    out = []
    for p, d in [(2, 1), (3, 1), (2, 2), (5, 1), (7, 1), (2, 3), (3, 2), (11, 1), (13, 1), (2, 4), (5, 2), (3, 3)] + \
            ([(17, 1), (19, 1), (23, 1), (29, 1), (31, 1), (2, 5), (37, 1), (7, 2), (53, 1), (61, 1), (2, 6)] if thorough else []):
        if d == 1:
            out.append((dict(p=p, mod=None), 'full'))
        else:
            out.append((dict(p=p, mod=rf.first_irreducible(p, d)), 'full'))
            if p**d <= 27:
                out.append((dict(p=p, mod=[(p - 1) * c % p for c in rf.monic_irreducibles(p, d)[-1]]), 'full'))
    for p, m in [(2, [0, 1]), (2, [1, 1]), (3, [1, 1]), (7, [3, 2])]:
        out.append((dict(p=p, mod=m), 'full'))
    out.append((dict(p=7, mod=None, nw=(3, 2)), 'full'))
    out.append((dict(p=11, mod=None, nw=(5, 3)), 'full'))        # 3 has order 5 mod 11
    bounds = [8, 16, 64] + ([24, 32, 128] if thorough else [])
    primes = [101, 2**61 - 1]
    for b in bounds:
        primes += near_primes(2**b)
    if thorough:
        primes += [127, 131, 2**31 - 1, 2**127 - 1, 2**63 - 25, 2**65 - 49]
    for p in sorted(set(primes)):
        out.append((dict(p=p, mod=None), 'alpha'))
    ext = [(2, 7), (2, 15), (3, 5), (3, 6), (251, 2), (257, 2), (101, 2)]
    if thorough:
        ext += [(2, 9), (2, 23), (2, 24), (2, 31), (2, 32), (5, 3), (5, 4), (7, 3), (13, 2), (17, 2), (3, 10), (3, 11), (65537, 2)]
    for p, d in ext:
        mod = binary_modulus(d) if p == 2 else rf.first_irreducible(p, d)
        out.append((dict(p=p, mod=mod), 'alpha'))
    out.append((dict(p=2, mod=AES), 'alpha'))
    out.append((dict(p=2, mod=GF2_16), 'alpha'))
    if thorough:
        out.append((dict(p=2, mod=GF2_64), 'alpha'))
    return out


def byte_alphabet(q):
    s = {0, 1, 2, q // 2, q // 2 + 1, q - 1, q - 2, q - 255, q - 256, q - 257, 127, 128}
    k = 8
    while 2**k - 1 < q:
        s.update((2**k - 1, 2**k, 2**k + 1, 2**k - 2**(k - 8)))
        k += 8
    return sorted(v for v in s if 0 <= v < q)


def element_domain(R, mode):
    if mode == 'full':
        return list(range(R.q))
    return sorted(set(rf.alphabet(R)) | set(byte_alphabet(R.q)))


def list_alphabet(R, mode):
    return list(range(R.q)) if mode == 'full' else byte_alphabet(R.q)


def max_len(R, mode, tier):
    return 4 if mode == 'full' and tier == 'thorough' and R.q <= 16 else 3


def lists_from(alpha, first, maxlen):
    """All lists over alpha of length 1..maxlen whose first entry is `first`."""
    for n in range(maxlen):
        for tail in itertools.product(alpha, repeat=n):
            yield [first, *tail]


def long_lists(alpha):
    m = len(alpha)
    for n in (4, 5, 16, 17, 100, 1000):
        yield [alpha[(i * 7 + i // m) % m] for i in range(n)]
    yield [alpha[-1]] * 33
    yield [0] * 9


# -- single checks (used by the enumeration and by replay) --------------------------------------

def check_bytes(A, codes, form):
    """from_bytes(to_bytes(x)) == x.  form 'int': x is the list of integer codes; 'poly': the polynomial values."""
    F = A.F
    try:
        x = list(codes) if form == 'int' else [A.make(c).value for c in codes]
        data = F.to_bytes(x)
        back = F.from_bytes(data)
    except Exception as exc:
        return False, f'raised {type(exc).__name__}: {exc}'
    ok = isinstance(back, list) and len(back) == len(codes) and \
        all(isinstance(v, int) and v == c for v, c in zip(back, codes))
    return ok, f'{len(data)} bytes decoded to {back if len(back) <= 6 else str(back[:6]) + "..."}'


def check_pickle(A, a, proto):
    x = A.make(a)
    try:
        y = pickle.loads(pickle.dumps(x) if proto is None else pickle.dumps(x, proto))
    except Exception as exc:
        return False, f'raised {type(exc).__name__}: {exc}'
    if type(y) is not A.F:
        return False, f'copy has type {type(y)!r}, not the original field class'
    c = A.code(y)
    try:
        eq = (y == x) is True and (x == y) is True
    except Exception as exc:
        return False, f'== raised {type(exc).__name__}'
    return c == a and eq, f'copy {y!r} (code {c}), copy == original: {eq}'


def view_expectations(A, a, signed):
    """(name, predicate, description) for the integer views of element code a."""
    p = A.p
    half = p // 2
    out = []
    if A.kind == 'prime':
        out.append(('unsigned_view', lambda x: x.unsigned_(), lambda v: v == a, f'{a}'))
        out.append(('signed_view', lambda x: x.signed_(), lambda v: (v - a) % p == 0 and -half <= v <= half,
                    f'the representative of {a} mod {p} with |v| <= {half}'))
        if signed:
            out.append(('int_view:signed', int, lambda v: (v - a) % p == 0 and -half <= v <= half,
                        f'the representative of {a} mod {p} with |v| <= {half}'))
        else:
            out.append(('int_view:unsigned', int, lambda v: v == a, f'{a}'))
    else:
        out.append(('int_view', int, lambda v: v == a, f'{a}'))
    return out


def check_views(A, a, signed):
    """Returns list of (name, ok, observed, expected)."""
    F = A.F
    res = []
    saved = F.__dict__.get('is_signed', None)
    had = 'is_signed' in F.__dict__
    try:
        if A.kind == 'prime':
            F.is_signed = signed
        for name, view, good, exp in view_expectations(A, a, signed):
            try:
                v = view(A.make(a))
                ok = isinstance(v, int) and not isinstance(v, bool) and good(v)
                if ok:       # consistent representative: maps back to the same element
                    ok = A.code(F(v)) == a
                obs = repr(v)
            except Exception as exc:
                ok, obs = False, f'raised {type(exc).__name__}: {exc}'
            res.append((name, ok, obs, exp))
    finally:
        if A.kind == 'prime':
            if had:
                F.is_signed = saved
            else:
                del F.is_signed
    return res


def view_class(A, a):
    if A.kind != 'prime':
        return ''
    p = A.p
    return ':p2' if p == 2 else ':low' if a <= p // 2 else ':high'


XPROC = r'''
import sys, json, pickle
sys.argv = ['xproc', '--no-log']
from mpyc import gfpx
out = []
for item in json.load(sys.stdin):
    if item['poly_p']:
        gfpx.GFpX(item['poly_p'])
    res = []
    for hx in item['pickles']:
        try:
            e = pickle.loads(bytes.fromhex(hx))
            F = type(e)
            m = F.modulus
            if not isinstance(m, int):
                m = m.value
            v = e.value
            if not isinstance(v, int):
                v = v.value
            res.append(dict(order=F.order, char=F.characteristic, deg=F.ext_deg, mod=m, value=v,
                            again=pickle.dumps(pickle.loads(pickle.dumps(e))).hex() == pickle.dumps(e).hex(),
                            same_class=type(pickle.loads(bytes.fromhex(hx))) is F))
        except Exception as exc:
            res.append(dict(error=type(exc).__name__ + ': ' + str(exc)))
    out.append(res)
print('XPROC' + json.dumps(out))
'''


def xproc_roundtrip(requests):
    """requests: list of dict(poly_p, pickles=[hex]); returns list of lists of result dicts."""
    proc = subprocess.run([sys.executable, '-B', '-c', XPROC], input=json.dumps(requests), capture_output=True,
                          text=True, timeout=120, env=dict(os.environ))
    for line in proc.stdout.splitlines():
        if line.startswith('XPROC'):
            return json.loads(line[5:])
    raise RuntimeError(f'cross-process helper failed: {proc.stderr[-500:]}')


def raw_view(A, a):
    """What the fresh interpreter should report as (modulus, value) raw views."""
    if A.kind == 'prime':
        return A.p, a
    if A.kind == 'binary':
        return rf.undigits(A.ref.modulus, 2), a
    return list(A.ref.modulus), rf.digits(a, A.p)


# -- enumeration ------------------------------------------------------------------------------

def run_unit(part, unit, xreq):
    spec, mode, tier = unit['spec'], unit['mode'], unit['tier']
    A = rf.guarded_adapter(part, 'C22', spec, dict(spec=spec, check='bytes', codes=[], form='int'))
    if A is None:
        part.caps.append('a unit was abandoned: field construction failed (see violation)')
        return
    F = A.F
    R = A.ref
    name = rf.field_name(spec)
    alpha = list_alphabet(R, mode)
    forms = ['int'] if A.kind == 'prime' else ['int', 'poly']
    mlen = max_len(R, mode, tier)
    sampled = False

    def do_list(codes):
        nonlocal sampled
        for form in forms:
            ok, obs = rf.limited(lambda: check_bytes(A, codes, form))
            part.case(key=None, nontrivial=any(c > 1 for c in codes))
            part.outcomes.add(('bytes', form, len(codes) if len(codes) < 5 else 'long', ok))
            if not ok:
                cls = 'empty' if not codes else 'top' if max(codes) >= R.q - 2 else 'other'
                rf.note_violation(part, f'C22:bytes_roundtrip:{A.kind}:{form}:{cls}',
                               f'{name}: from_bytes(to_bytes({codes if len(codes) <= 6 else str(codes[:6]) + "..."})) '
                               f'[{form} values, byte_length {F.byte_length}]: {obs}',
                               dict(spec=spec, check='bytes', codes=codes, form=form))
                if 'raised Hang' in obs:
                    raise rf.Hang
            elif not sampled and len(codes) == 3 and len(set(codes)) == 3 and codes[0] > 1 and form == forms[-1]:
                sampled = True
                rf.note_sample(part, dict(field=name, list=codes, form=form, observed=obs))

    if unit['lo'] == 0:
        do_list([])
        for codes in long_lists(alpha):
            do_list(codes)
    for first in alpha[unit['lo']:unit['hi']]:
        for codes in lists_from(alpha, first, mlen):
            do_list(codes)

    elems = element_domain(R, mode)
    # elements are split over the same number of row chunks as the list alphabet
    n_chunks, idx = unit['chunks'], unit['index']
    mine = elems[idx::n_chunks]
    for a in mine:
        for proto in PROTOCOLS:
            ok, obs = rf.limited(lambda: check_pickle(A, a, proto))
            part.case(key=None, nontrivial=a > 1)
            part.outcomes.add(('pickle', proto, ok))
            if not ok:
                rf.note_violation(part, f'C22:pickle:{A.kind}', f'{name}: pickle round trip (protocol {proto}) of element code {a}: {obs}',
                               dict(spec=spec, check='pickle', a=a, proto=proto))
                if 'raised Hang' in obs:
                    raise rf.Hang
        for signed in ((True, False) if A.kind == 'prime' else (None,)):
            for vname, ok, obs, exp in rf.limited(lambda: check_views(A, a, signed)):
                part.case(key=None, nontrivial=a > 1)
                part.outcomes.add((vname, signed, ok, view_class(A, a)))
                if not ok:
                    rf.note_violation(part, f'C22:{vname}:{A.kind}{view_class(A, a)}',
                                   f'{name}: {vname} of element code {a} (is_signed={signed}): observed {obs}, expected {exp}',
                                   dict(spec=spec, check='views', a=a, signed=signed))
                    if 'raised Hang' in obs:
                        raise rf.Hang
    if unit['lo'] == 0:
        picks = sorted({elems[0], elems[1 % len(elems)], elems[len(elems) // 2], elems[-2 % len(elems)], elems[-1]})
        xreq.append((spec, name, A, picks,
                     dict(poly_p=0 if A.kind == 'prime' else A.p, pickles=[pickle.dumps(A.make(a)).hex() for a in picks])))
    part.note('lists_alphabet_size', {name: len(alpha) if unit['lo'] == 0 else 0})
    part.note('elements_pickled', len(mine))


def run_xproc(part, xreq):
    if not xreq:
        return
    try:
        results = xproc_roundtrip([r[4] for r in xreq])
    except Exception as exc:
        part.note('harness_errors', [f'C22 cross-process helper: {exc!r}'])
        return
    for (spec, name, A, picks, _), res in zip(xreq, results):
        for a, r in zip(picks, res):
            part.case(key=None, nontrivial=a > 1)
            mod, val = raw_view(A, a)
            ok = 'error' not in r and r['order'] == A.q and r['char'] == A.p and r['deg'] == A.d and r['mod'] == mod \
                and r['value'] == val and r['again'] and r['same_class']
            part.outcomes.add(('xproc', ok))
            if not ok:
                rf.note_violation(part, f'C22:pickle:{A.kind}:xproc',
                               f'{name}: element code {a} unpickled in a fresh interpreter gives {r}, expected order {A.q}, '
                               f'modulus {mod}, value {val}', dict(spec=spec, check='xproc', a=a))


def jobs(tier, seed):
    units = []
    for spec, mode in field_specs(tier):
        R = rf.RefField(spec['p'], spec.get('mod'))
        alpha = list_alphabet(R, mode)
        m = len(alpha)
        mlen = max_len(R, mode, tier)
        per_row = sum(m**k for k in range(mlen)) * (1 if R.prime else 4) + 40 * len(element_domain(R, mode)) // max(1, m)
        chunks = max(1, min(m, per_row * m // 60_000))
        size = -(-m // chunks)
        los = list(range(0, m, size))
        for i, lo in enumerate(los):
            units.append((per_row * min(size, m - lo) + 2000, dict(spec=spec, mode=mode, tier=tier, lo=lo, hi=min(m, lo + size),
                                                                   chunks=len(los), index=i)))
    k = 32 if tier == 'quick' else 48
    bins = [[0, []] for _ in range(k)]
    for cost, u in sorted(units, key=lambda cu: (-cu[0], repr(cu[1]))):
        b = min(bins, key=lambda x: x[0])
        b[0] += cost
        b[1].append(u)
    return [dict(units=b[1]) for b in bins if b[1]]


def coverage_extra(tier, seed, total):
    # representative case per violation key: prefer genuine (degree >= 2 or prime) fields over degree-1 extensions
    return rf.finalize(total, prefer=lambda d: int(d['spec'].get('mod') is not None and len(d['spec']['mod']) <= 2))


def run_job(job):
    part = Part()
    rf.arm_watchdog()
    xreq = []
    for unit in job['units']:
        try:
            run_unit(part, unit, xreq)
        except rf.Hang:
            rf.note_violation(part, f'C22:hang:{rf.spec_kind(unit["spec"])}',
                              f'{rf.field_name(unit["spec"])}: a serialisation/view call did not return within the watchdog limit',
                              dict(spec=unit['spec'], check='bytes', codes=[1], form='int'))
            part.caps.append('a unit was abandoned after a call into the code under test hung (see violation)')
    run_xproc(part, xreq)
    return part


def replay(case):
    part = Part()
    rf.arm_watchdog()
    spec = case['spec']
    A = rf.guarded_adapter(part, 'C22', spec, case)
    if A is None:
        return part
    name = rf.field_name(spec)
    if case['check'] == 'bytes':
        ok, obs = check_bytes(A, case['codes'], case['form'])
        if not ok:
            codes = case['codes']
            cls = 'empty' if not codes else 'top' if max(codes) >= A.q - 2 else 'other'
            rf.note_violation(part, f'C22:bytes_roundtrip:{A.kind}:{case["form"]}:{cls}', f'{name}: {codes[:6]}: {obs}', case)
    elif case['check'] == 'pickle':
        ok, obs = check_pickle(A, case['a'], case['proto'])
        if not ok:
            rf.note_violation(part, f'C22:pickle:{A.kind}', f'{name}: element code {case["a"]}: {obs}', case)
    elif case['check'] == 'views':
        for vname, ok, obs, exp in check_views(A, case['a'], case['signed']):
            if not ok:
                rf.note_violation(part, f'C22:{vname}:{A.kind}{view_class(A, case["a"])}',
                               f'{name}: element code {case["a"]}: observed {obs}, expected {exp}', case)
    else:
        a = case['a']
        xreq = [(spec, name, A, [a], dict(poly_p=0 if A.kind == 'prime' else A.p, pickles=[pickle.dumps(A.make(a)).hex()]))]
        run_xproc(part, xreq)
    return part
