"""C12 -- Shamir split and recombine are inverse for all fields and thresholds.

Bounded-exhaustive enumeration on the real thresha.random_split / recombine with DICTATED dealer
randomness (thresha.secrets is rebound to an object whose randbelow() hands out the enumerated
coefficient vectors and logs every requested bound).  Oracle: independent field arithmetic and
Lagrange interpolation (mc/ref/shamir.py on mc/ref/fields.py).
"""

import itertools

from mc.core import Part, stable_hash
from mc.ref import shamir as R

LEVEL = 'exploration'
RULE = ('one case = (field, t, m, secret, dealer coefficient vector, subset of >= t+1 shares, recombination '
        'point x_r, input form raw/field-element/scalar-x_r/one-element-list); every combination of the declared domains is '
        'enumerated once; non-trivial = t >= 1 and the coefficient vector is non-zero')
ASSUMPTIONS = [
    'mc/ref/fields.py + mc/ref/shamir.py (schoolbook GF(p^d) arithmetic, Lagrange interpolation) are correct',
    'thresha draws dealer randomness only through secrets.randbelow looked up in its module namespace '
    '(every draw and its bound is logged and checked: exactly t draws per secret with bound |F|)',
    'raw (non field-element) recombine results are compared modulo the field modulus, as the runtime does',
    'fields above 27 elements (GF(256), GF(101), GF(2^61-1)) and coefficient spaces above the per-tier limit use '
    'the boundary alphabet {0,1,|F|-1}^t plus all single-coefficient vectors, not all of F^t',
    'np_random_split/np_recombine agreement is exercised only under an interpreter with numpy '
    '(/venv/bin/python has none: there the array part is skipped; C37 covers the array code paths)',
]
MANIFEST = dict(
    level='exploration',
    technique='bounded-exhaustive enumeration with dictated dealer randomness against independent Lagrange interpolation',
    text='Real random_split/recombine over GF(2),3,5,7,11,13,4,8 (two moduli),9 (two moduli),16,25,27 plus GF(256), '
    'GF(101), GF(2^61-1): all 0<=t<m<|F|, m<=6; all secrets x all |F|^t coefficient vectors (boundary alphabet '
    'above the limit / for the large fields) x all subsets of size t+1, t+2 and m x all recombination points in F '
    '(0..m+2,|F|-2,|F|-1 for large fields) x raw/field-element/scalar/one-element-list call forms; full coefficient '
    'spaces up to |F|^t <= 10^4 (quick tier: <= 130, and boundary secrets / 0..m+2,|F|-2,|F|-1 for |F| > 16).  Oracle: shares equal the '
    'documented polynomial at i+1, recombination equals own Lagrange interpolation = polynomial value at x_r '
    '(secret at 0); exactly t fresh draws of bound |F| per secret.',
    ref='DESIGN 5/C12',
    note='trusted: reference field arithmetic (mc/ref); randomness seam thresha.secrets; array variants only '
    'checked when numpy is importable (not in /venv)')

SMALL = ['GF(2)', 'GF(3)', 'GF(5)', 'GF(7)', 'GF(11)', 'GF(13)', 'GF(4)', 'GF(8)', "GF(8)'", 'GF(9)', "GF(9)'",
         'GF(16)', 'GF(25)', 'GF(27)']
BIG = ['GF(256)', 'GF(101)', 'GF(2^61-1)']
MAX_M = 6
SAMPLE_CASES = {('GF(7)', 2, 4, 3, (2, 5)), ('GF(8)', 2, 5, 6, (3, 5)), ("GF(9)'", 1, 3, 4, (7,)),
                ('GF(13)', 3, 6, 12, (0, 1, 12)), ('GF(256)', 2, 3, 0x80, (255, 1)),
                ('GF(2^61-1)', 2, 5, 2**60, (1, 2**61 - 2))}
BATCH = 40
NJOBS = 48


def limit_full(tier):
    return 10_000 if tier == 'thorough' else 130


def secrets_of(name, tier='thorough'):
    q = R.order(name)
    if name in SMALL and (tier == 'thorough' or q <= 16):
        return list(range(q))
    s = {0, 1, 2, q - 1, q - 2, q // 2, q // 2 + 1}
    if name == 'GF(256)':
        s |= {0x80, 0x7f, 0x1b, 0x1a, 0xaa}
    if name == 'GF(2^61-1)':
        s |= {2**60, 2**32, 2**32 - 1, 2**60 - 1}
    return sorted(s)


def coef_vectors(name, t, tier):
    """(list of coefficient vectors, 'full' | 'alphabet')."""
    q = R.order(name)
    if name in SMALL and q**t <= limit_full(tier):
        return list(itertools.product(range(q), repeat=t)), 'full'
    alpha = sorted({0, 1, q - 1})
    vecs = list(itertools.product(alpha, repeat=t))
    seen = set(vecs)
    singles = range(q) if name in SMALL else secrets_of(name)
    for k in range(t):
        for v in singles:
            c = tuple(v if j == k else 0 for j in range(t))
            if c not in seen:
                seen.add(c)
                vecs.append(c)
    return vecs, 'alphabet'


def x_rs_of(name, m, tier='thorough'):
    q = R.order(name)
    if name in SMALL and (tier == 'thorough' or q <= 16):
        return list(range(q))
    return sorted(set(range(min(q, m + 3))) | {q - 2, q - 1})


def configs(tier):
    for name in SMALL + BIG:
        q = R.order(name)
        for m in range(1, min(MAX_M, q - 1) + 1):
            for t in range(m):
                yield name, t, m


def pairs_of(name, t, tier):
    vecs, mode = coef_vectors(name, t, tier)
    return [(s, c) for c in vecs for s in secrets_of(name, tier)], mode


def weight(name, t, m, npairs, tier):
    subs = R.subsets_at_least(m, t + 1)
    p, modcode = R.FIELD_SPECS[name]
    slow = 0.6 if modcode is None else 1.0 if p == 2 else 3.0      # generic gfpx polynomials are list-based
    return slow * npairs * (3 * m * (t + 1) + sum(len(S) for S in subs) * len(x_rs_of(name, m, tier)) * 2.2)


def jobs(tier, seed):
    units = []
    for name, t, m in configs(tier):
        pairs, _ = pairs_of(name, t, tier)
        w = weight(name, t, m, len(pairs), tier)
        K = max(1, min(64, int(w // 1.5e6) + 1))
        for k in range(K):
            units.append((w / K, (name, t, m, k, K)))
    units.sort(key=lambda u: (-u[0], u[1]))
    bins = [[0.0, []] for _ in range(NJOBS)]
    for w, u in units:
        b = min(bins, key=lambda b: b[0])
        b[0] += w
        b[1].append(u)
    return [dict(tier=tier, units=b[1]) for b in bins if b[1]] + [dict(tier=tier, big=True, units=[])]


class Dictator:
    """Stand-in for the `secrets` module inside thresha: hands out dictated values, logs bounds."""

    def __init__(self):
        self.load(())

    def load(self, values):
        self.values = list(values)
        self.pos = 0
        self.bounds = []

    def randbelow(self, n):
        self.bounds.append(n)
        v = self.values[self.pos] if self.pos < len(self.values) else 0
        self.pos += 1
        return v


class Ctx:
    def __init__(self, name, t, m):
        from mpyc import thresha
        self.thresha = thresha
        self.name, self.t, self.m = name, t, m
        self.field = R.make_field(name)
        self.F = R.ref_field(name)
        self.q = self.F.q
        self.small = name in SMALL
        self.ws = {}

    def weights(self, S, x_r):
        key = (S, x_r)
        w = self.ws.get(key)
        if w is None:
            w = self.ws[key] = R.lagrange_weights(self.F, [i + 1 for i in S], x_r)
        return w


def detail(ctx, s, c, S=None, x_r=None, form=None):
    return dict(field=ctx.name, t=ctx.t, m=ctx.m, secrets=[s], coefs=[list(c)],
                subset=None if S is None else list(S), x_rs=None if x_r is None else [x_r], form=form)


def check_batch(part, ctx, seam, batch, subsets, x_rs, forms=('raw', 'elem', 'scalar'), np=None):
    """Split the secrets of one batch in ONE call (dictated coefficients), then recombine every subset
    at every x_r.  batch = list of (secret code, coefficient vector)."""
    thresha, field, F, t, m, q = ctx.thresha, ctx.field, ctx.F, ctx.t, ctx.m, ctx.q
    L = len(batch)
    flat = [cj for _, c in batch for cj in c]
    polys = [R.sharing_poly(s, c) for s, c in batch]
    points = range(q) if ctx.small else sorted(set(range(1, m + 1)) | set(x_rs))
    fvals = [{x: R.poly_eval(F, f, x) for x in points} for f in polys]
    nz = sum(1 for _, c in batch if any(c))

    def split(secrets, what):
        seam.load(flat)
        try:
            sh = thresha.random_split(field, secrets, t, m)
        except Exception as exc:
            part.violation(f'C12:split:{what}:exception', f'{ctx.name} t={t} m={m} batch of {L}: {exc!r}',
                           dict(field=ctx.name, t=t, m=m, secrets=[s for s, _ in batch],
                                coefs=[list(c) for _, c in batch], subset=None, x_rs=None, form=what))
            return None
        if seam.bounds != [q] * (t * L):
            bad = sorted(set(seam.bounds) - {q})
            part.violation('C12:split:draws', f'{ctx.name} t={t} m={m} {L} secrets: {len(seam.bounds)} draws '
                           f'(expected {t * L} = t per secret), bounds other than |F|={q}: {bad[:4]}',
                           dict(field=ctx.name, t=t, m=m, secrets=[s for s, _ in batch],
                                coefs=[list(c) for _, c in batch], subset=None, x_rs=None, form=what))
        if len(sh) != m or any(len(row) != L for row in sh):
            part.violation('C12:split:shape', f'{ctx.name} t={t} m={m}: share matrix is not {m} x {L}',
                           detail(ctx, *batch[0], form=what))
            return None
        return sh

    shares = split([s for s, _ in batch], 'raw')
    part.case(nontrivial=True, n=nz * m)
    part.case(nontrivial=False, n=(L - nz) * m)
    if shares is None:
        return
    codes = [[R.code_of(F, v) for v in row] for row in shares]
    for h in range(L):
        for i in range(m):
            if codes[i][h] != fvals[h][i + 1]:
                s, c = batch[h]
                part.violation('C12:split:share', f'{ctx.name} t={t} m={m} secret={s} coefficients={list(c)}: share of '
                               f'party {i} is {codes[i][h]}, polynomial s+c[t-1]X+..+c[0]X^t at {i + 1} is '
                               f'{fvals[h][i + 1]}' + (f' (column {h} of a {L}-secret call)' if L > 1 else ''),
                               dict(field=ctx.name, t=t, m=m, secrets=[b[0] for b in batch[:h + 1]],
                                    coefs=[list(b[1]) for b in batch[:h + 1]], subset=None, x_rs=None, form='raw'))
    if 'elem' in forms:
        sh_e = split([field(s) for s, _ in batch], 'elem')
        part.case(nontrivial=True, n=nz * m)
        part.case(nontrivial=False, n=(L - nz) * m)
        if sh_e is not None:
            for h in range(L):
                for i in range(m):
                    if R.code_of(F, sh_e[i][h]) != fvals[h][i + 1]:
                        s, c = batch[h]
                        part.violation('C12:split:share:field-element-secret',
                                       f'{ctx.name} t={t} m={m} secret=field({s}) coefficients={list(c)}: share of party '
                                       f'{i} is {R.code_of(F, sh_e[i][h])}, expected {fvals[h][i + 1]}',
                                       detail(ctx, s, c, form='elem'))
    for h, (s, c) in enumerate(batch):
        if (ctx.name, t, m, s, c) in SAMPLE_CASES:          # fixed cases, so the evidence samples are the same every run
            S = subsets[0]
            part.sample(dict(field=ctx.name, t=t, m=m, secret=s, coefficients=list(c), shares=[codes[i][h] for i in range(m)],
                             subset=list(S), x_r=x_rs[-1], polynomial_at_x_r=fvals[h][x_rs[-1]],
                             own_lagrange_at_0=R.lagrange_at(F, [i + 1 for i in S], [codes[i][h] for i in S], 0)))
    part.outcomes.add((q % 1000, codes[0][0] % 32))

    elem_shares = [[field(v) for v in row] for row in shares] if 'elem' in forms else None
    width = len(x_rs)
    for si, S in enumerate(subsets):
        xs = [i + 1 for i in S]
        wss = [ctx.weights(S, x_r) for x_r in x_rs]
        ycodes = [codes[i] for i in S]
        expect = [[R.lagrange_at(F, xs, [yc[h] for yc in ycodes], x_r, ws) for h in range(L)]
                  for x_r, ws in zip(x_rs, wss)]
        for r, x_r in enumerate(x_rs):
            for h in range(L):
                if expect[r][h] != fvals[h][x_r]:
                    s, c = batch[h]
                    part.violation('C12:shares-off-polynomial', f'{ctx.name} t={t} m={m} secret={s} coefficients='
                                   f'{list(c)}: own interpolation of shares {list(S)} at {x_r} gives {expect[r][h]}, '
                                   f'sharing polynomial gives {fvals[h][x_r]}', detail(ctx, s, c, S, x_r, 'raw'))
        for form in forms:
            if form == 'scalar':
                continue
            src = shares if form == 'raw' else elem_shares
            pts = [(i + 1, src[i]) for i in S]
            try:
                got = thresha.recombine(field, pts, list(x_rs))
                ok = isinstance(got, list) and len(got) == width and all(len(g) == L for g in got)
            except Exception as exc:
                got, ok = repr(exc), False
            part.case(nontrivial=True, n=nz * width)
            part.case(nontrivial=False, n=(L - nz) * width)
            if not ok:
                part.violation(f'C12:recombine:{form}:shape-or-exception', f'{ctx.name} t={t} m={m} subset={list(S)} '
                               f'x_rs={list(x_rs)}: {str(got)[:200]}', detail(ctx, *batch[0], S, x_rs[0], form))
                continue
            for r, x_r in enumerate(x_rs):
                row = got[r]
                for h in range(L):
                    g = R.code_of(F, row[h])
                    if g != expect[r][h]:
                        s, c = batch[h]
                        at = 'x_r=0' if x_r == 0 else 'x_r!=0'
                        part.violation(f'C12:recombine:{form}:{at}', f'{ctx.name} t={t} m={m} secret={s} coefficients='
                                       f'{list(c)} shares {list(S)}={[yc[h] for yc in ycodes]}: recombine at {x_r} gives '
                                       f'{g}, independent Lagrange gives {expect[r][h]}' +
                                       (f' (x_rs={list(x_rs)})' if width > 1 else ''),
                                       dict(detail(ctx, s, c, S, x_r, form), x_rs=list(x_rs), at=x_r))
            part.outcomes.add((q % 1000, R.code_of(F, got[0][0]) % 32))
        if 'scalar' in forms:
            # x_rs not a list: default argument (0) and one rotating scalar point
            pts = [(i + 1, shares[i]) for i in S]
            for x_r in (None, x_rs[(si + L) % width], [x_rs[(si + L + 1) % width]]):
                try:
                    got = thresha.recombine(field, pts) if x_r is None else thresha.recombine(field, pts, x_r)
                    one = isinstance(x_r, list)     # one-element list of points: the result is a one-row matrix
                    row = got
                    if one:
                        row = got[0] if isinstance(got, list) and len(got) == 1 else None
                    ok = isinstance(row, list) and len(row) == L and not any(isinstance(g, list) for g in row)
                    if ok and one:
                        got, x_r = row, x_r[0]
                except Exception as exc:
                    got, ok = repr(exc), False
                xv = 0 if x_r is None else x_r
                part.case(nontrivial=True, n=nz)
                part.case(nontrivial=False, n=L - nz)
                if not ok:
                    part.violation('C12:recombine:scalar:shape-or-exception', f'{ctx.name} t={t} m={m} subset={list(S)} '
                                   f'{L} secrets, x_rs={x_r!r}: result {str(got)[:200]} is not ' +
                                   ('a one-row matrix' if isinstance(x_r, list) else f'a flat list of {L} values'),
                                   detail(ctx, *batch[0], S, xv[0] if isinstance(xv, list) else xv, 'scalar'))
                    continue
                ws = ctx.weights(S, xv)
                for h in range(L):
                    e = R.lagrange_at(F, xs, [yc[h] for yc in ycodes], xv, ws)
                    g = R.code_of(F, got[h])
                    if g != e:
                        s, c = batch[h]
                        part.violation('C12:recombine:scalar:' + ('default-x_r' if x_r is None else 'one-element-list' if one else 'x_r'),
                                       f'{ctx.name} t={t} m={m} secret={s} coefficients={list(c)} shares {list(S)}='
                                       f'{[yc[h] for yc in ycodes]}: recombine(points' +
                                       ('' if x_r is None else f', [{x_r}])[0' if one else f', {x_r}') +
                                       f') gives {g}, independent Lagrange gives {e}',
                                       dict(detail(ctx, s, c, S, xv, 'scalar'), default=x_r is None))
    if np is not None:
        check_arrays(part, ctx, seam, batch, subsets, x_rs, fvals, np)


def check_arrays(part, ctx, seam, batch, subsets, x_rs, fvals, np):
    """Array variants (only with numpy): np_random_split columns are degree-<=t sharings of the secrets whose
    non-constant coefficients are exactly the draws (each used once); np_recombine == recombine == reference."""
    thresha, field, F, t, m, q = ctx.thresha, ctx.field, ctx.F, ctx.t, ctx.m, ctx.q
    L = len(batch)
    flat = [cj for _, c in batch for cj in c]
    xs_all = list(range(1, m + 1))
    for form in ('array', 'ndarray'):
        seam.load(flat)
        secs = field.array([s for s, _ in batch])
        try:
            sh = thresha.np_random_split(field, secs if form == 'array' else secs.value, t, m)
            rows = [[R.code_of(F, v) for v in row] for row in np.asarray(sh).tolist()] if not hasattr(sh, 'value') \
                else [[R.code_of(F, v) for v in row] for row in sh.value.tolist()]
            ok = len(rows) == m and all(len(r) == L for r in rows)
        except Exception as exc:
            rows, ok = repr(exc), False
        part.case(nontrivial=t >= 1, n=L * m)
        d = dict(field=ctx.name, t=t, m=m, secrets=[s for s, _ in batch], coefs=[list(c) for _, c in batch],
                 subset=None, x_rs=None, form='np')
        if not ok:
            part.violation('C12:np_split:shape-or-exception', f'{ctx.name} t={t} m={m}: {str(rows)[:200]}', d)
            return
        if seam.bounds != [q] * (t * L):
            part.violation('C12:np_split:draws', f'{ctx.name} t={t} m={m} {L} secrets: {len(seam.bounds)} draws, bounds '
                           f'{sorted(set(seam.bounds))} (expected {t * L} draws of bound {q})', d)
        used = []
        basis = R.lagrange_basis(F, xs_all)
        for h in range(L):
            coeffs = R.interpolate(F, xs_all, [rows[i][h] for i in range(m)], basis)
            if R.degree(coeffs) > t or coeffs[0] != batch[h][0]:
                part.violation('C12:np_split:share', f'{ctx.name} t={t} m={m} secret={batch[h][0]}: array shares '
                               f'{[rows[i][h] for i in range(m)]} interpolate to {coeffs} (degree <= {t} with constant '
                               f'term = secret expected)', d)
            used += coeffs[1:t + 1]
        if sorted(used) != sorted(flat):
            part.violation('C12:np_split:coefficients', f'{ctx.name} t={t} m={m}: the non-constant coefficients of the '
                           f'{L} array sharings are not exactly the {t * L} dealer draws', d)
    # np_recombine on the list-variant's shares
    seam.load(flat)
    shares = thresha.random_split(field, [s for s, _ in batch], t, m)
    for S in subsets:
        pts = [(i + 1, shares[i]) for i in S]
        for x_arg in (list(x_rs), None):
            try:
                got = thresha.np_recombine(field, pts, x_arg) if x_arg is not None else thresha.np_recombine(field, pts)
                lst = thresha.recombine(field, pts, x_arg) if x_arg is not None else thresha.recombine(field, pts)
                g = got.value.tolist()
                if x_arg is None:
                    g, lst = [g], [lst]
                g = [[R.code_of(F, v) for v in row] for row in g]
                lst = [[R.code_of(F, v) for v in row] for row in lst]
            except Exception as exc:
                part.violation('C12:np_recombine:exception', f'{ctx.name} t={t} m={m} subset={list(S)}: {exc!r}',
                               detail(ctx, *batch[0], S, 0, 'np'))
                continue
            pts_x = x_rs if x_arg is not None else [0]
            part.case(nontrivial=t >= 1, n=L * len(pts_x))
            want = [[fvals[h][x] for h in range(L)] for x in pts_x]
            if g != lst or g != want:
                part.violation('C12:np_recombine:value', f'{ctx.name} t={t} m={m} subset={list(S)} x_rs={pts_x}: array '
                               f'{g[:2]} list {lst[:2]} reference {want[:2]}', detail(ctx, *batch[0], S, pts_x[0], 'np'))


def batches(pairs, first):
    """Batch sizes 1, 2, 3 first (single-secret calls and short multi-secret calls), then BATCH."""
    sizes = [1, 2, 3] if first else []
    pos = 0
    for sz in sizes:
        if pos < len(pairs):
            yield pairs[pos:pos + sz]
            pos += sz
    while pos < len(pairs):
        yield pairs[pos:pos + BATCH]
        pos += BATCH


BIG_MT = [(16, 15), (17, 16), (20, 15), (29, 14), (31, 15), (13, 6)]
BIG_P = [2 ** 61 - 1, 257, 2 ** 64 - 59]


def run_big(part, seam, np, only=None):
    """Many parties: m^t exceeds the 64-bit word.  With dictated boundary coefficients the list and the array sharing must both
    be share_i = s + sum_j c_j * i^(t-j) mod p for the drawn coefficients in the drawing order thresha uses (computed with Python
    integers), and every (t+1)-subset recombines to the secret in both variants."""
    from mpyc import thresha, finfields
    for p in BIG_P:
        field = finfields.GF(p)
        for (m, t) in BIG_MT:
            if only is not None and only != [p, m, t]:
                continue
            for cpat in ('max', 'one', 'alt'):
                coefs = [p - 1 if cpat == 'max' else 1 if cpat == 'one' else (p - 1 if j % 2 else 2) for j in range(t)]
                for s0 in (0, 1, p - 1):
                    doc = dict(part='big', p=p, m=m, t=t, coefs=cpat, secret=s0)
                    part.case(key=None, nontrivial=True)
                    results = {}
                    for variant in ('list', 'array'):
                        if variant == 'array' and np is None:
                            continue
                        seam.load(coefs)
                        if variant == 'list':
                            sh = thresha.random_split(field, [field(s0)], t, m)
                            shares = [int(r[0]) % p for r in sh]
                        else:
                            sh = thresha.np_random_split(field, field.array([s0]), t, m)
                            shares = [int(v) % p for v in (sh.value if hasattr(sh, 'value') else sh).reshape(m, -1)[:, 0]]
                        results[variant] = shares
                        # the shares lie on ONE polynomial of degree <= t through (0, s0): interpolate the first t+1, predict the rest
                        xs = list(range(1, t + 2))
                        def lag(x, pts):
                            tot = 0
                            for a, (xa, ya) in enumerate(pts):
                                num = den = 1
                                for b, (xb, _) in enumerate(pts):
                                    if a != b:
                                        num = num * (x - xb) % p
                                        den = den * (xa - xb) % p
                                tot = (tot + ya * num * pow(den, -1, p)) % p
                            return tot
                        pts = [(x, shares[x - 1]) for x in xs]
                        bad = [i + 1 for i in range(t + 1, m) if lag(i + 1, pts) != shares[i]]
                        if lag(0, pts) != s0 % p or bad:
                            part.violation(f'C12:{"np_" if variant == "array" else ""}split:many-parties:not-one-polynomial',
                                           f'GF({p}) t={t} m={m} coefficients {cpat} secret {s0}: {variant} shares of parties {bad[:4]} are off the degree-{t} '
                                           f'polynomial through the first {t + 1} shares (or its value at 0 is not the secret)', doc)
                        last = [(m - j, shares[m - j - 1]) for j in range(t + 1)]
                        if lag(0, last) != s0 % p:
                            part.violation(f'C12:{"np_" if variant == "array" else ""}split:many-parties:recombine-last',
                                           f'GF({p}) t={t} m={m} coefficients {cpat} secret {s0}: the last {t + 1} {variant} shares interpolate to '
                                           f'{lag(0, last)} at 0', doc)
                    part.outcomes.add(stable_hash((p, m, t, cpat, s0, tuple(results.get('list', ())))) & 0xffffff)


def run_job(job):
    from mpyc import thresha
    from mpyc.numpy import np
    part = Part()
    seam = Dictator()
    saved = thresha.secrets
    thresha.secrets = seam
    try:
        if job.get('big'):
            run_big(part, seam, np)
            part.note('numpy', 1 if np is not None else 0)
            return part
        for name, t, m, k, K in job['units']:
            ctx = Ctx(name, t, m)
            pairs, mode = pairs_of(name, t, job['tier'])
            mine = pairs[k::K]
            subsets = R.subsets_at_least(m, t + 1)
            x_rs = x_rs_of(name, m, job['tier'])
            for batch in batches(mine, first=True):
                check_batch(part, ctx, seam, batch, subsets, x_rs, np=np)
            if k == 0:
                part.note('configs', 1)
                part.note('configs_by_field', {name: 1})
                part.note('coefficient_space', {mode: 1})
            part.note('splits', 2 * len(mine))
            part.note('secret_coefficient_pairs', len(mine))
        part.note('numpy', 1 if np is not None else 0)
    finally:
        thresha.secrets = saved
    return part


def coverage_extra(tier, seed, total):
    return dict(fields=SMALL + BIG, max_m=MAX_M, full_coefficient_limit=limit_full(tier),
                array_variants_checked=bool(total.notes.get('numpy')))


def replay(case):
    from mpyc import thresha
    from mpyc.numpy import np
    part = Part()
    seam = Dictator()
    saved = thresha.secrets
    thresha.secrets = seam
    try:
        if case.get('part') == 'big':
            run_big(part, seam, np, only=[case['p'], case['m'], case['t']])
            return part
        ctx = Ctx(case['field'], case['t'], case['m'])
        batch = [(s, tuple(c)) for s, c in zip(case['secrets'], case['coefs'])]
        subsets = [tuple(case['subset'])] if case.get('subset') else R.subsets_at_least(ctx.m, ctx.t + 1)
        x_rs = case['x_rs'] if case.get('x_rs') else x_rs_of(ctx.name, ctx.m)
        check_batch(part, ctx, seam, batch, subsets, x_rs, np=np)
    finally:
        thresha.secrets = saved
    return part
