"""C34 -- secure statistics agree with Python's statistics module.

Bounded-exhaustive enumeration of data sets on the real single-party synchronous runtime (and a
batch of 3-party executions), against Python's `statistics` evaluated on exact Fractions:

 * secure integers SecInt(12): all data sets over {-2..2} of size 1..4 (5 for mean / median family /
   mode), in every order; all pairs of data sets of size 2..3 for covariance;
 * secure fixed-point SecFxp(12,6) (thorough: also SecFxp(16,8), sizes <= 3 for the order statistics): all data sets over
   {-1,-1/2,0,1/2,1} of the same sizes; pairs over a reduced alphabet for covariance, correlation,
   linear_regression (division needs l =~ 2f: documented);
 * _quickselect: every outcome of the first K secret pivot / tie-break bits is enumerated
   (stateless search over the decision tree of the random draws made from mpyc.statistics), and
   the whole-mask patterns all-zero / all-max / a second seed: the result must not change.
"""

import math
import statistics
import itertools
from fractions import Fraction as F

from mc.core import Part, stable_hash

LEVEL = 'exploration'
FRESH_PROCESS_PER_JOB = True
RULE = ('one case = (function, element type, data set [pair], optional arguments, mask script); data sets = ALL tuples (every '
        'order, duplicates included) over {-2..2} for SecInt(12) and over {-1,-1/2,0,1/2,1} for SecFxp(12,6) of size 1..4 (5 for '
        'mean, median*, mode; plus for the order statistics (quick: the medians) the fine alphabet {0, u, 2u, 1/4, 1/2} (u = 2^-6) of size <= 3 (thorough 4); quick tier: three-point alphabet at size 5 except for mean); quantiles n in {1..5} x {exclusive, inclusive}; variance/stdev with xbar in {None, secure mean}, '
        'pvariance/pstdev with mu in {None, secure mean, every alphabet value} (quick: pstdev at size 4 without the alphabet values); covariance: all pairs of integer data sets of size '
        '2..3; covariance/correlation/linear_regression: all pairs over {-1,0,1/2,1} (quick: {-1,0,1/2}) of size 2..3, constant x '
        '(and y for correlation) excluded; list / tuple / iterator inputs on the size<=2 data sets; mask scripts seeded, all-zero, '
        'all-max, second seed for every case that draws randomness (quick: no second seed, and only seeded and all-max at sizes 4, 5); for the quickselect users all 2^K outcomes of the first K pivot/tie-break bits '
        '(median family: K = 5/4 at sizes 2/3 quick, 8/7/5 at sizes 2/3/4 thorough; quantiles: K = 3/2 quick, 5/4/2 thorough); non-trivial = at least one random draw or more than one party')
ASSUMPTIONS = [
    'integers: mean, variance, pvariance are "rounded to the nearest integer" (module docstring): |result - exact| <= 1/2 is demanded, '
    'either neighbour at a tie; stdev/pstdev = integer square root (floor, _isqrt docstring) of an admissible rounded variance; '
    'median (even size), quantiles and covariance have NO documented integer rounding: only |result - exact| < 1 is demanded',
    'mode: "the first one encountered in data" among equally frequent values, as documented and as in Python',
    'fixed point: nothing concrete is documented ("mean ... rounded to the nearest number" cannot hold for a product of two '
    'probabilistically rounded multiplications), so the tolerance is DERIVED FROM THE NUMBER OF ROUNDINGS by interval arithmetic '
    'over exact Fractions: each public constant c is rounded to f bits, each fixed-point product / in_prod / division by a public '
    'number adds less than 1 unit (2^-f) of probabilistic truncation, a secure quotient x/y adds at most (|x|(4/|y|+1)+1) units '
    '(Newton reciprocal: constant u/2, two truncations scaled by c0<=2, final product; verified exhaustively for |y|>=1/8), '
    'the bitwise square root r of a satisfies r^2 - u < a < (r+u)^2 + u; accepted = hull of that interval and the exact value',
    'secure fixed-point division needs l =~ 2f (documented at SecFxp): SecFxp(12,6), SecFxp(16,8)',
    'mode on fixed-point needs integral data (the code rejects anything else with ValueError): data over {-2..2}',
    'excluded event (forced not to happen, counted as short_truncation_masks_forced): runtime.trunc on lists of field elements '
    '(scalar_mul, schur_prod, prod, matrix_prod pass l = bit_length although products carry 2f fractional bits) truncates a '
    'negative product wrongly when its statistical mask quotient is tiny (q < (|x|*2^2f - 2^(l-1)) / 2^f, probability about '
    '2^-(k+l-2f-2)); multi-party runs use sec_param 24 so that the event has negligible probability',
    'x constant (and y constant for correlation) is excluded for correlation / linear_regression (Python raises; division by a '
    'secret zero); ill-conditioned cases whose error interval for the denominator reaches zero are skipped and counted',
    'exceptions: only the documented ones are demanded (StatisticsError for empty data / fewer than two values); undocumented '
    'ones (quantiles n<1, too few points, unequal lengths) are compared with Python and reported as a coverage note only',
    'variance(data, xbar) is compared with statistics.variance(data, xbar) of Python 3.12 (sum of squares about xbar, no '
    'correction term) for the xbar actually passed',
    'multi-party runs use the default eager schedule; excluded event is_zero_public blinding factor 0 (forced non-zero)']
MANIFEST = dict(
    level=LEVEL,
    technique='bounded-exhaustive enumeration of data sets (all orders) and of the pivot / tie-break bits of quickselect on the real '
              'runtime against Python statistics on exact Fractions',
    text='All data sets over 5-point alphabets of size 1..4(5) for SecInt and SecFxp through mean, median, median_low, median_high, '
         'quantiles (n=1..5, both methods), mode, variance, stdev, pvariance, pstdev (with / without xbar, mu), all pairs of size 2..3 '
         'through covariance, correlation, linear_regression; integer results with the documented rounding, fixed-point results '
         'within a tolerance derived from the count of roundings; every outcome of the first K secret pivot and tie-break bits of '
         '_quickselect gives the same result; documented StatisticsErrors; list, tuple and iterator inputs; 3-party runs (PRSS on/off).',
    ref='DESIGN 5/C34', note='trusted: Python statistics on Fractions (cross-checked against own formulas), interval error model '
                             'for fixed point (stated in ASSUMPTIONS), randomness seam, world model')

INT_ALPHA = (-2, -1, 0, 1, 2)
FXP_ALPHA = (F(-1), F(-1, 2), F(0), F(1, 2), F(1))
TYPES = {'int': ('int', 12, 0), 'fxp': ('fxp', 12, 6), 'fxp8': ('fxp', 16, 8), 'fxpf': ('fxp', 12, 6)}
FINE_ALPHA = (F(0), F(1, 64), F(2, 64), F(1, 4), F(1, 2))      # neighbours at 1 unit and values closer than 1/2: near-ties for quickselect
ORDER_FNS = ('median', 'median_low', 'median_high', 'quantiles')
FNS1 = ('mean', 'median', 'median_low', 'median_high', 'mode', 'variance', 'stdev', 'pvariance', 'pstdev', 'quantiles')
FNS2 = ('covariance', 'correlation', 'linear_regression')


def frac(v):
    return F(v[0], v[1]) if isinstance(v, (list, tuple)) else F(v)


def enc(v):
    """JSON-able exact encoding of a data value."""
    v = F(v)
    return int(v) if v.denominator == 1 else [v.numerator, v.denominator]


# ------------------------------------------------------------------------------------------
# exact references (Python statistics on Fractions; own formulas where Python uses floats)
# ------------------------------------------------------------------------------------------

def ref_value(fn, xs, ys, kw):
    """Exact value(s) as Fractions (list for quantiles / linear_regression), or ('raises', name)."""
    try:
        if fn == 'mean':
            return statistics.mean(xs)
        if fn in ('median', 'median_low', 'median_high', 'mode'):
            return F(getattr(statistics, fn)(xs))
        if fn == 'quantiles':
            return [F(q) for q in statistics.quantiles(xs, n=kw.get('n', 4), method=kw.get('method', 'exclusive'))]
        if fn in ('variance', 'pvariance', 'stdev', 'pstdev'):
            base = 'variance' if fn in ('variance', 'stdev') else 'pvariance'
            c = kw.get('center')
            v = getattr(statistics, base)(xs) if c is None else getattr(statistics, base)(xs, c)
            n = len(xs)
            d = n - 1 if base == 'variance' else n
            m = sum(xs, F(0)) / n if c is None else c
            if F(v) != sum((x - m) ** 2 for x in xs) / d:
                raise RuntimeError('harness: statistics.%s disagrees with the textbook formula' % base)
            return F(v)         # for stdev/pstdev: the variance; the square root is taken by the oracle
        n = len(xs)
        if len(ys) != n or n < 2:
            getattr(statistics, fn)([float(x) for x in xs], [float(y) for y in ys])
            raise RuntimeError('harness: Python accepted invalid input')
        xb, yb = sum(xs, F(0)) / n, sum(ys, F(0)) / n
        sxy = sum((x - xb) * (y - yb) for x, y in zip(xs, ys))
        sxx = sum((x - xb) ** 2 for x in xs)
        syy = sum((y - yb) ** 2 for y in ys)
        if fn == 'covariance':
            r = sxy / (n - 1)
            if abs(float(r) - statistics.covariance([float(x) for x in xs], [float(y) for y in ys])) > 1e-9:
                raise RuntimeError('harness: covariance formula')
            return r
        if fn == 'correlation':
            if sxx == 0 or syy == 0:
                return None
            py = statistics.correlation([float(x) for x in xs], [float(y) for y in ys])
            if abs(float(sxy) / math.sqrt(float(sxx * syy)) - py) > 1e-9:
                raise RuntimeError('harness: correlation formula')
            return ('corr', sxy, sxx, syy)
        if fn == 'linear_regression':
            if sxx == 0:
                return None
            slope = sxy / sxx
            py = statistics.linear_regression([float(x) for x in xs], [float(y) for y in ys])
            if abs(float(slope) - py.slope) > 1e-9 or abs(float(yb - slope * xb) - py.intercept) > 1e-9:
                raise RuntimeError('harness: regression formula')
            return [slope, yb - slope * xb]
    except statistics.StatisticsError:
        return ('raises', 'StatisticsError')
    raise KeyError(fn)


# ------------------------------------------------------------------------------------------
# interval model of the fixed-point roundings
# ------------------------------------------------------------------------------------------

def quantile_terms(data, n, method):
    """Python's cut points written as base + (difference * delta) / n (the secure version rounds that quotient)."""
    ld = len(data)
    out = []
    for i in range(1, n):
        if method == 'inclusive':
            j, delta = divmod(i * (ld - 1), n)
            out.append((data[j], (data[j + 1] - data[j]) * delta if delta else F(0)))
        else:
            j = i * (ld + 1) // n
            j = 1 if j < 1 else ld - 1 if j > ld - 1 else j
            delta = i * (ld + 1) - j * n
            out.append((data[j - 1], (data[j] - data[j - 1]) * delta))
    return out


class Iv:
    __slots__ = ('lo', 'hi')

    def __init__(self, lo, hi=None):
        self.lo, self.hi = F(lo), F(lo if hi is None else hi)

    def __add__(self, o):
        return Iv(self.lo + o.lo, self.hi + o.hi)

    def __sub__(self, o):
        return Iv(self.lo - o.hi, self.hi - o.lo)

    def scale(self, c):
        a, b = self.lo * c, self.hi * c
        return Iv(min(a, b), max(a, b))

    def widen(self, w):
        return Iv(self.lo - w, self.hi + w)

    def mul(self, o):
        ps = [self.lo * o.lo, self.lo * o.hi, self.hi * o.lo, self.hi * o.hi]
        return Iv(min(ps), max(ps))

    def absmax(self):
        return max(abs(self.lo), abs(self.hi))

    def clip(self, v):
        return min(max(v, self.lo), self.hi)

    def contains(self, v, slack=0):
        return self.lo - slack <= v <= self.hi + slack


def rf(c, f):
    """A public float constant as the f-bit fixed-point number the runtime uses."""
    return F(round(c * 2 ** f), 2 ** f)


def sqrt_lo(q, P=48):
    return F(math.isqrt(max(0, math.floor(q * 4 ** P))), 2 ** P)


def sqrt_hi(q, P=48):
    return F(math.isqrt(max(0, math.ceil(q * 4 ** P))) + 1, 2 ** P)


def iv_pubmul(a, c, f):
    """a * c for a public float c: c rounded to f bits; truncation (< 1 unit) unless c is a whole number."""
    u = F(1, 2 ** f)
    r = a.scale(rf(c, f))
    return r if float(c).is_integer() else r.widen(u)


def iv_mean(xs, f):
    n = len(xs)
    e = n.bit_length() - 1
    t = iv_pubmul(Iv(sum(xs, F(0))), 2 ** e / n, f)
    return iv_pubmul(t, 2 ** -e, f)


def iv_sumsq(xs, m, f):
    """in_prod(y, y), y = x - m, m anywhere in the interval m: convex in m; one truncation."""
    g = lambda c: sum((x - c) ** 2 for x in xs)
    mu = sum(xs, F(0)) / len(xs)
    return Iv(g(m.clip(mu)), max(g(m.lo), g(m.hi))).widen(F(1, 2 ** f))


def iv_var(xs, m, corr, f):
    d = len(xs) - corr
    return iv_pubmul(iv_sumsq(xs, m, f), 1 / d, f)


def iv_sqrt(a, f):
    u = F(1, 2 ** f)
    return Iv(max(F(0), sqrt_lo(max(F(0), a.lo - u)) - u), sqrt_hi(a.hi + u))


def iv_div(x, y, f):
    """x / y for secure y > 0: None if the denominator interval reaches 0 (ill-conditioned)."""
    u = F(1, 2 ** f)
    if y.lo <= u:
        return None
    qs = [x.lo / y.lo, x.lo / y.hi, x.hi / y.lo, x.hi / y.hi]
    return Iv(min(qs), max(qs)).widen((x.absmax() * (4 / y.lo + 1) + 1) * u)


def iv_pair(xs, ys, f):
    n = len(xs)
    u = F(1, 2 ** f)
    xb = iv_pubmul(Iv(sum(xs, F(0))), 1 / n, f)
    yb = iv_pubmul(Iv(sum(ys, F(0))), 1 / n, f)
    corners = [sum((x - a) * (y - b) for x, y in zip(xs, ys)) for a in (xb.lo, xb.hi) for b in (yb.lo, yb.hi)]
    sxy = Iv(min(corners), max(corners)).widen(u)          # bilinear in (xbar, ybar): extremes at the corners
    return xb, yb, sxy, iv_sumsq(xs, xb, f), iv_sumsq(ys, yb, f)


def fxp_interval(fn, xs, ys, kw, f):
    """Interval(s) that must contain the fixed-point result; None = ill-conditioned (skipped)."""
    u = F(1, 2 ** f)
    if fn == 'mean':
        return iv_mean(xs, f)
    if fn in ('variance', 'stdev', 'pvariance', 'pstdev'):
        c = kw.get('center')
        m = iv_mean(xs, f) if c is None else Iv(c)
        v = iv_var(xs, m, 1 if fn in ('variance', 'stdev') else 0, f)
        return iv_sqrt(v, f) if fn in ('stdev', 'pstdev') else v
    xb, yb, sxy, sxx, syy = iv_pair(xs, ys, f)
    if fn == 'covariance':
        return iv_pubmul(sxy, 1 / (len(xs) - 1), f)
    if fn == 'correlation':
        den = iv_sqrt(sxx, f).mul(iv_sqrt(syy, f)).widen(u)
        return iv_div(sxy, den, f)
    if fn == 'linear_regression':
        slope = iv_div(sxy, sxx, f)
        if slope is None:
            return None
        return [slope, yb - slope.mul(xb).widen(u)]
    raise KeyError(fn)


# ------------------------------------------------------------------------------------------
# oracle
# ------------------------------------------------------------------------------------------

def first_mode_is_smallest(xs):
    cnt = {}
    for x in xs:
        cnt[x] = cnt.get(x, 0) + 1
    top = max(cnt.values())
    modes = [x for x in cnt if cnt[x] == top]
    return len(modes) == 1 or statistics.mode(xs) == min(modes)


def judge_value(case, got):
    """Compare an opened result with the reference. Returns None (ok) | 'skip' | (failure class, text)."""
    fn, t = case['fn'], case['t']
    kind, l, f = TYPES[t]
    xs = [frac(v) for v in case['data']]
    ys = [frac(v) for v in case['data2']] if case.get('data2') is not None else None
    kw = dict(case.get('kw') or {})
    if 'center' in kw:
        kw['center'] = frac(kw['center'])
    want = ref_value(fn, xs, ys, kw)
    if want is None:
        return 'skip'
    if isinstance(want, tuple) and want[0] == 'raises':
        if isinstance(got, tuple) and got and got[0] == 'raises':
            return None if got[1] == want[1] else ('exception-type', f'raises {got[1]} ({got[2]:.80}), Python raises {want[1]}')
        return ('no-exception', f'gives {got!r:.80}, Python raises {want[1]}')
    if isinstance(got, tuple) and got and got[0] == 'raises':
        return ('exception', f'raises {got[1]}: {got[2]:.120}')
    try:
        gl = [F(g) for g in got] if isinstance(got, list) else F(got)
    except (TypeError, ValueError):
        return ('type', f'gives {got!r:.80}')
    if isinstance(want, list) != isinstance(gl, list) or (isinstance(want, list) and len(want) != len(gl)):
        return ('shape', f'gives {got!r:.80}, reference {want!r:.80}')
    if fn == 'mode':
        if gl != want:
            cls = 'value' if first_mode_is_smallest(xs) else 'multimodal-first-encountered-is-not-smallest'
            if cls != 'value':
                # known region: the code returns the smallest of the most frequent values; that much is still demanded
                top = max(xs.count(v) for v in xs)
                if gl != min(v for v in xs if xs.count(v) == top):
                    cls = 'multimodal:not-the-smallest-mode-either'
            return (cls, f'gives {got}, Python gives {float(want):g} (first encountered among the most frequent)')
        return None
    if kind == 'int':
        if fn in ('stdev', 'pstdev'):
            ok = {math.isqrt(v) for v in (math.floor(want + F(1, 2)), math.ceil(want - F(1, 2))) if v >= 0}
            return None if gl in ok else ('value', f'gives {got}, integer square root of the rounded variance {float(want):.4f} is {sorted(ok)}')
        if fn in ('mean', 'variance', 'pvariance'):
            tol, strict = F(1, 2), False            # documented: rounded to the nearest integer
        elif fn in ('median_low', 'median_high') or (fn == 'median' and len(xs) % 2):
            tol, strict = F(0), False
        else:
            tol, strict = F(1), True                # undocumented integer rounding: an adjacent integer
        pairs = list(zip(gl, want)) if isinstance(want, list) else [(gl, want)]
        for g, w in pairs:
            d = abs(g - w)
            if d > tol or (strict and d >= tol):
                return ('value', f'gives {got}, exact value {[float(w) for w in want] if isinstance(want, list) else float(want)} '
                                 f'(allowed error {"<" if strict else "<="} {float(tol)})')
        return None
    # fixed point
    u = F(1, 2 ** f)
    if fn in ('median_low', 'median_high') or (fn == 'median' and len(xs) % 2):
        return None if gl == want else ('value', f'gives {got}, Python gives {float(want)}')
    if fn == 'median':
        return None if abs(gl - want) <= u else ('value', f'gives {got}, Python gives {float(want)} (allowed 1 unit: one truncation)')
    if fn == 'quantiles':
        n = kw.get('n', 4)
        terms = quantile_terms(sorted(xs), n, kw.get('method', 'exclusive'))
        if [b + tm / n for b, tm in terms] != want:
            raise RuntimeError('harness: quantile terms')
        for g, w, (b, tm) in zip(gl, want, terms):
            tol = abs(tm) * abs(rf(1 / n, f) - F(1, n)) + (u if tm else 0)     # (diff*delta) * round_f(1/n), one truncation
            if abs(g - w) > tol:
                return ('value', f'gives {[float(x) for x in gl]}, Python gives {[float(x) for x in want]} (allowed {float(tol / u):.2f} units)')
        return None
    iv = fxp_interval(fn, xs, ys, kw, f)
    if iv is None:
        return 'skip'
    if fn in ('stdev', 'pstdev'):
        exact = [sqrt_lo(want)]
        slack = F(1, 2 ** 40)
    elif fn == 'correlation':
        _, sxy, sxx, syy = want
        exact = [sxy / sqrt_hi(sxx * syy) if sxy >= 0 else sxy / sqrt_lo(sxx * syy)]
        slack = F(1, 2 ** 30)
    else:
        exact = want if isinstance(want, list) else [want]
        slack = 0
    ivs = iv if isinstance(iv, list) else [iv]
    gls = gl if isinstance(gl, list) else [gl]
    for g, i, e in zip(gls, ivs, exact):
        # the interval bounds the computed value (it is centred on the formula with the ROUNDED public constants 1/n, 1/d, 2^e/n);
        # the accepted range is its hull with the exact value, so the tolerance is never tighter than the roundings allow
        lo, hi = min(i.lo, e - slack), max(i.hi, e + slack)
        if not lo <= g <= hi:
            return ('value', f'gives {[float(x) for x in gls]}, Python gives {[round(float(x), 6) for x in exact]}, outside the rounding interval '
                             f'[{float(lo):.5f}, {float(hi):.5f}] ({float(abs(g - e) / u):.1f} units off)')
    return None


# ------------------------------------------------------------------------------------------
# calling the real functions
# ------------------------------------------------------------------------------------------

def sectype(mpc, t):
    kind, l, f = TYPES[t]
    return mpc.SecInt(l) if kind == 'int' else mpc.SecFxp(l, f)


def plain_input(t, v):
    v = frac(v)
    return int(v) if TYPES[t][0] == 'int' else float(v)


def call_stat(st, case, x, y, center):
    fn = case['fn']
    kw = case.get('kw') or {}
    form = case.get('form', 'list')
    if form == 'tuple':
        x = tuple(x)
        y = tuple(y) if y is not None else None
    elif form == 'iter':
        x = iter(x)
    f = getattr(st, fn)
    if fn == 'quantiles':
        return f(x, **{k: kw[k] for k in ('n', 'method') if k in kw})
    if fn in ('variance', 'stdev', 'pvariance', 'pstdev'):
        return f(x) if center is None else f(x, center)
    if fn in FNS2:
        r = f(x, y)
        return list(r) if fn == 'linear_regression' else r
    return f(x)


def center_arg(st, case, x, T):
    """The optional xbar / mu argument: None | the secure mean | a constant of the alphabet."""
    c = (case.get('kw') or {}).get('centerspec')
    if c is None:
        return None
    if c == 'mean':
        return st.mean(list(x))
    return T(plain_input(case['t'], c))


class Windows:
    """Records which random draws (indices in the seam's log) are the pivot / tie-break bits: the draws made by
    runtime.random_bits / random.random_unit_vector when called from mpyc.statistics (names rebound in that module only)."""

    w = []            # one recorder per process

    def __init__(self, st, seam):
        rec = Windows.w

        class Proxy:
            def __init__(self, real, name):
                self.__dict__['_real'] = real
                self.__dict__['_name'] = name

            def __getattr__(self, attr):
                v = getattr(self._real, attr)
                if attr != self._name:
                    return v

                def recorded(*a, **k):
                    lo = len(seam.log)
                    r = v(*a, **k)
                    rec.extend(range(lo, len(seam.log)))
                    return r
                return recorded
        if not hasattr(st.runtime, '_real'):
            st.runtime = Proxy(st.runtime, 'random_bits')
            st.random = Proxy(st.random, 'random_unit_vector')


def install_guard(mpc, seam):
    """Excluded event (named in ASSUMPTIONS): runtime.trunc called on a list of field elements with l = bit_length (scalar_mul,
    schur_prod, prod, matrix_prod) offsets by 2^(l-1) although the products carry 2f fractional bits; a negative product is then
    truncated wrongly iff the statistical mask quotient q < (|x| - 2^(l-1)) / 2^f -- probability about 2^-(k+l-2f-2) per
    product of magnitude <= 4.  Like the zero blinding factor of is_zero_public this is forced not to happen, and counted."""
    import sys
    if getattr(seam, '_c34_guard', None) is not None:
        return
    seam._c34_guard = 0
    orig = seam._decide
    SecureObject = mpc.SecureObject

    def decide(kind, n):
        v = orig(kind, n)
        if kind != 'below' or n < 4:
            return v
        fr = sys._getframe(1)
        depth = 0
        while fr is not None and depth < 14:
            if fr.f_code.co_name == 'trunc' and 'sftype' in fr.f_locals:
                loc = fr.f_locals
                sft, f = loc.get('sftype'), loc.get('f')
                if isinstance(f, int) and f > 0 and isinstance(sft, type) and not issubclass(sft, SecureObject):
                    thr = 1 << (f + 2)
                    if v < thr and n >= 4 * thr:
                        v += thr
                        seam.log[-1] = (kind, n, v)
                        seam._c34_guard += 1
                break
            fr = fr.f_back
            depth += 1
        return v
    seam._decide = decide


def eval_sp(mpc, seam, win, case, mode, seed, script):
    """Run one case; returns (opened result | ('raises', ..), draws made, choice draw indices)."""
    from mc import sp
    st = mpc.statistics
    T = sectype(mpc, case['t'])
    seam.begin('seeded' if mode == 'seeded2' else mode, seed + (1 if mode == 'seeded2' else 0), script)
    win.w.clear()
    try:
        x = [T(plain_input(case['t'], v)) for v in case['data']]
        y = [T(plain_input(case['t'], v)) for v in case['data2']] if case.get('data2') is not None else None
        center = center_arg(st, case, x, T)
        cplain = None
        if center is not None:
            cplain = F(sp.opened(mpc, center))
        win.w.clear()
        lo = len(seam.log)
        r = call_stat(st, case, x, y, center)
        got = (sp.opened(mpc, r) if r else []) if isinstance(r, list) else sp.opened(mpc, r)
    except Exception as exc:
        return ('raises', type(exc).__name__, repr(exc)), len(seam.log), [], None
    return got, len(seam.log), list(win.w), cplain


def with_center(case, cplain):
    if cplain is None:
        return case
    c = dict(case)
    c['kw'] = dict(case.get('kw') or {})
    c['kw']['center'] = enc(cplain)
    return c


def case_key(case, cls):
    fn, t = case['fn'], case['t']
    kw = case.get('kw') or {}
    extra = ''
    if fn == 'quantiles':
        extra = f":{kw.get('method', 'exclusive')}"
    if kw.get('centerspec') is not None:
        extra = ':given-' + ('mu' if fn.startswith('p') else 'xbar')
    if case.get('form', 'list') != 'list' and cls == 'exception':
        return f"C34:{fn}:{case['form']}-data:exception"
    return f"C34:{fn}:{TYPES[t][0]}{extra}:{cls}"


def describe(case):
    kw = {k: v for k, v in (case.get('kw') or {}).items() if k != 'center'}
    d = [float(frac(v)) if TYPES[case['t']][0] != 'int' else v for v in case['data']]
    s = f"{case['fn']}({d}"
    if case.get('data2') is not None:
        s += f", {[float(frac(v)) if TYPES[case['t']][0] != 'int' else v for v in case['data2']]}"
    if kw:
        s += ', ' + ', '.join(f'{k}={v}' for k, v in kw.items())
    return s + f") [{case['t']}{', ' + case['form'] if case.get('form', 'list') != 'list' else ''}]"


def check_case(part, cfg, case, got, draws, cplain, detail, base=None):
    """Judge one evaluation; returns the judged result (for the independence checks)."""
    c = with_center(case, cplain)
    res = judge_value(c, got)
    if res == 'skip':
        part.note('skipped_ill_conditioned', 1)
        return False
    part.case(key=None, nontrivial=draws > 0)
    part.outcomes.add(stable_hash((case['fn'], repr(got))) & 0xffffff)
    if res is not None:
        part.violation(case_key(case, res[0]), f'[{cfg}] {describe(case)} {res[1]}', detail)
    elif base is not None and TYPES[case['t']][0] == 'int' and repr(got) != repr(base):
        part.violation(case_key(case, 'depends-on-random-bits'), f'[{cfg}] {describe(case)} gives {got!r} and {base!r} for different pivot / tie-break bits', detail)
    return True


# ------------------------------------------------------------------------------------------
# case enumeration
# ------------------------------------------------------------------------------------------

def alpha(t):
    return INT_ALPHA if TYPES[t][0] == 'int' else FINE_ALPHA if t == 'fxpf' else FXP_ALPHA


def cases_for(fn, t, size, tier):
    """All cases of one function on all data sets of one size."""
    A = alpha(t)
    if fn == 'mode' and TYPES[t][0] != 'int':
        A = tuple(F(v) for v in INT_ALPHA)            # integral fixed-point data
    if size == 5 and tier == 'quick' and fn != 'mean':
        A = (A[0], A[2], A[3])                        # quick: three-point alphabet at size 5
    out = []
    if size >= 10:
        # long data (quantiles only): two order statistics far apart are selected by quickselect in ONE call; their bookkeeping
        # must keep them in ascending order whatever the size (13 and 14 points: cut positions (4, 8) and (4, 9) for n = 3)
        base_vals = list(range(-(size // 2), size - size // 2))
        sets = [base_vals, base_vals[::-1], base_vals[1::2] + base_vals[0::2]]
        for data in sets:
            d = [enc(F(v)) if TYPES[t][0] != 'int' else enc(v) for v in data]
            for n in (2, 3, 4):
                for method in ('exclusive', 'inclusive'):
                    out.append(dict(fn=fn, t=t, data=d, form='list', kw=dict(n=n, method=method)))
        return out
    for data in itertools.product(A, repeat=size):
        d = [enc(v) for v in data]
        forms = ('list', 'tuple', 'iter') if size <= 2 else ('list',)
        for form in forms:
            base = dict(fn=fn, t=t, data=d, form=form)
            if fn == 'quantiles':
                if size < 2:
                    continue
                for n in (1, 2, 3, 4, 5):
                    for method in ('exclusive', 'inclusive'):
                        out.append(dict(base, kw=dict(n=n, method=method)))
            elif fn in ('variance', 'stdev', 'pvariance', 'pstdev'):
                if size < (2 if fn in ('variance', 'stdev') else 1):
                    continue
                specs = [None, 'mean']
                if fn == 'pvariance' or (fn == 'pstdev' and (size <= 3 or tier == 'thorough')):
                    specs += [enc(a) for a in alpha(t)]          # second moment about any point (documented for mu)
                for c in specs:
                    if form != 'list' and c not in (None, 'mean'):
                        continue
                    out.append(dict(base, kw=dict(centerspec=c)))
            else:
                out.append(base)
    return out


def pair_cases(fn, t, size, tier):
    if TYPES[t][0] == 'int':
        A = INT_ALPHA
    else:
        A = (F(-1), F(0), F(1, 2)) if tier == 'quick' else (F(-1), F(0), F(1, 2), F(1))
    out = []
    sets = list(itertools.product(A, repeat=size))
    for xs in sets:
        for ys in sets:
            out.append(dict(fn=fn, t=t, data=[enc(v) for v in xs], data2=[enc(v) for v in ys]))
    return out


def error_cases():
    """Invalid inputs: documented=True must raise StatisticsError."""
    out = []
    for t in ('int', 'fxp'):
        for fn in ('mean', 'median', 'median_low', 'median_high', 'mode', 'pvariance', 'pstdev'):
            out.append((dict(fn=fn, t=t, data=[]), True))
        for fn in ('variance', 'stdev'):
            out.append((dict(fn=fn, t=t, data=[]), True))
            out.append((dict(fn=fn, t=t, data=[1]), True))
            out.append((dict(fn=fn, t=t, data=[1], kw=dict(centerspec=0)), True))
        out.append((dict(fn='quantiles', t=t, data=[0, 1], kw=dict(n=0)), False))
        out.append((dict(fn='quantiles', t=t, data=[0, 1], kw=dict(n=-1)), False))
        out.append((dict(fn='quantiles', t=t, data=[1], kw=dict(n=4)), False))
        out.append((dict(fn='quantiles', t=t, data=[], kw=dict(n=4)), False))
        for fn in (('covariance',) if t == 'int' else FNS2):
            out.append((dict(fn=fn, t=t, data=[], data2=[]), False))
            out.append((dict(fn=fn, t=t, data=[1], data2=[1]), False))
            out.append((dict(fn=fn, t=t, data=[1, 0], data2=[1]), False))
            out.append((dict(fn=fn, t=t, data=[1], data2=[0, 1]), False))
    return out


def groups(tier):
    """(function, type, size) groups with the number of cases (for load balancing)."""
    gs = []
    ts = ('int', 'fxp') if tier == 'quick' else ('int', 'fxp', 'fxp8')
    for t in ts:
        for fn in FNS1:
            top = 5 if fn in ('mean', 'median', 'median_low', 'median_high', 'mode') else 4
            if t == 'fxp8':
                top = 3 if (fn in ORDER_FNS or fn == 'mode') else 4
            for size in range(1, top + 1):
                gs.append(('single', fn, t, size))
    for fn in (ORDER_FNS[:3] if tier == 'quick' else ORDER_FNS):
        for size in ((1, 2, 3) if tier == 'quick' else (1, 2, 3, 4)):
            gs.append(('single', fn, 'fxpf', size))
    for size in (13, 14):
        gs.append(('single', 'quantiles', 'int', size))
    for size in (2, 3):
        gs.append(('pair', 'covariance', 'int', size))
        for fn in FNS2:
            gs.append(('pair', fn, 'fxp', size))
    return gs


def group_cases(g, tier):
    kind, fn, t, size = g
    return cases_for(fn, t, size, tier) if kind == 'single' else pair_cases(fn, t, size, tier)


# ------------------------------------------------------------------------------------------
# engines
# ------------------------------------------------------------------------------------------

def uses_random(case):
    return case['fn'] in ORDER_FNS or case['fn'] == 'mode' or case['fn'] in ('stdev', 'pstdev', 'correlation', 'linear_regression') \
        or TYPES[case['t']][0] != 'int'


def run_sp(job):
    from mc import sp
    part = Part()
    k = job['k']
    mpc, seam = sp.setup(sec_param=k, no_prss=True)
    win = Windows(mpc.statistics, seam)
    install_guard(mpc, seam)
    guard0 = seam._c34_guard
    cfg = f'sp/k{k}'
    ncases = 0
    for g in job['groups']:
        g = tuple(g)
        cases = group_cases(g, job['tier'])
        for case in cases[job['part']::job['parts']]:
            ncases += 1
            detail = dict(engine='sp', k=k, case=case, mode='seeded', script={}, seed=job['seed'])
            got, draws, choices, cplain = eval_sp(mpc, seam, win, case, 'seeded', job['seed'], None)
            if not check_case(part, cfg, case, got, draws, cplain, detail):
                continue
            if draws == 0 or not uses_random(case):
                continue
            for mode in (('zero', 'max', 'seeded2') if job['tier'] == 'thorough' else ('zero', 'max') if len(case['data']) <= 3 else ('max',)):
                g2, d2, _, c2 = eval_sp(mpc, seam, win, case, mode, job['seed'], None)
                check_case(part, cfg + '/' + mode, case, g2, d2, c2, dict(detail, mode=mode), base=got)
            K = job['K'].get(('q' if case['fn'] == 'quantiles' else 'm') + str(len(case['data'])), 0) if case['fn'] in ORDER_FNS else 0
            if K and choices:
                explore_choices(part, mpc, seam, win, cfg, case, got, K, job['seed'])
            if len(part.samples) < 2 and case['fn'] in ('median', 'stdev') and len(case['data']) == 3:
                part.sample(dict(config=cfg, call=describe(case), result=repr(got), random_draws=draws, pivot_tie_bits=len(choices)))
    part.note('cases_enumerated', ncases)
    part.note('short_truncation_masks_forced', seam._c34_guard - guard0)
    return part


def explore_choices(part, mpc, seam, win, cfg, case, base, K, seed):
    """Stateless search over the outcomes of the first K pivot / tie-break bits (draws made from mpyc.statistics)."""
    stack = [({}, 0)]
    leaves = 0
    while stack:
        script, depth = stack.pop()
        got, draws, choices, cplain = eval_sp(mpc, seam, win, case, 'seeded', seed, dict(script))
        leaves += 1
        detail = dict(engine='sp', k=seam.sec_param, case=case, mode='seeded', script={str(a): b for a, b in script.items()}, seed=seed)
        check_case(part, cfg + '/bits', case, got, draws, cplain, detail, base=base)
        if isinstance(got, tuple) and got and got[0] == 'raises':
            continue
        for p in range(depth, min(K, len(choices))):
            idx = choices[p]
            s2 = dict(script)
            for q in range(depth, p):                     # keep the decisions taken on the way
                s2[choices[q]] = seam.log[choices[q]][2]
            s2[idx] = 1 - seam.log[idx][2]
            stack.append((s2, p + 1))
    part.note('pivot_tiebreak_leaves', leaves)
    part.note_max('max_leaves_per_case', leaves)


def run_errors(job):
    from mc import sp
    part = Part()
    mpc, seam = sp.setup(sec_param=job['k'], no_prss=True)
    win = Windows(mpc.statistics, seam)
    mismatches = []
    for case, documented in error_cases():
        got, draws, _, cplain = eval_sp(mpc, seam, win, case, 'seeded', job['seed'], None)
        want = ref_value(case['fn'], [frac(v) for v in case['data']], [frac(v) for v in case['data2']] if case.get('data2') is not None else None,
                         {k: v for k, v in (case.get('kw') or {}).items() if k in ('n', 'method')})
        part.case(key=None, nontrivial=True)
        part.outcomes.add(stable_hash(repr(got)[:40]) & 0xffff)
        same = isinstance(got, tuple) and got[0] == 'raises' and isinstance(want, tuple) and got[1] == want[1]
        if documented and not same:
            what = f'raises {got[1]}: {got[2]:.100}' if isinstance(got, tuple) and got and got[0] == 'raises' else f'gives {got!r:.60}'
            part.violation(case_key(case, 'documented-exception'), f'[sp] {describe(case)} {what}; documented (and Python): StatisticsError',
                           dict(engine='errors', k=job['k'], seed=job['seed']))
        elif not same:
            mismatches.append(describe(case) + f' -> {got!r:.80}')
    part.note('undocumented_exception_cases_differing_from_python', mismatches)
    return part


# -- multi-party ---------------------------------------------------------------------------

def mp_cases(tier):
    ints = [[1], [2, 1], [1, 2], [-2, 2, 1], [0, 0, 0], [2, -1, 1, 1], [1, 1, 2, 2], [-2, -1, 0, 1, 2], [2, 2, 0, 0, 1], [-1, -1]]
    fx = [[F(1, 2)], [F(1), F(1, 2)], [F(-1), F(1), F(0)], [F(1, 2), F(1, 2), F(1, 2)], [F(-1), F(-1, 2), F(0), F(1, 2)], [F(1), F(-1), F(1), F(-1)],
          [F(0), F(1, 2), F(1), F(-1), F(1, 2)], [F(-1, 2), F(-1, 2)], [F(1), F(0), F(0), F(1, 2)], [F(0), F(-1)]]
    if tier == 'thorough':
        ints += [[0, 2, -2, 0], [1, -2], [2, 0, 1], [-1, 2, 2, -1, 0]]
        fx += [[F(1), F(1), F(-1, 2)], [F(-1), F(1, 2)], [F(1, 2), F(0), F(-1, 2), F(1)], [F(0), F(0), F(1), F(1), F(-1)]]
    out = []
    for t, sets in (('int', ints), ('fxp', fx)):
        for data in sets:
            d = [enc(v) for v in data]
            n = len(d)
            for fn in FNS1:
                if n > 4 and fn not in ('mean', 'median', 'median_low', 'median_high', 'mode'):
                    continue
                if fn == 'mode' and t != 'int':
                    continue
                if fn == 'quantiles':
                    if n >= 2:
                        for nn, method in ((4, 'exclusive'), (4, 'inclusive'), (3, 'exclusive'), (2, 'inclusive'), (5, 'exclusive')):
                            out.append(dict(fn=fn, t=t, data=d, kw=dict(n=nn, method=method)))
                elif fn in ('variance', 'stdev', 'pvariance', 'pstdev'):
                    if n >= (2 if fn in ('variance', 'stdev') else 1):
                        out.append(dict(fn=fn, t=t, data=d, kw=dict(centerspec=None)))
                        if fn in ('variance', 'pstdev'):
                            out.append(dict(fn=fn, t=t, data=d, kw=dict(centerspec='mean')))
                else:
                    out.append(dict(fn=fn, t=t, data=d))
        pairs = [(a, b) for a in sets for b in sets if len(a) == len(b) and 2 <= len(a) <= 3]
        for a, b in pairs:
            for fn in (('covariance',) if t == 'int' else FNS2):
                out.append(dict(fn=fn, t=t, data=[enc(v) for v in a], data2=[enc(v) for v in b]))
    out.append(dict(fn='mode', t='fxp', data=[2, 1, 1, -2]))
    return out


async def mp_program(mpc, ctx):
    await mpc.start()
    st = mpc.statistics
    m = len(mpc.parties)
    res = []
    for idx, case in enumerate(ctx['cases']):
        sender = idx % m
        T = sectype(mpc, case['t'])
        try:
            x = mpc.input([T(plain_input(case['t'], v)) for v in case['data']], senders=sender)
            y = mpc.input([T(plain_input(case['t'], v)) for v in case['data2']], senders=sender) if case.get('data2') is not None else None
            center = center_arg(st, case, x, T)
            cplain = None
            if center is not None:
                cplain = enc(F(await mpc.output(center)))
            r = call_stat(st, case, x, y, center)
            got = await mpc.output(r) if (not isinstance(r, list) or r) else []
        except Exception as exc:
            got, cplain = ('raises', type(exc).__name__, repr(exc)), None
        res.append((got, cplain))
        if idx % 6 == 5:
            await mpc.barrier()
    ctx['results'] = res
    await mpc.shutdown()


def run_mp(job):
    from mc import exact
    from mc.explorer import run_execution
    part = Part()
    m, t, no_prss = job['m'], job['t'], job['no_prss']
    k = 24          # large enough that the excluded short-truncation-mask event (see install_guard) has probability < 2^-20 per run
    world = exact.make_world(m, t, no_prss, k)
    seams = world.script_seams
    cases = mp_cases(job['tier'])
    idxs = list(range(len(cases)))[job['part']::job['parts']]
    if 'only' in job:
        idxs = [job['only']]
    cfg = f"mp/m{m}t{t}{'-noprss' if no_prss else ''}/k{k}"
    batch = 18
    for lo in range(0, len(idxs), batch):
        chunk = idxs[lo:lo + batch]
        for pat in job['patterns']:
            ctxs = []

            def setup(w):
                ctxs.clear()
                w.mask_pattern = pat
                w.pattern_budget = 400 * len(chunk)
                w.pattern_decisions = {}
                for i, s in enumerate(seams):
                    s.begin(pat, job['seed'] * 100 + i, None)
                for p in range(m):
                    ctxs.append(dict(cases=[cases[i] for i in chunk]))
                    w.spawn(p, mp_program, ctxs[p])
            for i, s in enumerate(seams):
                s.begin(pat, job['seed'] * 100 + i, None)
            xres = run_execution(world, setup, (), 'eager', 'none', sched_alts=False)
            part.transitions += xres.nsteps
            if xres.status != 'done' or any('results' not in c for c in ctxs):
                part.violation('C34:mp:incomplete', f'[{cfg}] batch starting with {describe(cases[chunk[0]])} ends {xres.status}: {world.loop_errors!r:.300}',
                               dict(engine='mp', job={**job, 'patterns': [pat]}, lo=lo))
                continue
            for ci, ix in enumerate(chunk):
                case = cases[ix]
                gots = [c['results'][ci] for c in ctxs]
                detail = dict(engine='mp', job={k2: v for k2, v in job.items() if k2 != 'only'}, only=ix, pat=pat)
                if any(repr(g) != repr(gots[0]) for g in gots):
                    part.case(key=None)
                    part.violation(case_key(case, 'parties-differ'), f'[{cfg}] {describe(case)}: parties obtained {gots!r:.300}', detail)
                    continue
                got, cplain = gots[0]
                check_case(part, cfg + '/' + pat, case, got, 1, frac(cplain) if cplain is not None else None, detail)
                if len(part.samples) < 1 and case['fn'] == 'median' and len(case['data']) == 4:
                    part.sample(dict(config=cfg, call=describe(case), per_party=[repr(g[0]) for g in gots]))
    return part


# ------------------------------------------------------------------------------------------
# jobs
# ------------------------------------------------------------------------------------------

def jobs(tier, seed):
    out = []
    quick = tier == 'quick'
    K = {'m2': 5, 'm3': 4, 'q2': 3, 'q3': 2} if quick else {'m2': 8, 'm3': 7, 'm4': 5, 'q2': 5, 'q3': 4, 'q4': 2}
    gs = groups(tier)
    weights = []
    for g in gs:
        kind, fn, t, size = g
        n = (3 if (size == 5 and quick and fn != 'mean') else len(alpha(t))) ** size if kind == 'single' else (len(group_cases(g, tier)))
        w = n * {'quantiles': 40, 'median': 8, 'median_low': 5, 'median_high': 5, 'mode': 6, 'stdev': 8, 'pstdev': 20, 'pvariance': 8, 'variance': 3,
                 'mean': 1, 'covariance': 1, 'correlation': 16, 'linear_regression': 6}[fn]
        kk = K.get(('q' if fn == 'quantiles' else 'm') + str(size), 0) if fn in ORDER_FNS else 0
        if kk:
            w *= 2 ** max(0, kk - 2)
        weights.append(w)
    total = sum(weights)
    nbins = 44
    target = total / nbins
    units = []
    for g, w in zip(gs, weights):
        parts = max(1, round(w / target))
        for p in range(parts):
            units.append(dict(engine='sp', k=4, groups=[list(g)], part=p, parts=parts, tier=tier, seed=seed, K=K, weight=w / parts))
    # greedy bin packing of the units into nbins jobs (largest first into the lightest bin)
    units.sort(key=lambda u: (-u['weight'], repr(u['groups']), u['part']))
    bins = [[] for _ in range(nbins)]
    loads = [0.0] * nbins
    for u in units:
        i = min(range(nbins), key=lambda b: (loads[b], b))
        bins[i].append(u)
        loads[i] += u['weight']
    for b, load in zip(bins, loads):
        if b:
            out.append(dict(engine='spmulti', subs=b, weight=load))
    # mode depends on sec_param (PRIV = sec_param // 6 bits of the range are not revealed): second parameter
    mg = [list(g) for g in gs if g[1] == 'mode']
    nm = 2 if quick else 4
    for p in range(nm):
        out.append(dict(engine='sp', k=12, groups=mg, part=p, parts=nm, tier=tier, seed=seed, K={}, weight=total))
    out.append(dict(engine='errors', k=4, tier=tier, seed=seed, weight=0))
    for no_prss in (False, True):
        nparts = 4
        for p in range(nparts):
            out.append(dict(engine='mp', m=3, t=1, no_prss=no_prss, part=p, parts=nparts, tier=tier, seed=seed,
                            patterns=['seeded'] if quick else ['seeded', 'max'], weight=total))
    out.sort(key=lambda j: -j['weight'])
    return out


def run_job(job):
    if job['engine'] == 'sp':
        return run_sp(job)
    if job['engine'] == 'spmulti':
        part = Part()
        for sub in job['subs']:
            part.merge(run_sp(sub))
        return part
    if job['engine'] == 'errors':
        return run_errors(job)
    return run_mp(job)


def replay(case):
    from mc import sp
    part = Part()
    if case['engine'] == 'mp':
        job = dict(case['job'])
        job['only'] = case['only']
        job['patterns'] = [case['pat']]
        return run_mp(job)
    if case['engine'] == 'errors':
        return run_errors(dict(k=case['k'], seed=case['seed']))
    mpc, seam = sp.setup(sec_param=case['k'], no_prss=True)
    win = Windows(mpc.statistics, seam)
    install_guard(mpc, seam)
    script = {int(a): b for a, b in (case.get('script') or {}).items()} or None
    got, draws, _, cplain = eval_sp(mpc, seam, win, case['case'], case['mode'], case['seed'], script)
    check_case(part, 'replay', case['case'], got, draws, cplain, case)
    return part
