"""C07 -- input, output and transfer reach exactly the designated parties.  See mc/routing.py."""

from mc import routing

LEVEL = 'exploration'
RULE = ('one case = one operation (kind, sender/receiver sets or graph, payload kind / secure type, threshold, raw) in one '
        'configuration (m, t, PRSS mode, default schedule); the declared operation set is enumerated completely; '
        'non-trivial = some party is not a receiver (or an input case)')
ASSUMPTIONS = ['operations run one at a time, separated by top-level barriers; default eager/lazy schedules (schedule independence is C08)',
               'a graph given as dict has every party as key', 'world model of mc/world.py, seeded randomness']
MANIFEST = dict(level='exploration',
                technique='bounded-exhaustive enumeration of sender/receiver sets and graphs on real multi-party executions in the virtual world',
                text="Every (senders, receivers) pair of subsets, int/range/default forms, every sender->receiver graph (m<=3) as list and dict, 5 payload kinds; input by every sender subset (secint, secfld, secfxp, scalars and lists); output to every receiver subset x threshold t..2t x raw, plus secure float and group elements; executed by m=2..4 (5) real parties under eager and lazy schedules. Oracle: receivers get the senders' values in sender order, non-receivers get nothing, all receivers agree, inputs open to the sender's value.", ref='DESIGN 5/C07',
                note='trusted: world model; send monitor on Runtime._send_message cross-checked against independently parsed wire frames')


def jobs(tier, seed):
    return routing.plan('C07', tier, seed)


run_job = routing.run_job
replay = routing.replay
