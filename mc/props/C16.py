"""C16 -- PRSS keys are shared exactly among each subset's members.

The real start() of m parties is executed in the virtual world for every (m, t); every
schedule within the deviation bound (accept / delivery order, split handshakes, delayed loop
iterations; optionally refused connects with start()'s retry timer) is explored, and the key
tables of all parties are compared when all connections are up.
"""

import itertools

from mc.core import Part, stable_hash
from mc.world import World
from mc.explorer import run_execution, explore, first_level_deviations

LEVEL = 'model_checking'
RULE = ('one case = one complete execution of start()+shutdown() by m parties (m, t, connect mode, default policy, '
        'deviation list); every deviation list up to the bound in deviation_bound is enumerated, handshake deliveries '
        'split at every byte; non-trivial = at least one deviation or the default run of a configuration')
ASSUMPTIONS = ['event-loop/transport model of mc/world.py', 'keys drawn through the seeded seam (distinct per subset)',
               'schedules complete up to the deviation bound only']
MANIFEST = dict(
    level='model_checking',
    technique='stateless model checking of the real start() handshake: deviation-bounded schedule enumeration incl. every byte split',
    text='For every (m<=6 (7), t) the real connection set-up is run under all schedules with <= d deviations (d=1; 2 for m<=3(4)), '
         'in blocking-connect and refused-connect/retry mode; oracle: for every (m-t)-subset S all members hold one identical '
         '16-byte key, nobody else holds it, keys of different subsets differ, hence every t-coalition lacks a key.',
    ref='DESIGN 5/C16', note='trusted: world model, seeded token_bytes; bounded deviations')


async def prog(mpc, ctx):
    if ctx.get('set_t') is not None:
        mpc.threshold = ctx['set_t']         # the program changes the threshold before start() (as demos/parallelsort.py does)
    await mpc.start()
    ctx['keys'] = dict(getattr(mpc, '_prss_keys', {}))
    ctx['started'] = True
    await mpc.shutdown()


def jobs(tier, seed):
    out = []
    mmax = 6 if tier == 'quick' else 7
    for m in range(2, mmax + 1):
        for t in range(0, (m - 1) // 2 + 1):
            for refuse in (False, True):
                for policy in ('eager', 'lazy'):
                    if tier == 'quick':
                        bound = 2 if m == 2 else 1 if m <= 5 else 0
                    else:
                        bound = 3 if m == 2 else 2 if m <= 3 else 1
                    if refuse and policy == 'lazy' and m > 4:
                        continue
                    slices = 1 if bound == 0 or m <= 3 and bound < 2 else 8 if m <= 4 else 16
                    for k in range(slices):
                        out.append(dict(m=m, t=t, refuse=refuse, policy=policy, bound=bound, k=k, slices=slices,
                                        seed=seed, chunks='full'))
    # handshakes split on TWO connections at once (no other scheduling deviation): needs m >= 4 to have two clients
    # with different numbers of keys talking to one server
    for (m, t) in ((4, 1),) if tier == 'quick' else ((4, 1), (4, 0), (5, 1), (5, 2), (6, 2)):
        for refuse in ((False,) if tier == 'quick' else (False, True)):
            for k in range(16):
                out.append(dict(m=m, t=t, refuse=refuse, policy='eager', bound=2, k=k, slices=16, seed=seed, chunks='full', chunk_only=True))
    # threshold changed by the program (Runtime.threshold setter) after setup and before start()
    for (m, t0, t1) in ((3, 1, 0), (3, 0, 1), (4, 1, 0), (5, 2, 1), (5, 1, 2)) + (() if tier == 'quick' else ((4, 0, 1), (5, 0, 2), (6, 2, 0), (7, 3, 1))):
        for policy in ('eager', 'lazy'):
            out.append(dict(m=m, t=t1, t0=t0, refuse=False, policy=policy, bound=(1 if m <= 4 else 0) if tier == 'quick' else 1, k=0, slices=1,
                            seed=seed, chunks='full'))
    out.sort(key=lambda j: (-j['m'], -j['bound']))
    return out


def judge_keys(m, t, ctxs):
    probs = []
    tables = [c.get('keys') for c in ctxs]
    if any(tb is None for tb in tables):
        return [('start-incomplete', 'some party did not finish start()')]
    seen = {}
    for S in itertools.combinations(range(m), m - t):
        holders = [i for i in range(m) if S in tables[i]]
        if sorted(holders) != list(S):
            probs.append(('holders', f'subset {S}: key held by {holders}'))
            continue
        vals = {bytes(tables[i][S]) for i in S}
        if len(vals) != 1:
            probs.append(('mismatch', f'subset {S}: members hold different keys {[v.hex()[:8] for v in vals]}'))
            continue
        v = vals.pop()
        if len(v) != 16:
            probs.append(('length', f'subset {S}: key length {len(v)}'))
        if v in seen:
            probs.append(('reused', f'subsets {seen[v]} and {S} share one key'))
        seen[v] = S
    for i in range(m):
        extra = [S for S in tables[i] if len(S) != m - t or i not in S]
        if extra:
            probs.append(('extra', f'party {i} holds keys for {extra[:3]}'))
    # consequence stated in the property: every t-coalition lacks at least one key
    for C in itertools.combinations(range(m), t):
        known = set()
        for i in C:
            known |= set(tables[i])
        if len(known) >= len(list(itertools.combinations(range(m), m - t))) and t > 0:
            probs.append(('coalition', f'coalition {C} knows every key'))
    return probs


def run_job(job):
    part = Part()
    m, t = job['m'], job['t']
    world = World(m, job.get('t0', t), False, seed=job['seed'])
    world.refuse_mode = job['refuse']
    ctxs = []

    def setup(w):
        ctxs.clear()
        for p in range(m):
            ctxs.append({'set_t': t} if 't0' in job else {})
            w.spawn(p, prog, ctxs[p])

    sched_alts = not job.get('chunk_only')
    cfg = f"m{m}t{t}{'(set from %d)' % job['t0'] if 't0' in job else ''}/{'refuse' if job['refuse'] else 'block'}/{job['policy']}{'/chunks-only' if not sched_alts else ''}"

    def judge(w, x):
        part.case(key=(cfg, x.deviations), nontrivial=bool(x.deviations) or job['k'] == 0)
        probs = []
        if x.status != 'done':
            probs.append((x.status, f'{x.status}: start()/shutdown() did not complete'))
        probs += judge_keys(m, t, ctxs)
        for p in range(m):
            if w.loop_errors[p]:
                probs.append(('loop-error', f'party {p}: {w.loop_errors[p][:1]}'))
        part.outcomes.add(stable_hash((x.status, len(x.points), w.refused)))
        for k, what in probs:
            part.violation(f'C16:{k}', f'[{cfg}] {what}', dict(job=job, deviations=list(x.deviations)))
        if len(part.samples) < 1 and x.deviations and job['k'] == 0:
            part.sample(dict(config=cfg, deviations=list(x.deviations), status=x.status, refused_connects=w.refused,
                             subsets=len(ctxs[0].get('keys', {}))))

    if job['bound'] == 0:
        x = run_execution(world, setup, (), job['policy'], job['chunks'], record_states=True)
        judge(world, x)
        part.transitions += x.nsteps
        part.state_keys = set(x.state_keys)
        part.traces += 1
    else:
        _, fl = first_level_deviations(world, setup, job['policy'], job['chunks'], sched_alts)
        n = explore(world, setup, judge, job['bound'], first_level=fl[job['k']::job['slices']],
                    policy=job['policy'], chunks=job['chunks'], sched_alts=sched_alts, record_states=True, part=part)
        part.traces += n
    if job['k'] == 0:
        part.note('deviation_bound', {cfg: job['bound']})
    return part


def replay(case):
    part = Part()
    job = case['job']
    m, t = job['m'], job['t']
    world = World(m, job.get('t0', t), False, seed=job['seed'])
    world.refuse_mode = job['refuse']
    ctxs = []

    def setup(w):
        ctxs.clear()
        for p in range(m):
            ctxs.append({'set_t': t} if 't0' in job else {})
            w.spawn(p, prog, ctxs[p])
    x = run_execution(world, setup, [(i, a) for i, a in case['deviations']], job['policy'], job['chunks'],
                      sched_alts=not job.get('chunk_only'))
    probs = judge_keys(m, t, ctxs)
    if x.status != 'done':
        probs.append((x.status, x.status))
    for k, what in probs:
        part.violation(f'C16:{k}', what, case)
    return part
