"""C38 -- secure polynomial arithmetic (mpyc.secpols) agrees with plain polynomial arithmetic (mpyc.gfpx).

Engines (python3-vt, NumPy present):
 * sp : the real 1-party runtime, synchronous, --no-prss, every random draw scripted through the seam;
 * mp : 3 parties (t = 1) in the virtual world, PRSS on and off, on a reduced alphabet.
A secure polynomial is given by its coefficient array INCLUDING trailing zeros (the public length is only an upper bound
on the degree + 1), so the input domain is "all coefficient arrays of length 0..3", not just all polynomials.
Oracle: gfpx polynomials over the same prime field (gfpx itself is checked against an independent reference by C23);
after mpc.output the results must be equal as polynomials.  Public length: for every operation the length of the result
array must be one and the same for all inputs with the same public input lengths (and parameters).
"""

import itertools
import os

from mc.core import Part, stable_hash

for _v in ('OPENBLAS_NUM_THREADS', 'OMP_NUM_THREADS', 'MKL_NUM_THREADS'):
    os.environ.setdefault(_v, '1')

LEVEL = 'exploration'
FRESH_PROCESS_PER_JOB = True
RULE = ('one case = (prime p, operation incl. parameters, coefficient array(s) with trailing zeros, configuration, mask script). '
        'thorough: GF(5): ALL pairs of arrays of length <= 3 (156^2) for every binary operation; GF(7): all 400^2 pairs for + - * == != '
        '// % < gcd; the other call forms (divmod, <= > >=, static mod, public operands) and gcdext/invert/powmod/if_else on all pairs '
        'of length <= 2 plus the length-3 arrays over {0,1,3,6} (121^2); GF(509): arrays over {0,1,2,254,508} (length <= 2) and {0,1,508} (length 3); every unary '
        'operation x every parameter value on all arrays.  quick: GF(5) all pairs of length <= 2 (ring operations also with the length-3 '
        'arrays over {0,1,4}; gcdext/invert/powmod on arrays over {0,1,4}); GF(7), GF(509) arrays over {0,1,p-1}.  Masks: seeded for every case; all-zero / all-max for the pairs over {0,1,p-1} of '
        'length <= 2 (quick) / all pairs of length <= 2 (thorough, GF(5)).  Documented preconditions (divisor != 0, inverse exists, '
        '-1 <= secret d <= len-1) not met => case not evaluated, except that the documented exceptions are demanded. '
        'non-trivial = the operation drew randomness or has more than one party or a non-constant operand')
ASSUMPTIONS = [
    'oracle: mpyc.gfpx (checked independently by C23); comparison after mpc.output as gfpx polynomials / field elements mod p',
    'gcdext: (d, s, t) must equal gfpx.gcdext exactly (the repository tests demand the same); if only the cofactors differ while '
    's*a + t*b == d holds, the violation key says so (cofactors-differ)',
    'public length: checked as invariance (one result length per operation and public input lengths) -- the module documents '
    'no closed formula; the observed table is written to the evidence',
    'documented precondition "p must be sufficiently large compared to the degree bound": secpols needs every intermediate length '
    '< p (e.g. _div encodes the degree + 1 <= len in GF(p)); over GF(5) the squarings inside powmod(a, n, b), |n| >= 2, of length-3 '
    'operands reach length 5 and are not evaluated (observed there: quotient 0); all other cases keep lengths < p',
    'excluded event: blinding factor 0 in is_zero_public (forced non-zero by the seam); GF(509) runs with sec_param 5 so that it is a '
    '"medium" field (bits // k = 1): with k = 4 it would count as large, where _div draws its unit s without the non-zero loop and fails '
    'an assertion with probability 1/p (observed once: powmod(0, -2, 1))',
    'multi-party runs use the default eager schedule; m=3, t=1 stands for all configurations',
    'excluded event (several parties): secpols converts GF(p) values to SecInt(l) with l = 1 + bits(p) (l = bits(p) + 2 in _lt); the value '
    'c - sum_S r_S handed to runtime._mod can be as low as -C(m,t)(p-1), below -2^l, and is then only reduced correctly if the statistical '
    'mask r_divb of _mod is at least about C(m,t) - 2 (probability about C(m,t)/2^k per conversion).  With k = 4 and the all-zero mask '
    'pattern this makes gcd/gcdext/invert/powmod/< wrong (observed); the multi-party runs therefore use k = 20 and the seeded / all-max '
    'patterns only.  With one party the reduction is exact for every mask (2^l >= 2p), so the single-party engine keeps all-zero masks',
]
MANIFEST = dict(
    level='exploration',
    technique='bounded-exhaustive enumeration of coefficient arrays (with trailing zeros) and protocol masks on the real runtime against gfpx',
    text='Secure polynomials over GF(5), GF(7), GF(509): all pairs of coefficient arrays of length <= 3 (GF(5); GF(7) for the ring, '
         'division, comparison and gcd operations) through + - * // % divmod << >> ** powmod gcd gcdext invert == != < <= > >= '
         'if_else/if_swap, evaluation at public and secret points, degree/monic/reverse/truncate/getitem/is_irreducible/copy, '
         'constructors and input/output, with public gfpx operands on either side; results equal gfpx after output; the public '
         'result length is the same for all secrets of equal public lengths; then 3-party runs with and without PRSS.',
    ref='DESIGN 5/C38', note='trusted: gfpx as oracle (C23), randomness seam, world model')

PRIMES = (5, 7, 509)
K_SP = {5: 4, 7: 4, 509: 5}      # GF(509) with k = 5: 9 // 5 = 1, the medium-field paths (k = 4 would make it a 'large' field, whose
                                  # protocols accept failure probability 1/p)
K_MP = 20


# ------------------------------------------------------------------------------------------------------------------
# domains
# ------------------------------------------------------------------------------------------------------------------

def arrays(alpha, maxlen, minlen=0):
    out = []
    for n in range(minlen, maxlen + 1):
        out += list(itertools.product(alpha, repeat=n))
    return out


def edge(p):
    return [0, 1, p - 1]


def domains(p, tier):
    d = _domains(p, tier)
    d.setdefault('mid2', d['mid'])
    return d


def _domains(p, tier):
    """dict: 'all' (unary + cheap binary), 'mid' (// % < gcd), 'mid2' (their other call forms), 'heavy' (gcdext/invert/
    powmod/if_else), 'modes'."""
    full = list(range(p))
    e = edge(p)
    extra3 = [(1, 0, e[2]), (0, 0, 1), (e[2], 1, 0), (0, 0, 0)]
    if p == 5:
        if tier == 'thorough':
            a = arrays(full, 3)
            return dict(all=a, mid=a, heavy=a, modes=arrays(full, 2))
        return dict(all=arrays(full, 2) + arrays(e, 3, 3), mid=arrays(full, 2) + extra3 + [(1, 1, 1), (0, e[2], 1)],
                    heavy=arrays(e, 2) + extra3 + [(2, 1, e[2])], modes=arrays(e, 2))
    if p == 7:
        if tier == 'thorough':
            a = arrays(full, 3)
            h = arrays(full, 2) + arrays([0, 1, 3, 6], 3, 3)
            return dict(all=a, mid=a, mid2=h, heavy=h, modes=arrays(e, 2))
        return dict(all=arrays(e, 3), mid=arrays(e, 2) + extra3, heavy=arrays(e, 2), modes=arrays(e, 1))
    if tier == 'thorough':
        a = arrays([0, 1, 2, 254, 508], 2) + arrays(e, 3, 3)
        return dict(all=a, mid=a, heavy=arrays(e, 2) + arrays([1, 508], 3, 3), modes=arrays(e, 2))
    a = arrays(e, 2) + extra3
    return dict(all=a, mid=a, heavy=arrays(e, 1) + [(1, 508), (0, 1), (508, 1, 0)], modes=arrays(e, 1))


def points(p):
    return list(range(p)) if p <= 7 else [0, 1, 2, 254, 507, 508]


# ------------------------------------------------------------------------------------------------------------------
# operations
# ------------------------------------------------------------------------------------------------------------------

class Skip(Exception):
    pass


class DrawBudget(Exception):
    """More random draws in one operation than any terminating case needs: the Las-Vegas loop does not end."""


DRAW_BUDGET = 4000


def guard_seam(seam):
    orig = type(seam)._decide

    def guarded(kind, n):
        if len(seam.log) > DRAW_BUDGET:
            raise DrawBudget()
        return orig(seam, kind, n)
    seam._decide = guarded


class Env:
    """Everything an operation needs, bound to one runtime and one prime."""

    def __init__(self, mpc, p):
        from mpyc.numpy import np
        from mpyc.gfpx import GFpX
        from mpyc import secpols
        self.mpc, self.np, self.p = mpc, np, p
        self.S = mpc.SecFld(p)
        self.poly = GFpX(p)
        self.secpoly = secpols.secpoly

    def sec(self, c):
        np = self.np
        return self.secpoly(np.array(list(c), dtype=object) if c else np.array([], dtype=int), self.S)

    def pl(self, c):
        return self.poly(list(c))


def _nz(b):
    if not b:
        raise Skip()
    return b


def build_ops(env):
    """name -> (arity, cls, fn, ref, kind).  cls: domain class 'all' | 'mid' | 'heavy'.  kind: 'poly' | 'polys' | 'elt' | 'raises'."""
    mpc, S, poly, secpoly, p = env.mpc, env.S, env.poly, env.secpoly, env.p
    ops = {}

    def op(name, arity, cls, fn, ref, kind='poly'):
        ops[name] = (arity, cls, fn, ref, kind)

    # -- unary ---------------------------------------------------------------------------------------------------------
    op('neg', 1, 'all', lambda f: -f, lambda a: -a)
    op('pos', 1, 'all', lambda f: +f, lambda a: +a)
    op('copy', 1, 'all', lambda f: f.copy(), lambda a: a)
    op('output', 1, 'all', lambda f: f, lambda a: a)
    op('degree', 1, 'all', lambda f: f.degree(), lambda a: a.degree(), 'elt')
    op('monic', 1, 'all', lambda f: f.monic(), lambda a: a.monic())
    op('reverse', 1, 'all', lambda f: f.reverse(), lambda a: a.reverse())
    op('is_irreducible', 1, 'all', lambda f: secpoly.is_irreducible(f), lambda a: int(poly.is_irreducible(a)), 'elt')
    op('input', 1, 'all', lambda f: mpc.input(f, senders=0), lambda a: a)
    op('pow:negative', 1, 'all', lambda f: f ** -1, lambda a: ValueError, 'raises')
    op('reverse:d<-1', 1, 'all', lambda f: f.reverse(-2), lambda a: ValueError, 'raises')
    op('getitem:negative', 1, 'all', lambda f: f[-1], lambda a: IndexError, 'raises')
    op('construct:poly', 1, 'all', lambda f, env=env: None, lambda a: a)          # fn replaced below (needs the plain input)
    for d in range(-1, 5):
        op(f'reverse:d={d}', 1, 'all', lambda f, d=d: f.reverse(d), lambda a, d=d: a.reverse(d))
    for n in range(0, 5):
        op(f'truncate:{n}', 1, 'all', lambda f, n=n: f.truncate(n), lambda a, n=n: a.truncate(n))
        op(f'getitem:{n}', 1, 'all', lambda f, n=n: f[n], lambda a, n=n: a[n], 'elt')
        op(f'rshift:{n}', 1, 'all', lambda f, n=n: f >> n, lambda a, n=n: a >> n)
    for n in range(0, 4):
        op(f'lshift:{n}', 1, 'all', lambda f, n=n: f << n, lambda a, n=n: a << n)
        op(f'pow:{n}', 1, 'all', lambda f, n=n: f ** n, lambda a, n=n: a ** n)
    for x in points(p):
        op(f'call:public:{x}', 1, 'all', lambda f, x=x: f(x), lambda a, x=x: a(x), 'elt')
        op(f'call:secret:{x}', 1, 'all', lambda f, x=x: f(S(x)), lambda a, x=x: a(x), 'elt')
    # -- binary --------------------------------------------------------------------------------------------------------
    op('add', 2, 'all', lambda f, g: f + g, lambda a, b: a + b)
    op('sub', 2, 'all', lambda f, g: f - g, lambda a, b: a - b)
    op('mul', 2, 'all', lambda f, g: f * g, lambda a, b: a * b)
    op('add:static', 2, 'all', lambda f, g: secpoly.add(f, g), lambda a, b: a + b)
    op('sub:static', 2, 'all', lambda f, g: secpoly.sub(f, g), lambda a, b: a - b)
    op('mul:static', 2, 'all', lambda f, g: secpoly.mul(f, g), lambda a, b: a * b)
    op('eq', 2, 'all', lambda f, g: f == g, lambda a, b: int(a == b), 'elt')
    op('ne', 2, 'all', lambda f, g: f != g, lambda a, b: int(a != b), 'elt')
    op('floordiv', 2, 'mid', lambda f, g: f // g, lambda a, b: a // _nz(b))
    op('mod', 2, 'mid', lambda f, g: f % g, lambda a, b: a % _nz(b))
    op('mod:static', 2, 'mid2', lambda f, g: secpoly.mod(f, g), lambda a, b: a % _nz(b))
    op('divmod', 2, 'mid2', lambda f, g: list(divmod(f, g)), lambda a, b: list(divmod(a, _nz(b))), 'polys')
    op('lt', 2, 'mid', lambda f, g: f < g, lambda a, b: int(a < b), 'elt')
    op('le', 2, 'mid2', lambda f, g: f <= g, lambda a, b: int(a <= b), 'elt')
    op('gt', 2, 'mid2', lambda f, g: f > g, lambda a, b: int(a > b), 'elt')
    op('ge', 2, 'mid2', lambda f, g: f >= g, lambda a, b: int(a >= b), 'elt')
    op('gcd', 2, 'mid', lambda f, g: secpoly.gcd(f, g), lambda a, b: poly.gcd(a, b))
    op('gcdext', 2, 'heavy', lambda f, g: list(secpoly.gcdext(f, g)), lambda a, b: list(poly.gcdext(a, b)), 'polys')

    def inv_ref(a, b):
        _nz(b)
        try:
            return poly.invert(a, b)
        except ZeroDivisionError:
            raise Skip()
    op('invert', 2, 'heavy', lambda f, g: secpoly.invert(f, g), inv_ref)
    for n in (-2, -1, 0, 1, 2, 3):
        def pm_ref(a, b, n=n):
            _nz(b)
            if abs(n) >= 2 and 2 * max(env.la, env.lb) - 1 > p - 1:
                raise Skip()        # an intermediate square would have length >= p ("p must be sufficiently large")
            try:
                return poly.powmod(a, n, b)
            except ZeroDivisionError:
                raise Skip()
        op(f'powmod:{n}', 2, 'heavy', lambda f, g, n=n: secpoly.powmod(f, n, g), pm_ref)
    for c in (0, 1):
        op(f'if_else:secret:{c}', 2, 'heavy', lambda f, g, c=c: secpoly.if_else(S(c), f, g), lambda a, b, c=c: a if c else b)
        op(f'if_else:public:{c}', 2, 'heavy', lambda f, g, c=c: secpoly.if_else(bool(c), f, g), lambda a, b, c=c: a if c else b)
        op(f'if_swap:secret:{c}', 2, 'heavy', lambda f, g, c=c: list(secpoly.if_swap(S(c), f, g)), lambda a, b, c=c: [b, a] if c else [a, b], 'polys')
    return ops


# operations taking the PLAIN coefficient tuple(s) as well (public operands, secret parameters bounded by the public length)
def build_plain_ops(env):
    mpc, S, poly, secpoly, p, np = env.mpc, env.S, env.poly, env.secpoly, env.p, env.np
    ops = {}

    def op(name, arity, cls, fn, ref, kind='poly'):
        ops[name] = (arity, cls, fn, ref, kind)

    op('construct:poly', 1, 'all', lambda ca: secpoly(env.pl(ca), S), lambda ca: env.pl(ca))
    op('construct:poly:infer-sectype', 1, 'all', lambda ca: secpoly(env.pl(ca)), lambda ca: env.pl(ca))
    op('construct:secure-array', 1, 'all', lambda ca: secpoly(S.array(np.array(list(ca), dtype=object)) if ca else S.array(np.array([], dtype=int))),
       lambda ca: env.pl(ca))
    for d in range(-1, 3):
        def rs_ref(ca, d=d):
            if d > len(ca) - 1 or not ca:
                raise Skip()
            return env.pl(ca).reverse(d)
        op(f'reverse:secret-fld:d={d}', 1, 'all', lambda ca, d=d: env.sec(ca).reverse(S(d)), rs_ref)
        op(f'reverse:secret-int:d={d}', 1, 'all', lambda ca, d=d: env.sec(ca).reverse(mpc.SecInt()(d)), rs_ref)
    pub = [('add', lambda x, y: x + y, 'all', False), ('sub', lambda x, y: x - y, 'all', False), ('mul', lambda x, y: x * y, 'all', False),
           ('floordiv', lambda x, y: x // y, 'mid2', True), ('mod', lambda x, y: x % y, 'mid2', True),
           ('eq', lambda x, y: x == y, 'all', False), ('ne', lambda x, y: x != y, 'all', False), ('lt', lambda x, y: x < y, 'mid2', False), ('ge', lambda x, y: x >= y, 'mid2', False)]
    for nm, o, cls, nzb in pub:
        kind = 'elt' if nm in ('eq', 'ne', 'lt', 'ge') else 'poly'
        rf = (lambda o, nzb: lambda ca, cb: _r(o(env.pl(ca), _nz(env.pl(cb)) if nzb else env.pl(cb))))(o, nzb)
        op(f'{nm}:secret,public', 2, cls, (lambda o: lambda ca, cb: o(env.sec(ca), env.pl(cb)))(o), rf, kind)
        if nm not in ('eq', 'ne'):      # gfpx polynomial == secure polynomial is decided by gfpx (False): not offered
            op(f'{nm}:public,secret', 2, cls, (lambda o: lambda ca, cb: o(env.pl(ca), env.sec(cb)))(o), rf, kind)
    op('divmod:public,secret', 2, 'mid2', lambda ca, cb: list(divmod(env.pl(ca), env.sec(cb))), lambda ca, cb: list(divmod(env.pl(ca), _nz(env.pl(cb)))), 'polys')
    op('divmod:secret,public', 2, 'mid2', lambda ca, cb: list(divmod(env.sec(ca), env.pl(cb))), lambda ca, cb: list(divmod(env.pl(ca), _nz(env.pl(cb)))), 'polys')
    return ops


def _r(x):
    return int(x) if isinstance(x, bool) else x


# ------------------------------------------------------------------------------------------------------------------
# evaluation
# ------------------------------------------------------------------------------------------------------------------

def lengths_of(r, secpoly):
    if isinstance(r, (list, tuple)):
        return tuple(lengths_of(x, secpoly) for x in r)
    return len(r.share) if isinstance(r, secpoly) else None


def judge(env, kind, got, want):
    """None if equal, else a failure class."""
    p, poly = env.p, env.poly
    if kind == 'elt':
        try:
            return None if int(got) % p == int(want) % p else 'value'
        except Exception:
            return 'type'
    if kind == 'polys':
        if not isinstance(got, list) or len(got) != len(want):
            return 'structure'
        return next((r for r in (judge(env, 'poly', g, w) for g, w in zip(got, want)) if r), None)
    if type(got) is not poly:
        return 'type'
    return None if got == want else 'value'


def run_case(part, env, seam, sp, name, spec, plain, inputs, mode, script, seed, cfg, lengths):
    """One case on the single-party engine.  Returns the number of draws, or None (skipped / exception)."""
    arity, cls, fn, ref, kind = spec
    mpc = env.mpc
    pls = [env.pl(c) for c in inputs]
    env.la, env.lb = len(inputs[0]), len(inputs[-1])
    try:
        want = ref(*inputs) if plain else ref(*pls)
    except Skip:
        part.note('skipped_precondition', 1)
        return None
    detail = dict(engine='sp', p=env.p, name=name, inputs=[list(c) for c in inputs], mode=mode,
                  script={str(a): b for a, b in (script or {}).items()}, seed=seed)
    tag = f'[{cfg}] {name}({", ".join(str(list(c)) for c in inputs)})'
    seam.begin('seeded' if mode == 'seeded2' else mode, seed + (1 if mode == 'seeded2' else 0), script)
    key0 = f'C38:{name.split(":")[0]}' + (':' + ':'.join(x for x in name.split(':')[1:] if not x.lstrip('d=-').isdigit()) if ':' in name else '')
    key0 = key0.rstrip(':')
    try:
        r = fn(*inputs) if plain else fn(*[env.sec(c) for c in inputs])
        if kind == 'raises':
            got = ('no exception', repr(r)[:60])
        else:
            got = sp.opened(mpc, r)
    except Exception as exc:
        part.case(key=None)
        if kind == 'raises' and isinstance(exc, want):
            return 0
        base = 'C38:' + name.split(':')[0]
        if isinstance(exc, DrawBudget):
            zero = all(not any(c) for c in inputs)
            part.violation(f'{base}:nontermination' + (':zero-polynomial' if zero else ''),
                           f'{tag} does not terminate (more than {DRAW_BUDGET} random draws; masks {mode} {script})', detail)
            return None
        cls_in = ':empty-operands' if all(not p_ for p_ in pls) and any(len(c) == 0 for c in inputs) else \
            ':zero-polynomial' if all(not p_ for p_ in pls) else ''
        part.violation(f'{base}:exception:{type(exc).__name__}{cls_in}', f'{tag} raised {exc!r:.200} (masks {mode} {script})', detail)
        return None
    draws = len(seam.log)
    part.case(key=None, nontrivial=bool(draws) or any(len(c) > 1 for c in inputs))
    part.outcomes.add(stable_hash((name, repr(got)[:80])) & 0xffffff)
    if kind == 'raises':
        part.violation(f'{key0}:no-exception', f'{tag}: expected {want.__name__}, got {got}', detail)
        return draws
    fail = judge(env, kind, got, want)
    if fail:
        key = f'{key0}:{fail}'
        if name == 'gcdext' and fail == 'value' and isinstance(got, list) and len(got) == 3 and all(type(x) is env.poly for x in got):
            a, b = pls
            if got[0] == want[0] and got[1] * a + got[2] * b == got[0]:
                key = f'{key0}:cofactors-differ'
        if name.startswith('powmod:') and fail == 'value' and type(got) is env.poly and got % pls[1] == want:
            key = f'{key0}:unreduced:n={name.split(":")[1]}'
        if name == 'is_irreducible' and any(c and c[-1] == 0 for c in inputs):
            key += ':trailing-zeros'
        part.violation(key, f'{tag} = {got!r:.120}, gfpx gives {want!r:.120} (masks {mode} {script})', detail)
    elif len(part.samples) < 2 and draws and mode == 'max' and arity == 2:
        part.sample(dict(config=cfg, op=name, inputs=[list(c) for c in inputs], masks=mode, draws=draws, result=repr(got)[:80]))
    ln = lengths_of(r, env.secpoly)
    if ln is not None and ln != (None,) * (len(ln) if isinstance(ln, tuple) else 1) and not name.startswith('construct:poly'):
        pubkey = tuple(len(c) for c in inputs)
        if 'public' in name.split(':')[-1].split(','):          # the public operand (its value is public) is part of the class
            forms = name.split(':')[-1].split(',')
            pubkey = tuple(tuple(c) if forms[i] == 'public' else len(c) for i, c in enumerate(inputs))
        lengths.setdefault((name, pubkey), {}).setdefault(ln, [list(c) for c in inputs])
    return draws


def all_ops(env):
    ops = {n: (False,) + s for n, s in build_ops(env).items() if n != 'construct:poly'}
    ops.update({n: (True,) + s for n, s in build_plain_ops(env).items()})
    return ops


def unit_list(p, tier):
    """Work units (op name, chunk index, chunks) with rough weights, for job splitting."""
    doms = domains(p, tier)
    units = []
    cost = dict(all=0.3, mid=4.0, mid2=4.0, heavy=10.0)
    names = OP_NAMES[p]
    for name, (arity, cls) in names.items():
        n = len(doms[cls]) ** arity
        w = n * cost[cls] * (3 if name.startswith('is_irr') else 1)
        chunks = max(1, int(w // 60000))
        for c in range(chunks):
            units.append((w / chunks, (name, c, chunks)))
    return units


OP_NAMES = {}


def _op_names():
    """Operation names/arity/class without a runtime (the tables only need p for the evaluation points)."""
    class D:
        def __getattr__(self, n):
            return D()

        def __call__(self, *a, **k):
            return D()
    for p in PRIMES:
        env = Env.__new__(Env)
        env.mpc, env.np, env.p, env.S, env.poly, env.secpoly = D(), D(), p, D(), D(), D()
        ops = {n: (s[0], s[1]) for n, s in build_ops(env).items() if n != 'construct:poly'}
        ops.update({n: (s[0], s[1]) for n, s in build_plain_ops(env).items()})
        OP_NAMES[p] = ops


_op_names()


def run_sp(job):
    from mc import sp
    part = Part()
    mpc, seam = sp.setup(sec_param=K_SP[job['p']], no_prss=True)
    guard_seam(seam)
    p, tier, seed = job['p'], job['tier'], job['seed']
    env = Env(mpc, p)
    ops = all_ops(env)
    doms = domains(p, tier)
    modeset = set(doms['modes'])
    cfg = f'sp/GF({p})/k{K_SP[p]}'
    lengths = {}
    for name, c, chunks in job['units']:
        plain, arity, cls, fn, ref, kind = ops[name]
        spec = (arity, cls, fn, ref, kind)
        dom = doms[cls]
        idx = 0
        for inputs in itertools.product(dom, repeat=arity):
            idx += 1
            if idx % chunks != c:
                continue
            draws = run_case(part, env, seam, sp, name, spec, plain, inputs, 'seeded', None, seed, cfg, lengths)
            if draws and all(x in modeset for x in inputs):
                for mode in ('zero', 'max') + (('seeded2',) if tier == 'thorough' and p != 5 else ()):
                    run_case(part, env, seam, sp, name, spec, plain, inputs, mode, None, seed, cfg, lengths)
        part.note('operation_units', 1)
    check_lengths(part, lengths, cfg, p)
    part.note('blinding_draws_forced_nonzero', seam.blinding_forced)
    return part


def check_lengths(part, lengths, cfg, p):
    table = {}
    for (name, lens), seen in sorted(lengths.items()):
        part.case(key=None, nontrivial=True)
        if len(seen) > 1:
            items = sorted(seen.items(), key=lambda kv: repr(kv[0]))
            part.violation(f'C38:{name.split(":")[0]}:public-length-depends-on-secrets',
                           f'[{cfg}] {name} with public input lengths {lens}: result length {items[0][0]} for inputs {items[0][1]} but '
                           f'{items[1][0]} for inputs {items[1][1]}', dict(engine='sp', p=p, name=name, inputs=items[0][1], mode='seeded', script={}, seed=0,
                                                                         other=items[1][1]))
        else:
            table[f'{name}{list(lens)}'] = repr(next(iter(seen)))
    names = {n for t_ in SAME_LENGTH for n in t_[:2]}
    part.note('length_table', {f'{p}|{name}|{list(lens)}|{next(iter(seen))!r}|{next(iter(seen.values()))!r}': 1
                               for (name, lens), seen in lengths.items() if name in names and len(seen) == 1})
    if p == 5:
        part.notes.setdefault('public_lengths', [])
        part.notes['public_lengths'] += [f'{k}->{v}' for k, v in sorted(table.items()) if k.split('[')[0] in
                                         ('add', 'mul', 'floordiv', 'mod', 'gcd', 'gcdext', 'invert', 'powmod:3', 'lshift:2', 'rshift:1', 'monic', 'reverse')][:40]


# ------------------------------------------------------------------------------------------------------------------
# multi-party
# ------------------------------------------------------------------------------------------------------------------

MP_OPS = ['add', 'sub', 'mul', 'floordiv', 'mod', 'divmod', 'eq', 'ne', 'lt', 'ge', 'gcd', 'gcdext', 'invert', 'powmod:-1', 'powmod:0', 'powmod:3',
          'if_else:secret:1', 'if_swap:secret:1', 'neg', 'degree', 'monic', 'reverse', 'reverse:d=1', 'truncate:1', 'getitem:1', 'lshift:2',
          'rshift:1', 'pow:2', 'call:public:2', 'call:secret:1', 'is_irreducible', 'output', 'mul:secret,public', 'mod:public,secret',
          'reverse:secret-fld:d=0']


def mp_cases(p, tier):
    e = edge(p)
    one = [(), (0,), (e[2],), (0, 1), (1, e[2]), (1, 0, e[2]), (0, e[2], 0)]
    two = [(), (1,), (0, 1), (1, e[2]), (e[2], 1, 1)]
    if tier == 'thorough':
        one = arrays(e, 2) + [(1, 0, e[2]), (0, e[2], 1), (0, 0, 0)]
        two = arrays(e, 1) + [(0, 1), (1, e[2]), (e[2], 0), (1, 0, 1), (e[2], 1, 1), (0, 0, 0)]
    out = []
    for name in MP_OPS:
        arity = OP_NAMES[p][name][0]
        dom = one if arity == 1 else two
        if name in ('gcdext', 'invert', 'is_irreducible') or name.startswith('powmod'):
            dom = dom[1:] if tier == 'quick' else dom[::2]
        for inputs in itertools.product(dom, repeat=arity):
            if name in ('gcd', 'gcdext', 'monic', 'is_irreducible') and all(not any(c) for c in inputs):
                continue        # zero polynomials: non-termination / assertion, reported by the single-party engine
            out.append((name, inputs))
    return out


def make_mp_program(p):
    async def program(mpc, ctx):
        await mpc.start()
        env = Env(mpc, p)
        ops = all_ops(env)
        m = len(mpc.parties)
        res = []
        for idx, (name, inputs) in enumerate(ctx['cases']):
            plain, arity, cls, fn, ref, kind = ops[name]
            env.la, env.lb = len(inputs[0]), len(inputs[-1])
            try:
                want = ref(*inputs) if plain else ref(*[env.pl(c) for c in inputs])
            except Skip:
                res.append(('skip',))
                continue
            try:
                if plain:
                    r = fn(*inputs)
                else:
                    r = fn(*[mpc.input(env.sec(c), senders=idx % m) for c in inputs])
                got = await mpc.output(list(r) if isinstance(r, tuple) else r)
                fail = judge(env, kind, got, want)
                res.append(('ok', fail, repr(got)[:120], repr(want)[:120], repr(lengths_of(r, env.secpoly))))
            except Exception as exc:
                res.append(('raised', type(exc).__name__, repr(exc)[:160]))
            if idx % 4 == 3:
                await mpc.barrier()
        ctx['results'] = res
        await mpc.shutdown()
    return program


def run_mp(job):
    from mc import exact
    from mc.explorer import run_execution
    from mc.props.C37 import NpPatternPRF
    part = Part()
    m, t, no_prss, p = 3, 1, job['no_prss'], job['p']
    k = K_MP
    world = exact.make_world(m, t, no_prss, k)
    seams = world.script_seams
    for u in world.universes:
        u.thresha.PRF = NpPatternPRF(u.thresha._verif_real_PRF, world)
    cases = [c for c in mp_cases(p, job['tier'])][job['part']::job['parts']]
    cfg = f"mp/GF({p})/m{m}t{t}{'-noprss' if no_prss else ''}/k{k}"
    program = make_mp_program(p)

    def execute(chunk, pat):
        ctxs = []

        def setup(w):
            ctxs.clear()
            w.mask_pattern = pat
            w.pattern_budget = 600 * len(chunk)
            w.pattern_decisions = {}
            for i, sm in enumerate(seams):
                sm.begin(pat, job['seed'] * 100 + i, None)
            for q in range(m):
                ctxs.append(dict(cases=chunk))
                w.spawn(q, program, ctxs[q])
        for i, sm in enumerate(seams):
            sm.begin(pat, job['seed'] * 100 + i, None)
        x = run_execution(world, setup, (), 'eager', 'none', sched_alts=False)
        part.transitions += x.nsteps
        return x.status == 'done' and all('results' in c for c in ctxs), x.status, [c.get('results') for c in ctxs]

    def judge_mp(name, inputs, pat, per):
        detail = dict(engine='mp', p=p, no_prss=no_prss, name=name, inputs=[list(c) for c in inputs], pat=pat, seed=job['seed'], tier=job['tier'])
        tag = f'[{cfg}] {name}({", ".join(str(list(c)) for c in inputs)})'
        r0 = per[0]
        if r0[0] == 'skip':
            return
        part.case(key=None, nontrivial=True)
        part.outcomes.add(stable_hash((name, repr(r0)[:100])) & 0xffffff)
        base = f'C38:{name.split(":")[0]}'
        if any(r != r0 for r in per):
            part.violation(f'{base}:mp:parties-differ', f'{tag}: parties obtained {per!r:.240} (masks {pat})', detail)
        elif r0[0] == 'raised':
            part.violation(f'{base}:exception:{r0[1]}' + (':empty-operands' if all(len(c) == 0 for c in inputs) else ''),
                           f'{tag} raised {r0[2]} (masks {pat})', detail)
        elif r0[1]:
            key = f'{base}:{r0[1]}'
            if name in ('powmod:0', 'powmod:1') and r0[1] == 'value':
                key = f'{base}:unreduced:n={name.split(":")[1]}'
            if name == 'is_irreducible' and any(c and c[-1] == 0 for c in inputs):
                key += ':trailing-zeros'
            part.violation(key, f'{tag} = {r0[2]}, gfpx gives {r0[3]} (masks {pat})', detail)
        elif len(part.samples) < 1 and pat == 'max' and len(inputs) == 2:
            part.sample(dict(config=cfg, op=name, inputs=[list(c) for c in inputs], masks=pat, result=r0[2]))

    batch = 6
    for lo in range(0, len(cases), batch):
        chunk = cases[lo:lo + batch]
        for pat in ('seeded', 'max'):
            ok, status, results = execute(chunk, pat)
            if ok:
                for i, (name, inputs) in enumerate(chunk):
                    judge_mp(name, inputs, pat, [r[i] for r in results])
                continue
            for name, inputs in chunk:
                ok1, status1, res1 = execute([(name, inputs)], pat)
                if ok1:
                    judge_mp(name, inputs, pat, [r[0] for r in res1])
                else:
                    part.case(key=None)
                    errs = sorted({e.get('exception') or '' for pe in world.loop_errors for e in pe})
                    cls = errs[0].split('(')[0] if errs else status1
                    part.violation(f'C38:{name.split(":")[0]}:exception:{cls}:empty-operands' if errs and all(len(c) == 0 for c in inputs) else
                                   f'C38:{name.split(":")[0]}:mp:incomplete:{cls}',
                                   f'[{cfg}] {name}({[list(c) for c in inputs]}): execution ends {status1}: {errs!r:.300} (masks {pat})',
                                   dict(engine='mp', p=p, no_prss=no_prss, name=name, inputs=[list(c) for c in inputs], pat=pat, seed=job['seed'],
                                        tier=job['tier']))
    part.note('blinding_draws_forced_nonzero', sum(sm.blinding_forced for sm in seams) + getattr(world, 'blinding_forced', 0))
    return part


def env_deg0(c):
    c = list(c)
    while c and c[-1] == 0:
        c.pop()
    return len(c) == 1


# ------------------------------------------------------------------------------------------------------------------
# jobs
# ------------------------------------------------------------------------------------------------------------------

def jobs(tier, seed):
    out = []
    nbins = {5: 14 if tier == 'quick' else 24, 7: 8 if tier == 'quick' else 28, 509: 6 if tier == 'quick' else 4}
    for p in PRIMES:
        units = sorted(unit_list(p, tier), key=lambda u: (-u[0], u[1]))
        bins = [[0.0, []] for _ in range(nbins[p])]
        for w, u in units:
            b = min(bins, key=lambda b: b[0])
            b[0] += w
            b[1].append(u)
        for b in bins:
            if b[1]:
                out.append(dict(engine='sp', p=p, units=b[1], tier=tier, seed=seed))
    for p in (5, 7):
        for no_prss in (False, True):
            parts = 2
            for i in range(parts):
                out.append(dict(engine='mp', p=p, no_prss=no_prss, part=i, parts=parts, tier=tier, seed=seed))
    out.sort(key=lambda j: 0 if j['engine'] == 'mp' else 1)
    return out


def run_job(job):
    import time
    t0 = time.time()
    part = run_sp(job) if job['engine'] == 'sp' else run_mp(job)
    part.note('max_job_seconds', round(time.time() - t0, 1))
    return part


SAME_LENGTH = [('mod', 'mod:static', None), ('mod', 'divmod', 1), ('floordiv', 'divmod', 0), ('add', 'add:static', None),
               ('sub', 'sub:static', None), ('mul', 'mul:static', None), ('gcd', 'gcdext', 0), ('invert', 'gcdext', 1)]


def cross_lengths(total, table):
    """Equivalent call forms must declare the same public result length (evaluated over the merged tables of all jobs)."""
    tab = {}
    for key in table:
        p, name, lens, ln, ex = key.split('|')
        tab[(p, name, lens)] = (eval(ln), eval(ex))
    for a_, b_, comp in SAME_LENGTH:
        for (p, name, lens), (la, exa) in sorted(tab.items()):
            if name != a_ or (p, b_, lens) not in tab:
                continue
            lb, exb = tab[(p, b_, lens)]
            lb = lb[comp] if comp is not None else lb
            total.case(key=None, nontrivial=True)
            if la != lb:
                total.violation(f'C38:{b_.split(":")[0]}:public-length-differs-from:{a_}',
                                f'[sp/GF({p})] public input lengths {lens}: {a_} declares result length {la}, the equivalent {b_}'
                                f'{"" if comp is None else f"[{comp}]"} declares {lb}',
                                dict(engine='sp', p=int(p), name=b_, inputs=exb, mode='seeded', script={}, seed=0, other_name=a_, comp=comp))


def coverage_extra(tier, seed, total):
    cross_lengths(total, total.notes.pop('length_table', {}))
    return dict(primes=list(PRIMES), arrays_per_prime={str(p): {k: len(v) for k, v in domains(p, tier).items()} for p in PRIMES},
                operations=len(OP_NAMES[5]))


def replay(case):
    if case.get('engine') == 'mp':
        part = run_mp(dict(engine='mp', p=case['p'], no_prss=case['no_prss'], part=0, parts=1, tier=case.get('tier', 'quick'), seed=case['seed']))
        part.violations = [v for v in part.violations if v['detail'].get('name') == case['name']]
        return part
    from mc import sp
    part = Part()
    mpc, seam = sp.setup(sec_param=K_SP[case['p']], no_prss=True)
    guard_seam(seam)
    env = Env(mpc, case['p'])
    ops = all_ops(env)
    plain, arity, cls, fn, ref, kind = ops[case['name']]
    script = {int(a): b for a, b in case['script'].items()} or None
    lengths = {}
    for inputs in [case['inputs']] + ([case['other']] if case.get('other') else []):
        run_case(part, env, seam, sp, case['name'], (arity, cls, fn, ref, kind), plain, tuple(tuple(c) for c in inputs), case['mode'], script,
                 case['seed'], f"sp/GF({case['p']})/k{K_SP[case['p']]}", lengths)
    if case.get('other_name'):
        plain2, arity2, cls2, fn2, ref2, kind2 = ops[case['other_name']]
        run_case(part, env, seam, sp, case['other_name'], (arity2, cls2, fn2, ref2, kind2), plain2, tuple(tuple(c) for c in case['inputs']),
                 'seeded', None, case['seed'], f"sp/GF({case['p']})/k{K_SP[case['p']]}", lengths)
    check_lengths(part, lengths, f"sp/GF({case['p']})", case['p'])
    cross_lengths(part, part.notes.pop('length_table', {}))
    return part
