"""C21 -- field square roots and quadratic-residue tests are correct.

Bounded-exhaustive enumeration of is_sqr(), sqrt() and sqrt(INV=True) of mpyc.finfields on
every element of

* the prime fields GF(p) for all primes p <= 300 (thorough: <= 3000): p = 2, p = 3 mod 4
  (exponentiation), p = 5 mod 8 and p = 1 mod 8 (Cipolla-Lehmer);
* extension fields of odd characteristic with q = 3 mod 4 (27, 243, 343, degree-1 fields; thorough
  also 1331, 2187) and q = 1 mod 4 with 2-adic valuations s = 2..6 of q-1 for Tonelli-Shanks
  (9, 25, 49, 81, 121, 125, 169, 289, 625, 729, 961, 101^2; thorough also 127^2 with s = 8), all monic
  irreducible moduli for q <= 27 plus a non-monic modulus;
* binary fields GF(2^d), d = 1..8 (Frobenius), thorough also all of GF(2^16);

and on constructed squares x*x / non-squares g*x*x (g certified by Euler's criterion computed in the
reference) for x in the boundary alphabets of three 61-bit primes (3 mod 4, 5 mod 8, 1 mod 8),
GF(257^2) (s = 9), GF(101^3), GF(103^3), GF(2^16) (thorough: 64/89/127-bit primes, GF(2^64)).

Oracle: the set of squares is the brute-force table {x*x} of the reference field; sqrt results are
squared / multiplied back in the reference, never in the code under test.  Nothing is demanded of
sqrt() on a non-square (the code documents nothing); what happens there is only tallied.
"""

from mc.core import Part
from mc.ref import fields as rf

LEVEL = 'exploration'
RULE = ('one case = (field, law, element) with law in is_sqr / sqrt / sqrt_inv; every element of each listed '
        'field (or every constructed square and non-square of a large field) is enumerated once; '
        'non-trivial = element not 0 or 1')
ASSUMPTIONS = ['Python int arithmetic and the reference mc/ref/fields.py are correct; squares are found by '
               'brute force, sqrt results are verified by multiplying back in the reference',
               'large fields: squareness by construction (x*x, and g*x*x for a non-square g certified by the '
               'reference via Euler\'s criterion); every element of a binary field is a square',
               'sqrt of a non-square is undocumented: observed outcomes are tallied, never judged',
               'array versions (numpy) are not exercised: numpy is absent from /venv']

MANIFEST = dict(
    level='exploration',
    technique='bounded-exhaustive enumeration of is_sqr/sqrt/inverse sqrt over whole fields against a brute-force '
              'table of squares, roots verified by multiplying back in an independent reference field',
    text='Every element of GF(p) for all primes p <= 300 (thorough <= 3000; residue classes 2, 3 mod 4, 5 mod 8, '
         '1 mod 8), of odd extension fields with q = 3 mod 4 and q = 1 mod 4 (Tonelli-Shanks depths s = 2..6, '
         'thorough 8), of binary fields up to GF(2^8) (thorough 2^16), plus constructed squares/non-squares over '
         'boundary alphabets of 61-bit primes of each class, GF(257^2), GF(101^3), GF(103^3), GF(2^16): is_sqr(a) '
         'iff a is in the brute-force table of squares (0 included); sqrt(a)^2 == a for squares; sqrt(a, INV)^2 * a '
         '== 1 for nonzero squares; INV sqrt of 0 raises ZeroDivisionError.',
    ref='DESIGN 5/C21',
    note='trusted: Python ints, mc/ref/fields.py; for fields too large to tabulate squareness holds by construction; '
         'behaviour on non-squares is outside the property')

AES = [1, 1, 0, 1, 1, 0, 0, 0, 1]
GF2_16 = [1, 1, 0, 1] + [0] * 8 + [1, 0, 0, 0, 1]
GF2_64 = [1, 1, 0, 1, 1] + [0] * 59 + [1]


def field_specs(tier):
    thorough = tier == 'thorough'
    out = []
    for p in rf.primes_upto(3000 if thorough else 300):
        out.append((dict(p=p, mod=None), 'full'))
    out.append((dict(p=7, mod=None, nw=(3, 2)), 'full'))
    # small extension fields: all monic irreducible moduli for q <= 27 (+ one non-monic), first one above
    for p, d in [(2, 2), (2, 3), (3, 2), (2, 4), (5, 2), (3, 3)]:
        irr = rf.monic_irreducibles(p, d)
        for m in irr:
            out.append((dict(p=p, mod=m), 'full'))
        if p > 2:
            out.append((dict(p=p, mod=[(p - 1) * c % p for c in irr[-1]]), 'full'))
    for p, m in [(2, [0, 1]), (2, [1, 1]), (3, [1, 1]), (5, [0, 1]), (7, [3, 2]), (13, [5, 1]), (17, [1, 1])]:
        out.append((dict(p=p, mod=m), 'full'))         # degree-1 "extensions"
    more = [(2, 5), (2, 6), (2, 7), (7, 2), (3, 4), (11, 2), (5, 3), (13, 2), (3, 5), (17, 2), (7, 3), (5, 4),
            (3, 6), (31, 2)]
    if thorough:
        more += [(11, 3), (3, 7), (7, 4), (19, 3), (127, 2)]
    for p, d in more:
        out.append((dict(p=p, mod=rf.first_irreducible(p, d)), 'full'))
        if thorough and p**d < 1000:
            out.append((dict(p=p, mod=rf.first_irreducible(p, d, skip=1)), 'full'))
    out.append((dict(p=2, mod=AES), 'full'))
    out.append((dict(p=101, mod=[99, 0, 1]), 'full'))
    if thorough:
        out.append((dict(p=2, mod=GF2_16), 'full'))
    # large fields: constructed squares and non-squares
    big = [2**61 - 1, rf.prev_prime_in_class(2**61, 5, 8), rf.prev_prime_in_class(2**61, 1, 8)]
    if thorough:
        big += [65521, 65537, 2**31 - 1, 2**32 - 5, 2**32 + 15, 2**64 - 59, 2**64 + 13,
                rf.prev_prime_in_class(2**64, 1, 8), rf.prev_prime_in_class(2**64, 3, 8), 2**89 - 1, 2**127 - 1,
                rf.prev_prime_in_class(2**127, 1, 8), rf.prev_prime_in_class(2**127, 5, 8)]
    for p in big:
        out.append((dict(p=p, mod=None), 'constructed'))
    for p, d in [(257, 2), (101, 3), (103, 3)]:
        out.append((dict(p=p, mod=rf.first_irreducible(p, d)), 'constructed'))
    out.append((dict(p=2, mod=GF2_16), 'constructed'))
    if thorough:
        out.append((dict(p=2, mod=GF2_64), 'constructed'))
    return out


def domain(R, mode):
    """Sorted list of (element code, is a square)."""
    if mode == 'full':
        sq = R.squares()
        return [(a, a in sq) for a in range(R.q)]
    xs = rf.alphabet(R)
    if R.p == 2:
        return [(x, True) for x in xs]
    g = R.nonsquare_witness()
    dom = {}
    for x in xs:
        s = R.mul(x, x)
        dom[s] = True
        if x:
            dom[R.mul(g, s)] = False
    return sorted(dom.items())


def branch(A):
    q = A.q
    if A.kind == 'prime':
        return 'p2' if q == 2 else 'p3mod4' if q % 4 == 3 else 'p5mod8' if q % 8 == 5 else 'p1mod8'
    if A.kind == 'binary':
        return 'binary'
    return 'q3mod4' if q % 4 == 3 else 'q1mod4'


def evaluate(A, law, a, is_square):
    """Run one law on the real code.  Returns (ok, observed, expected) -- expected values are computed with
    the reference field only."""
    R = A.ref
    one = R.from_int(1)
    try:
        x = rf.limited(lambda: A.make(a))
        if law == 'is_sqr':
            got = rf.limited(x.is_sqr)
            return bool(got) == is_square, repr(got), repr(is_square)
        if law == 'sqrt':
            r = rf.limited(x.sqrt)
            c = A.code(r)
            ok = c is not None and R.mul(c, c) == a
            return ok, f'{r!r} (code {c}, square of it has code {None if c is None else R.mul(c, c)})', \
                f'a reduced element whose square has code {a}'
        if law == 'sqrt_inv':
            if a == 0:
                try:
                    r = rf.limited(lambda: x.sqrt(INV=True))
                except ZeroDivisionError:
                    return True, 'ZeroDivisionError', 'ZeroDivisionError'
                return False, f'returned {r!r}', 'ZeroDivisionError'
            r = rf.limited(lambda: x.sqrt(INV=True))
            c = A.code(r)
            ok = c is not None and R.mul(R.mul(c, c), a) == one
            return ok, f'{r!r} (code {c})', f'a reduced element s with s*s*a == 1 (a has code {a})'
    except Exception as exc:
        return False, f'raised {type(exc).__name__}: {exc}', 'no exception'
    raise KeyError(law)


def run_unit(part, unit):
    spec = unit['spec']
    A = rf.guarded_adapter(part, 'C21', spec, dict(spec=spec, law='is_sqr', a=0, is_square=True))
    if A is None:
        part.caps.append('a unit was abandoned: field construction failed (see violation)')
        return
    R = A.ref
    name = rf.field_name(spec)
    br = branch(A)
    dom = domain(R, unit['mode'])[unit['lo']:unit['hi']]
    tally = {}
    sampled = False
    for a, is_square in dom:
        laws = ['is_sqr'] + (['sqrt', 'sqrt_inv'] if is_square else [])
        for law in laws:
            ok, obs, exp = evaluate(A, law, a, is_square)
            part.case(key=None, nontrivial=a not in (0, 1))
            part.outcomes.add((law, br, obs if law == 'is_sqr' or a == 0 else 'value'))
            if not ok:
                hang = obs.startswith('raised Hang')
                rf.note_violation(part, f'C21:{law}:{br}' + (':zero' if a == 0 else '') + (':hang' if hang else ''),
                               f'{name}: {law}(code {a}; square={is_square}): observed {obs}, expected {exp}',
                               dict(spec=spec, law=law, a=a, is_square=is_square))
                if hang:
                    part.caps.append('a unit was abandoned after a call into the code under test hung (see violation)')
                    return
            elif not sampled and law == 'sqrt_inv' and a > 2:
                sampled = True
                rf.note_sample(part, dict(field=name, branch=br, law=law, a=a, observed=obs))
        if not is_square:      # undocumented territory: tally only
            try:
                r = rf.limited(A.make(a).sqrt)
                c = A.code(r)
                t = 'returns an element that is not a root' if c is not None and R.mul(c, c) != a else \
                    'returns a root?!' if c is not None else 'returns an unreduced value'
            except Exception as exc:
                t = f'raises {type(exc).__name__}'
            tally[f'{br}: {t}'] = tally.get(f'{br}: {t}', 0) + 1
            part.case(key=None, nontrivial=False)
            if t == 'raises Hang':
                part.caps.append('a unit was abandoned after sqrt of a non-square did not return (not judged)')
                break
    part.note('sqrt_of_nonsquare_not_judged', tally)
    part.note('elements_per_branch', {br: len(dom)})
    part.note('fields_per_branch', {br: 1 if unit['lo'] == 0 else 0})
    part.note('squares_nonsquares', {'squares': sum(1 for _, s in dom if s), 'nonsquares': sum(1 for _, s in dom if not s)})


def jobs(tier, seed):
    units = []
    for spec, mode in field_specs(tier):
        R = rf.RefField(spec['p'], spec.get('mod'))
        n = len(domain(R, mode)) if mode == 'constructed' else R.q
        bits = R.q.bit_length()
        w = (2 + bits // 8) if R.prime else R.d * R.d * bits
        if R.p == 2 and not R.prime:
            w = R.d * R.d * bits // 4 + 4
        chunks = max(1, min(n, 16, w * n // 150_000))
        size = -(-n // chunks)
        for lo in range(0, n, size):
            units.append((w * min(size, n - lo) + 50, dict(spec=spec, mode=mode, lo=lo, hi=min(n, lo + size))))
    k = 32 if tier == 'quick' else 48
    bins = [[0, []] for _ in range(k)]
    for cost, u in sorted(units, key=lambda cu: (-cu[0], repr(cu[1]))):
        b = min(bins, key=lambda x: x[0])
        b[0] += cost
        b[1].append(u)
    return [dict(units=b[1]) for b in bins if b[1]]


def coverage_extra(tier, seed, total):
    # representative case per violation key: prefer genuine (degree >= 2 or prime) fields over degree-1 extensions
    return rf.finalize(total, prefer=lambda d: int(d['spec'].get('mod') is not None and len(d['spec']['mod']) <= 2))


def run_job(job):
    part = Part()
    rf.arm_watchdog()
    for unit in job['units']:
        run_unit(part, unit)
    return part


def replay(case):
    part = Part()
    rf.arm_watchdog()
    A = rf.guarded_adapter(part, 'C21', case['spec'], case)
    if A is None:
        return part
    ok, obs, exp = evaluate(A, case['law'], case['a'], case['is_square'])
    if not ok:
        rf.note_violation(part, f'C21:{case["law"]}:{branch(A)}' + (':zero' if case['a'] == 0 else ''),
                       f'{rf.field_name(case["spec"])}: {case["law"]}(code {case["a"]}): observed {obs}, expected {exp}', case)
    return part
