"""C01 -- secure integer operations are exact in every party configuration.

Two engines:
 * single party, synchronous mode, --no-prss, ALL l-bit inputs for l = 3 (pairs, triples for
   the n-ary operations), every protocol's masks/bits scripted through the randomness seam:
   all-zero, all-max, seeded, and every value of an alphabet at each draw position; complete
   mask product for the unary masked-opening protocols;
 * m real parties in the virtual world for every (m <= 7, 2t < m), PRSS on/off, on the input
   alphabet {min, -1, 0, 1, max}, with seeded masks and the all-zero / all-max mask patterns
   (for PRSS: every subset's contribution at its extreme at once).
Oracle: Python integer arithmetic; every party that receives the output gets the same value.
"""

import math
import itertools

from mc.core import Part, stable_hash
from mc import exact

LEVEL = 'exploration'
FRESH_PROCESS_PER_JOB = True     # jobs mix the 1-party engine and virtual worlds: never share a process
RULE = ('one case = (operation, input tuple, configuration (m,t,PRSS), mask script); single-party: all l-bit input '
        'tuples x mask scripts (all-0, all-max, 2 seeded, every alphabet value at each of the first draws, full mask '
        'product for unary protocols); multi-party: input alphabet {min,-1,0,1,max} x mask patterns x all (m,t,PRSS); '
        'cases whose plain intermediate values leave the l-bit range are skipped; non-trivial = at least one random draw '
        'or more than one party')
ASSUMPTIONS = ['excluded event: blinding factor r = 0 in is_zero_public on large fields (probability 1/p per call) -- r is forced non-zero by the seam',
               'tiny parameters (l = 3..6, k = 2..6) stand for the parametric code at production sizes',
               'multi-party runs use the default eager schedule (schedule independence is C08)']
MANIFEST = dict(
    level='exploration',
    technique='bounded-exhaustive enumeration of inputs and protocol masks on the real runtime (1 party synchronous, and m parties in the virtual world) against Python integer arithmetic',
    text='All 3-bit inputs (pairs/triples) for 50+ secure-integer operations incl. comparisons, sgn variants, abs, min/max/argmin/argmax, '
         'if_else/if_swap, // % divmod >> by public divisors, lsb, sum/prod/all/any, in_prod, matrix_prod, gcd/lcm/gcdext/inverse, zero tests, '
         'and depth-2 compositions; every mask/bit draw of every protocol driven to its extremes; then the same operations on real '
         'multi-party executions for all (m<=7, t), PRSS on/off. Any off-by-one in a mask width, offset, carry, share index or '
         'recombination point that needs an extreme input and an extreme mask is hit deterministically.',
    ref='DESIGN 5/C01', note='trusted: randomness seam, world model; blinding-collapse event excluded and named')

L = 3
LO, HI = -(1 << (L - 1)), (1 << (L - 1)) - 1


def fits(v, l=L):
    return -(1 << (l - 1)) <= v <= (1 << (l - 1)) - 1


def sgn(x):
    return (x > 0) - (x < 0)


def _argmin(xs):
    m = min(xs)
    return [xs.index(m), m]


def _argmax(xs):
    m = max(xs)
    return [xs.index(m), m]


def _gcdext_ok(res, a, b):
    g, s, t = res
    return g == math.gcd(a, b) and s * a + t * b == g


SP_UNARY_FULL = ('sgn', 'sgn_LT', 'sgn_EQ', 'lsb', 'mod3', 'mod2', 'abs', 'is_zero', 'floordiv3', 'is_zero_public')


def build_ops(mpc, T, l):
    ops = {}

    dom = list(range(-(1 << (l - 1)), 1 << (l - 1)))
    alpha = [dom[0], -1, 0, 1, dom[-1]]

    def op(name, arity, fn, ref, kind='value'):
        mpd = alpha if arity < 3 else [dom[0], 0, 1]
        ops[name] = exact.Op(arity, fn, ref, kind, make=T, domain=dom, mp_domain=mpd,
                             full=4096 if (name in SP_UNARY_FULL and arity == 1) else 0)

    r1 = lambda f: (lambda v: (lambda r: r if fits(r, l) else None)(f(*v)))
    op('add', 2, lambda a, b: a + b, r1(lambda a, b: a + b))
    op('sub', 2, lambda a, b: a - b, r1(lambda a, b: a - b))
    op('rsub_pub', 1, lambda a: 2 - a, r1(lambda a: 2 - a))
    op('mul', 2, lambda a, b: a * b, r1(lambda a, b: a * b))
    op('mul_pub', 1, lambda a: a * -3, r1(lambda a: a * -3))
    op('neg', 1, lambda a: -a, r1(lambda a: -a))
    op('pos', 1, lambda a: +a, r1(lambda a: a))
    for n in (0, 1, 2, 3):
        op(f'pow{n}', 1, lambda a, n=n: a ** n, r1(lambda a, n=n: a ** n))
    op('lt', 2, lambda a, b: a < b, lambda v: int(v[0] < v[1]))
    op('le', 2, lambda a, b: a <= b, lambda v: int(v[0] <= v[1]))
    op('eq', 2, lambda a, b: a == b, lambda v: int(v[0] == v[1]))
    op('ge', 2, lambda a, b: a >= b, lambda v: int(v[0] >= v[1]))
    op('gt', 2, lambda a, b: a > b, lambda v: int(v[0] > v[1]))
    op('ne', 2, lambda a, b: a != b, lambda v: int(v[0] != v[1]))
    op('lt_pub', 1, lambda a: a < 1, lambda v: int(v[0] < 1))
    op('eq_pub', 1, lambda a: a == -1, lambda v: int(v[0] == -1))
    op('sgn', 1, lambda a: mpc.sgn(a), lambda v: sgn(v[0]))
    op('sgn_LT', 1, lambda a: mpc.sgn(a, LT=True), lambda v: int(v[0] < 0))
    op('sgn_EQ', 1, lambda a: mpc.sgn(a, EQ=True), lambda v: int(v[0] == 0))
    op('sgn_l2', 1, lambda a: mpc.sgn(a, l=2), lambda v: sgn(v[0]) if fits(v[0], 2) else None)
    op('is_zero', 1, lambda a: mpc.is_zero(a), lambda v: int(v[0] == 0))
    op('abs', 1, lambda a: abs(a), r1(lambda a: abs(a)))
    op('min2', 2, lambda a, b: mpc.min(a, b), lambda v: min(v))
    op('max2', 2, lambda a, b: mpc.max(a, b), lambda v: max(v))
    op('min3', 3, lambda a, b, c: mpc.min([a, b, c]), lambda v: min(v))
    op('max3', 3, lambda a, b, c: mpc.max(a, b, c), lambda v: max(v))
    op('min_max3', 3, lambda a, b, c: list(mpc.min_max(a, b, c)), lambda v: [min(v), max(v)])
    op('argmin3', 3, lambda a, b, c: list(mpc.argmin([a, b, c])), lambda v: _argmin(list(v)))
    op('argmax3', 3, lambda a, b, c: list(mpc.argmax([a, b, c])), lambda v: _argmax(list(v)))
    op('argmin2', 2, lambda a, b: list(mpc.argmin([a, b])), lambda v: _argmin(list(v)))
    op('if_else', 3, lambda c, a, b: mpc.if_else(c, a, b), lambda v: (v[1] if v[0] else v[2]) if v[0] in (0, 1) else None)
    op('if_else_list', 3, lambda c, a, b: mpc.if_else(c, [a, b], [b, a]),
       lambda v: ([v[1], v[2]] if v[0] else [v[2], v[1]]) if v[0] in (0, 1) else None)
    op('if_swap', 3, lambda c, a, b: list(mpc.if_swap(c, a, b)), lambda v: ([v[2], v[1]] if v[0] else [v[1], v[2]]) if v[0] in (0, 1) else None)
    op('if_swap_list', 3, lambda c, a, b: [x for pair in mpc.if_swap(c, [a, b], [b, b]) for x in pair],
       lambda v: ([v[2], v[2], v[1], v[2]] if v[0] else [v[1], v[2], v[2], v[2]]) if v[0] in (0, 1) else None)
    for d in (1, 2, 3, 4, 5, 7):
        if d < (1 << (l - 1)) or d in (1, 2, 3):
            op(f'floordiv{d}', 1, lambda a, d=d: a // d, lambda v, d=d: v[0] // d)
            op(f'mod{d}', 1, lambda a, d=d: a % d, lambda v, d=d: v[0] % d)
            op(f'divmod{d}', 1, lambda a, d=d: list(divmod(a, d)), lambda v, d=d: list(divmod(v[0], d)))
    op('rshift1', 1, lambda a: a >> 1, lambda v: v[0] >> 1)
    op('rshift2', 1, lambda a: a >> 2, lambda v: v[0] >> 2)
    op('lshift1', 1, lambda a: a << 1, r1(lambda a: a << 1))
    op('lsb', 1, lambda a: mpc.lsb(a), lambda v: v[0] & 1)
    op('sum3', 3, lambda a, b, c: mpc.sum([a, b, c]), r1(lambda a, b, c: a + b + c))
    op('sum_start', 2, lambda a, b: mpc.sum([a, b], start=1), r1(lambda a, b: a + b + 1))
    op('prod3', 3, lambda a, b, c: mpc.prod([a, b, c]),
       lambda v: v[0] * v[1] * v[2] if fits(v[0] * v[1], l) and fits(v[1] * v[2], l) and fits(v[0] * v[1] * v[2], l) else None)
    op('prod4', 3, lambda a, b, c: mpc.prod([a, b, c, T(-1)]),
       lambda v: -v[0] * v[1] * v[2] if fits(v[0] * v[1], l) and fits(-v[2], l) and fits(v[0] * v[1] * v[2], l) and fits(-v[0] * v[1] * v[2], l) else None)
    op('all3', 3, lambda a, b, c: mpc.all([a, b, c]), lambda v: int(all(v)) if set(v) <= {0, 1} else None)
    op('any3', 3, lambda a, b, c: mpc.any([a, b, c]), lambda v: int(any(v)) if set(v) <= {0, 1} else None)
    op('all_cmp', 2, lambda a, b: mpc.all([a < b, a != 0, b > -2]), lambda v: int(v[0] < v[1] and v[0] != 0 and v[1] > -2))
    op('in_prod', 3, lambda a, b, c: mpc.in_prod([a, b], [b, c]),
       lambda v: v[0] * v[1] + v[1] * v[2] if fits(v[0] * v[1], l) and fits(v[1] * v[2], l) and fits(v[0] * v[1] + v[1] * v[2], l) else None)
    op('in_prod_self', 2, lambda a, b: mpc.in_prod([a, b], [a, b]),
       lambda v: v[0] ** 2 + v[1] ** 2 if fits(v[0] ** 2, l) and fits(v[1] ** 2, l) and fits(v[0] ** 2 + v[1] ** 2, l) else None)
    op('matrix_prod', 3, lambda a, b, c: [x for row in mpc.matrix_prod([[a, b], [c, T(1)]], [[T(1), c], [b, T(0)]]) for x in row],
       lambda v: (lambda a, b, c: (lambda r: r if all(fits(x, l) for x in r + [a * c, b * b, c * c]) else None)(
           [a + b * b, a * c, c + b, c * c]))(*v))
    op('matrix_prod_tr', 2, lambda a, b: [x for row in mpc.matrix_prod([[a, b]], [[b, a], [T(1), T(0)]], tr=True) for x in row],
       lambda v: (lambda a, b: (lambda r: r if all(fits(x, l) for x in r) else None)([2 * a * b, a]) if fits(a * b, l) else None)(*v))
    op('is_zero_public', 1, lambda a: mpc.is_zero_public(a), lambda v: v[0] == 0, 'public')
    op('eq_public', 2, lambda a, b: mpc.eq_public(a, b), lambda v: v[0] == v[1], 'public')
    # depth-2 compositions
    op('cmp_of_prod', 2, lambda a, b: (a * b) < (a + b),
       lambda v: int(v[0] * v[1] < v[0] + v[1]) if fits(v[0] * v[1], l) and fits(v[0] + v[1], l) and fits(v[0] * v[1] - v[0] - v[1], l) else None)
    op('abs_of_diff', 2, lambda a, b: abs(a - b), lambda v: abs(v[0] - v[1]) if fits(v[0] - v[1], l) and fits(abs(v[0] - v[1]), l) else None)
    op('max_of_neg', 2, lambda a, b: mpc.max(-a, b * b),
       lambda v: max(-v[0], v[1] ** 2) if fits(-v[0], l) and fits(v[1] ** 2, l) and fits(-v[0] - v[1] ** 2, l) else None)
    op('mod_of_sum', 2, lambda a, b: (a + b) % 3, lambda v: (v[0] + v[1]) % 3 if fits(v[0] + v[1], l) else None)
    op('ifelse_of_cmp', 2, lambda a, b: (a < b).if_else(a - 1, b * 2),
       lambda v: (v[0] - 1 if v[0] < v[1] else v[1] * 2) if fits(v[0] - 1, l) and fits(v[1] * 2, l) and fits(v[0] - 1 - 2 * v[1], l) else None)
    op('sgn_of_mul', 2, lambda a, b: mpc.sgn(a * b), lambda v: sgn(v[0] * v[1]) if fits(v[0] * v[1], l) else None)
    op('lsb_of_div', 1, lambda a: mpc.lsb(a // 2), lambda v: (v[0] // 2) & 1)
    return ops


def build_gcd_ops(mpc, T):
    """gcd family on SecInt(6) with operands of at most 4 bits (|a|,|b| <= 7)."""
    ops = {}
    g = math.gcd
    dom = list(range(-7, 8))
    alpha = [-7, -6, -4, -1, 0, 2, 3, 6, 7]

    def op(name, fn, ref, kind='value'):
        ops[name] = exact.Op(2, fn, ref, kind, make=T, domain=dom, mp_domain=alpha, maxpts=2)
    op('gcd', lambda a, b: mpc.gcd(a, b, l=4), lambda v: g(*v))
    op('gcd_default_l', lambda a, b: mpc.gcd(a, b), lambda v: g(*v) if max(map(abs, v)) <= 3 else None)
    op('lcm', lambda a, b: mpc.lcm(a, b, l=4), lambda v: (abs(v[0] * v[1]) // g(*v) if g(*v) else 0) if abs(v[0] * v[1]) <= 31 else None)
    op('gcdext', lambda a, b: list(mpc.gcdext(a, b, l=4)), lambda v: v, lambda got, want: _gcdext_ok(got, *want))
    op('inverse', lambda a, b: mpc.inverse(a, b, l=4), lambda v: pow(v[0], -1, v[1]) if v[0] >= 0 and v[1] > 0 and g(*v) == 1 else None)
    op('gcp2', lambda a, b: mpc.gcp2(a, b, l=4), lambda v: (g(*v) & -g(*v)) if g(*v) else None)
    return ops




def build(mpc):
    return build_ops(mpc, mpc.SecInt(L), L)


def build_gcd(mpc):
    return build_gcd_ops(mpc, mpc.SecInt(6))


def build_iszero64(mpc):
    """The probabilistic zero test ([NO07], used when l/2 > k >= 8 and p = 3 mod 4) with several parties: SecInt(64), k = 30."""
    T = mpc.SecInt(64)
    ops = {}
    dom = [0, 1, -1, 2, 255, -256, 2 ** 62, -2 ** 63, 12345]
    ops['is_zero64'] = exact.Op(1, lambda a: mpc.is_zero(a), lambda v: int(v[0] == 0), 'value', make=T, domain=dom, mp_domain=dom, maxpts=0)
    ops['eq64'] = exact.Op(2, lambda a, b: a == b, lambda v: int(v[0] == v[1]), 'value', make=T, domain=dom, mp_domain=[0, 1, -1, 2 ** 62, 12345], maxpts=0)
    ops['ne64'] = exact.Op(2, lambda a, b: a != b, lambda v: int(v[0] != v[1]), 'value', make=T, domain=dom, mp_domain=[0, -1, 255, 12345], maxpts=0)
    for o in ops.values():
        o.full = -1          # seeded masks only: the test is statistical (2^-k)
    return ops


def jobs(tier, seed):
    out = []
    names = sorted(build(exact.Dummy()))
    ks = (2, 5) if tier == 'quick' else (2, 3, 5, 6)
    groups = [names[i::12] for i in range(12)]
    for k in ks:
        for g in groups:
            out.append(dict(engine='sp', k=k, ops=g, tier=tier, seed=seed))
    gnames = sorted(build_gcd(exact.Dummy()))
    for n in gnames:
        out.append(dict(engine='sp_gcd', k=2, ops=[n], tier=tier, seed=seed))
    out.append(dict(engine='sp_iszero', tier=tier, seed=seed))
    for (m_, t_) in ((3, 1), (4, 1)) if tier == 'quick' else ((3, 1), (4, 1), (5, 2), (2, 0)):
        for np_ in (False, True):
            out.append(dict(engine='mp_iszero', m=m_, t=t_, no_prss=np_, part=0, parts=1, k=30, tier=tier, seed=seed))
    out += exact.mp_jobs(tier, seed, exact.QUICK_CFGS)
    if tier == 'thorough':
        out += exact.mp_jobs(tier, seed, exact.CORE_CFGS, mmax=3, parts=lambda m: 2, extra=dict(engine='mp_gcd'))
    else:
        out += [dict(engine='mp_gcd', m=3, t=1, no_prss=np_, part=p, parts=4, tier=tier, seed=seed) for np_ in (False, True) for p in range(4)]
    out.sort(key=lambda j: -(j.get('m', 0)))
    return out


def run_job(job):
    if job['engine'] == 'sp':
        return exact.run_sp('C01', job, build)
    if job['engine'] == 'sp_gcd':
        return exact.run_sp('C01', job, build_gcd, cfgname='sp/gcd/k2')
    if job['engine'] == 'sp_iszero':
        return run_sp_iszero(job)
    if job['engine'] == 'mp_iszero':
        return exact.run_mp('C01', job, build_iszero64, batch=12, patterns=('seeded',))
    if job['engine'] == 'mp_gcd':
        return exact.run_mp('C01', job, build_gcd, batch=6, patterns=('seeded', 'max'),
                            names=('gcd', 'gcdext', 'inverse') if job['tier'] == 'quick' else None)
    return exact.run_mp('C01', job, build)


def run_sp_iszero(job):
    """The probabilistic zero test _is_zero (used when l/2 > k >= 8 and p = 3 mod 4): for a == 0 it is always right; for
    a != 0 it errs exactly when all k quadratic-residue coins agree (probability 2^-k by design).  That event is part of the
    protocol, not a defect, so the check runs at a production-size k = 30 (SecInt(64)), where the seeded runs never meet it
    (an earlier version used k = 8 and 440 runs, which meets the 2^-8 event most of the time: a false alarm of mine, corrected)."""
    from mc import sp
    part = Part()
    mpc, seam = sp.setup(sec_param=30, no_prss=True)
    T = mpc.SecInt(64)
    assert T.bit_length / 2 > 30 and T.field.order % 4 == 3
    for v in [0, 1, -1, 2, 3, 255, -256, 2 ** 63 - 1, -2 ** 63, 12345, -54321, 2 ** 40 + 1]:
        for s in range(3 if job['tier'] == 'quick' else 12):
            seam.begin('seeded', job['seed'] * 1000 + s, None)
            got = sp.opened(mpc, mpc.is_zero(T(v)))
            part.case(key=None)
            part.outcomes.add(got)
            if got != int(v == 0):
                part.violation('C01:_is_zero', f'[sp/l64/k30] is_zero({v}) = {got} (seeded masks #{s})',
                               dict(engine='sp_iszero', v=v, s=s, seed=job['seed']))
    return part


def replay(case):
    if case.get('engine') == 'sp':
        b = build_gcd if case.get('cfg', '').startswith('sp/gcd') else build
        return exact.replay_sp('C01', case, b)
    if case.get('engine') == 'mp':
        job = case['job']
        return run_job(job)
    return run_sp_iszero(dict(tier='quick', seed=case.get('seed', 0)))
