"""C29 -- secure sorting and selection are correct for every input order.

Three engines on the real code (runtime.sorted/_sort/min/max/min_max/argmin/argmax, seclist.sort):
 * sweep : single party, synchronous, seeded masks (all-zero / all-max masks as well on the domains of <= 32 vectors):
           the 0-1 principle on the REAL comparator network -- all 2^n vectors of secure bits for every
           n <= 10 (thorough: 12) through every entry point (sorted, reverse, key, seclist.sort, _sort,
           lists of [key, payload] rows, fixed-point keys); all permutations of n <= 6 (thorough: 7)
           distinct values; all vectors over {0,1,2} for n <= 5 (thorough: 6, selection 7) and over the SecInt(4)
           extremes {-8,-1,0,7} for n <= 4 (thorough: 5); the selection functions on the same domains (ties!);
 * table : the same operations as exact.Op tables on the small vectors with every mask script of
           mc/sp.py (zero / max / seeded / point scripts at the first draws of the comparison protocol);
 * mp    : real multi-party executions (virtual world) on a reduced alphabet of vectors.
Oracle: written out below -- output is a permutation of the input whose keys are monotone (no stability
demanded); min/max/min_max give an input element with extreme key; argmin/argmax give the FIRST index
with extreme key and the element at that index.
"""

import itertools

from mc.core import Part, stable_hash
from mc import exact
from mc.ref import vecsweep

LEVEL = 'exploration'
FRESH_PROCESS_PER_JOB = True
RULE = ('one case = (entry point, input vector, configuration, mask script); sweep: all 0-1 vectors n <= 10 (12), all '
        'permutations n <= 6 (7), all vectors over {0,1,2} (n <= 5 (6; selection 7)) and over {-8,-1,0,7} (n <= 4 (5)) with seeded masks (+ all-0 / '
        'all-max masks for domains of at most 32 vectors); table: vectors over {0,1,2} n <= 4 (5), extremes n <= 3 (4), fixed-point n <= 3 x all mask scripts; '
        'mp: reduced vector alphabet x (m,t,PRSS) x mask patterns; non-trivial = at least one comparison (random draw) or several parties')
ASSUMPTIONS = ['the comparison a < b itself (all value pairs, all masks) is property C01/C02; here it is exercised inside the networks',
               'secure finite-field elements have no order (SecureFiniteField.__lt__ is NotImplemented): sorting covers secure integers, '
               'fixed-point numbers and rows (lists) of them with a key',
               'key functions used: identity, negation, squaring (non-injective), first column of a row',
               'multi-party runs use the default eager schedule (C08 covers schedules)']
MANIFEST = dict(
    level='exploration',
    technique='0-1 principle by exhaustive enumeration of all 2^n bit vectors (plus all permutations / small multisets) on the real comparator network and tournament code, against a written-out sortedness/permutation oracle',
    text='sorted (reverse, key), seclist.sort, _sort on ALL 2^n vectors of secure bits for every n <= 10 (thorough 12), all permutations of '
         'n <= 6 (7) values, all vectors over {0,1,2} (n <= 5, thorough 6-7) and over the range extremes {-8,-1,0,7} of SecInt(4) (n <= 4, thorough 5), rows [key, payload] and '
         'fixed-point keys; result must be a permutation of the input in ascending/descending key order. min, max, min_max (both call forms, '
         'generators, key=) must return extreme elements and argmin/argmax the FIRST extreme index with its element, on the same domains '
         '(every tie pattern). Small vectors additionally with every mask script of the comparison protocol and on real multi-party '
         'executions (quick: (3,1) PRSS on/off; thorough: (2,0), (3,1), (5,2), PRSS on/off).',
    ref='DESIGN 5/C29', note='trusted: randomness seam, world model, Python sorted()/min()/max() on plain tuples as oracle')

K = 3            # sec_param of the single-party runs


def neg(a):
    return -a


def sq(a):
    return a * a


def first(a):
    return a[0]


def ident(a):
    return a


def _pow2class(n):
    return 'n-pow2' if n & (n - 1) == 0 else 'n-nonpow2'


def chk_sorted(key=ident, desc=False):
    def cmp(got, vec):
        vec = list(vec)
        if not isinstance(got, list) or len(got) != len(vec):
            return 'wrong-length'
        if sorted(got) != sorted(vec):
            return 'not-a-permutation:' + _pow2class(len(vec))
        ks = [key(g) for g in got]
        ok = all(ks[i] >= ks[i + 1] for i in range(len(ks) - 1)) if desc else all(ks[i] <= ks[i + 1] for i in range(len(ks) - 1))
        return True if ok else 'not-in-order:' + _pow2class(len(vec))
    return cmp


def chk_rows(desc=False):
    def cmp(got, vec):
        n = len(vec)
        if not isinstance(got, list) or len(got) != 2 * n:
            return 'wrong-length'
        rows = [(got[2 * i], got[2 * i + 1]) for i in range(n)]
        if sorted(rows) != sorted((v, i) for i, v in enumerate(vec)):
            return 'rows-not-a-permutation:' + _pow2class(n)
        ks = [r[0] for r in rows]
        ok = all(ks[i] >= ks[i + 1] for i in range(n - 1)) if desc else all(ks[i] <= ks[i + 1] for i in range(n - 1))
        return True if ok else 'not-in-order:' + _pow2class(n)
    return cmp


def chk_extreme(key=ident, mx=False):
    def cmp(got, vec):
        ks = [key(v) for v in vec]
        want = max(ks) if mx else min(ks)
        if isinstance(got, list) or got not in vec:
            return 'not-an-element'
        return key(got) == want
    return cmp


def chk_min_max(key=ident):
    def cmp(got, vec):
        ks = [key(v) for v in vec]
        return (isinstance(got, list) and len(got) == 2 and got[0] in vec and got[1] in vec
                and key(got[0]) == min(ks) and key(got[1]) == max(ks))
    return cmp


def chk_arg(key=ident, mx=False):
    def cmp(got, vec):
        ks = [key(v) for v in vec]
        want = ks.index(max(ks) if mx else min(ks))
        if not isinstance(got, list) or len(got) != 2:
            return 'wrong-shape'
        if got[0] != want:
            return 'index-not-first-extreme' if 0 <= got[0] < len(vec) and got[0] == int(got[0]) and ks[int(got[0])] == ks[want] else 'wrong-index'
        return True if got[1] == vec[want] else 'wrong-element'
    return cmp


def chk_arg_rows(mx=False):
    def cmp(got, vec):
        ks = list(vec)
        want = ks.index(max(ks) if mx else min(ks))
        if not isinstance(got, list) or len(got) != 3:
            return 'wrong-shape'
        if got[0] != want:
            return 'index-not-first-extreme' if 0 <= got[0] < len(vec) and ks[int(got[0])] == ks[want] else 'wrong-index'
        return True if got[1:] == [vec[want], want] else 'wrong-element'
    return cmp


def chk_row_extreme(mx=False):
    def cmp(got, vec):
        want = max(vec) if mx else min(vec)
        return isinstance(got, list) and len(got) == 2 and got[0] == want and 0 <= got[1] < len(vec) and vec[int(got[1])] == want
    return cmp


# ------------------------------------------------------------------------------------------
# domains
# ------------------------------------------------------------------------------------------

def vectors(alpha, nmin, nmax):
    return [v for n in range(nmin, nmax + 1) for v in itertools.product(alpha, repeat=n)]


EXT = (-8, -1, 0, 7)                         # SecInt(4): range extremes and a negative value
FXPV = (-4, -0.125, 1, 1.5)                  # SecFxp(6,3): minimum, -1 ulp, an integral-flagged 1, a fraction
SQV = (-1, 0, 1, 2)                          # squares tie (-1, 1)
MP_VECS = ([v for n in (1, 2, 3) for v in itertools.product((0, 1), repeat=n)]
           + [(0, 1, 1, 0), (1, 0, 1, 0), (1, 1, 0, 0), (1, 0, 0, 0, 1), (1, 1, 0, 1, 0, 0), (2, 1, 0, 2, 1)]
           + list(itertools.permutations((-8, 0, 7))) + [(7, -8), (-8, 7), (-1, -1, -8, 7, 0, 7, -8)])
MP_VECS_QUICK = [(1,), (0, 1), (1, 0), (1, 1), (1, 0, 1), (0, 1, 0), (1, 1, 0), (1, 0, 1, 0), (2, 1, 0, 2, 1), (7, 0, -8), (0, -8, 7), (7, -8)]
MP_FXP = [(1.5,), (1.5, -0.125), (-4, 1.5, 1), (1, -0.125, -4, 1), (3.875, -4, 3.875, 0.125, -0.125)]
MP_SQ = [(1, -1), (-1, 1, 0), (2, -1, 1, -2), (0, 1, -1, 0, 2)]


def perm_values(n):
    """n distinct values around 0 (negative ones included), within SecInt(4)."""
    return tuple(range(-(n // 2), n - n // 2))


def no_min8(v):
    return v[0] if -8 not in v[0] else None      # -(-8) does not fit SecInt(4)


def sqfits(v):
    return v[0] if all(abs(a) <= 2 for a in v[0]) else None


def build(mpc, tier='quick'):
    T = mpc.SecInt(4)
    F = mpc.SecFxp(6, 3)
    ops = {}
    thorough = tier == 'thorough'
    D3 = vectors((0, 1, 2), 0, 5 if thorough else 4)
    DX = vectors(EXT, 1, 4 if thorough else 3)
    DF = vectors(FXPV, 0, 4 if thorough else 3)
    DS = vectors(SQV, 1, 4 if thorough else 3)

    def shared(x):
        if len(mpc.parties) > 1 and x:
            if getattr(type(x[0]), 'frac_length', 0):
                return [mpc.input(a, senders=0) for a in x]     # a list input would take the integral flag of x[0] for all (C03)
            return mpc.input(x, senders=0)
        return x

    def mk(vec):
        return shared([T(v) for v in vec])

    def mkf(vec):
        return shared([F(int(v)) if v == int(v) else F(v) for v in vec])

    def mkrows(vec):
        flat = shared([T(v) for v in vec] + [T(i) for i in range(len(vec))])
        n = len(vec)
        return [[flat[i], flat[n + i]] for i in range(n)]

    def flat(rows):
        return [c for r in rows for c in r]

    def seclist_sort(x, **kw):
        s = mpc.seclist(x)
        r = s.sort(**kw)
        assert r is None
        return list(s)

    def op(name, fn, kind, ref=lambda v: v[0], make=mk, dom=None, mpd=None, nmin=0):
        dom = (D3 + DX) if dom is None else dom
        mpd = (MP_VECS if thorough else MP_VECS_QUICK) if mpd is None else (mpd if thorough else mpd[1:4])
        ops[name] = exact.Op(1, fn, (lambda v, ref=ref, nmin=nmin: ref(v) if len(v[0]) >= nmin else None), kind, make=make,
                             domain=[v for v in dom if len(v) >= nmin], mp_domain=[v for v in mpd if len(v) >= nmin], maxpts=2)

    # -- sorting ---------------------------------------------------------------------------
    op('sorted', lambda x: mpc.sorted(x), chk_sorted())
    op('sorted:reverse', lambda x: mpc.sorted(x, reverse=True), chk_sorted(desc=True))
    op('sorted:key', lambda x: mpc.sorted(x, key=neg), chk_sorted(neg), ref=no_min8)
    op('sorted:key+reverse', lambda x: mpc.sorted(x, key=neg, reverse=True), chk_sorted(neg, desc=True), ref=no_min8)
    op('sorted:key_sq', lambda x: mpc.sorted(x, key=sq), chk_sorted(sq), ref=sqfits, dom=DS, mpd=MP_SQ)
    op('sorted:generator', lambda x: mpc.sorted(iter(x)), chk_sorted())
    op('seclist.sort', lambda x: seclist_sort(x), chk_sorted(), nmin=1)
    op('seclist.sort:reverse', lambda x: seclist_sort(x, reverse=True), chk_sorted(desc=True), nmin=1)
    op('seclist.sort:key+reverse', lambda x: seclist_sort(x, key=neg, reverse=True), chk_sorted(neg, desc=True), ref=no_min8, nmin=1)
    op('_sort', lambda x: mpc._sort(list(x), ident), chk_sorted(), nmin=2)
    op('sorted:rows', lambda x: flat(mpc.sorted(x, key=first)), chk_rows(), make=mkrows, dom=D3)
    op('sorted:rows+reverse', lambda x: flat(mpc.sorted(x, key=first, reverse=True)), chk_rows(desc=True), make=mkrows, dom=D3)
    op('sorted:fxp', lambda x: mpc.sorted(x), chk_sorted(), make=mkf, dom=DF, mpd=MP_FXP)
    op('sorted:fxp+reverse', lambda x: mpc.sorted(x, reverse=True), chk_sorted(desc=True), make=mkf, dom=DF, mpd=MP_FXP)
    # -- selection -------------------------------------------------------------------------
    op('min', lambda x: mpc.min(x), chk_extreme(), nmin=1)
    op('min:args', lambda x: mpc.min(*x), chk_extreme(), nmin=2)
    op('min:generator', lambda x: mpc.min(iter(x)), chk_extreme(), nmin=1)
    op('min:key', lambda x: mpc.min(x, key=neg), chk_extreme(neg), ref=no_min8, nmin=1)
    op('min:key_sq', lambda x: mpc.min(x, key=sq), chk_extreme(sq), ref=sqfits, dom=DS, mpd=MP_SQ, nmin=1)
    op('max', lambda x: mpc.max(x), chk_extreme(mx=True), nmin=1)
    op('max:args', lambda x: mpc.max(*x), chk_extreme(mx=True), nmin=2)
    op('max:generator', lambda x: mpc.max(iter(x)), chk_extreme(mx=True), nmin=1)
    op('max:key', lambda x: mpc.max(x, key=neg), chk_extreme(neg, mx=True), ref=no_min8, nmin=1)
    op('max:key_sq', lambda x: mpc.max(x, key=sq), chk_extreme(sq, mx=True), ref=sqfits, dom=DS, mpd=MP_SQ, nmin=1)
    op('min_max', lambda x: list(mpc.min_max(x)), chk_min_max(), nmin=1)
    op('min_max:args', lambda x: list(mpc.min_max(*x)), chk_min_max(), nmin=2)
    op('min_max:generator', lambda x: list(mpc.min_max(iter(x))), chk_min_max(), nmin=1)
    op('min_max:key', lambda x: list(mpc.min_max(x, key=neg)), chk_min_max(neg), ref=no_min8, nmin=1)
    op('argmin', lambda x: list(mpc.argmin(x)), chk_arg(), nmin=1)
    op('argmin:args', lambda x: list(mpc.argmin(*x)), chk_arg(), nmin=2)
    op('argmin:key', lambda x: list(mpc.argmin(x, key=neg)), chk_arg(neg), ref=no_min8, nmin=1)
    op('argmin:key_sq', lambda x: list(mpc.argmin(x, key=sq)), chk_arg(sq), ref=sqfits, dom=DS, mpd=MP_SQ, nmin=1)
    op('argmax', lambda x: list(mpc.argmax(x)), chk_arg(mx=True), nmin=1)
    op('argmax:args', lambda x: list(mpc.argmax(*x)), chk_arg(mx=True), nmin=2)
    op('argmax:generator', lambda x: list(mpc.argmax(iter(x))), chk_arg(mx=True), nmin=1)
    op('argmax:key', lambda x: list(mpc.argmax(x, key=neg)), chk_arg(neg, mx=True), ref=no_min8, nmin=1)
    op('argmax:key_sq', lambda x: list(mpc.argmax(x, key=sq)), chk_arg(sq, mx=True), ref=sqfits, dom=DS, mpd=MP_SQ, nmin=1)
    op('min:fxp', lambda x: mpc.min(x), chk_extreme(), make=mkf, dom=DF, mpd=MP_FXP, nmin=1)
    op('max:fxp', lambda x: mpc.max(x), chk_extreme(mx=True), make=mkf, dom=DF, mpd=MP_FXP, nmin=1)
    op('min_max:fxp', lambda x: list(mpc.min_max(x)), chk_min_max(), make=mkf, dom=DF, mpd=MP_FXP, nmin=1)
    op('argmin:fxp', lambda x: list(mpc.argmin(x)), chk_arg(), make=mkf, dom=DF, mpd=MP_FXP, nmin=1)
    op('argmax:fxp', lambda x: list(mpc.argmax(x)), chk_arg(mx=True), make=mkf, dom=DF, mpd=MP_FXP, nmin=1)
    # rows (lists of secure numbers) with a key, as documented for sorted() and referred to by min/max/argmin/argmax
    op('min:rows', lambda x: mpc.min(x, key=first), chk_row_extreme(), make=mkrows, dom=D3, nmin=1)
    op('max:rows', lambda x: mpc.max(x, key=first), chk_row_extreme(mx=True), make=mkrows, dom=D3, nmin=1)
    op('argmin:rows', lambda x: (lambda a, m: [a] + m)(*mpc.argmin(x, key=first)), chk_arg_rows(), make=mkrows, dom=D3, nmin=1)
    op('argmax:rows', lambda x: (lambda a, m: [a] + m)(*mpc.argmax(x, key=first)), chk_arg_rows(mx=True), make=mkrows, dom=D3, nmin=1)
    op('min_max:rows_key', lambda x: flat(mpc.min_max(x, key=first)),
       lambda got, vec: (isinstance(got, list) and len(got) == 4 and chk_row_extreme()(got[:2], vec) is True
                         and chk_row_extreme(mx=True)(got[2:], vec) is True), make=mkrows, dom=D3, nmin=1)
    return ops


SORT_OPS = ['sorted', 'sorted:reverse', 'sorted:key', 'sorted:key+reverse', 'seclist.sort', 'seclist.sort:reverse',
            'seclist.sort:key+reverse', '_sort']
SORT_OPS_SMALL = ['sorted:rows', 'sorted:rows+reverse', 'sorted:fxp', 'sorted:generator']
SELECT_OPS = ['min', 'min:args', 'min:key', 'max', 'max:generator', 'max:key', 'min_max', 'min_max:args', 'min_max:key',
              'argmin', 'argmin:key', 'argmax', 'argmax:args', 'argmax:key', 'argmin:rows', 'argmax:rows', 'min:rows', 'max:rows']
SELECT_SQ = ['min:key_sq', 'max:key_sq', 'argmin:key_sq', 'argmax:key_sq', 'sorted:key_sq']


def sweep_domain(kind, n):
    if kind == '01':
        return itertools.product((0, 1), repeat=n)
    if kind == '01fxp':
        return itertools.product((-0.125, 1), repeat=n)
    if kind == 'perm':
        return itertools.permutations(perm_values(n))
    if kind == 'ms3':
        return itertools.product((0, 1, 2), repeat=n)
    if kind == 'ext':
        return itertools.product(EXT, repeat=n)
    if kind == 'sq':
        return itertools.product((-2, -1, 0, 1, 2), repeat=n)
    raise ValueError(kind)


def sweep_size(kind, n):
    import math
    return {'01': 2 ** n, '01fxp': 2 ** n, 'perm': math.factorial(n), 'ms3': 3 ** n, 'ext': 4 ** n, 'sq': 5 ** n}[kind]


def jobs(tier, seed):
    out = []
    thorough = tier == 'thorough'

    tasks = []

    def sweep(names, kind, ns, cost=1.0):
        # rows: payload = position must fit SecInt(4)
        tasks.extend(vecsweep.tasks_for(names, kind, ns, sweep_size, cost=cost, skip=lambda name, n: 'rows' in name and n > 8))

    nmax = 12 if thorough else 10
    sweep(SORT_OPS, '01', range(0, nmax + 1))
    sweep(SORT_OPS_SMALL, '01', range(0, nmax - 1))
    sweep(['sorted:fxp', 'sorted:fxp+reverse'], '01fxp', range(0, nmax - 3), cost=1.5)
    sweep(SELECT_OPS, '01', range(1, nmax - 1), cost=0.4)
    pmax = 7 if thorough else 6
    sweep(SORT_OPS + SORT_OPS_SMALL[:2], 'perm', range(0, pmax + 1))
    sweep(SELECT_OPS, 'perm', range(1, pmax + 1), cost=0.4)
    # vectors over {0,1,2} with n <= 4 (5) and over the extremes with n <= 3 (4) are in the tables (all mask scripts): the next length here
    sweep(SORT_OPS + SORT_OPS_SMALL[:2], 'ms3', (6,) if thorough else (5,))
    sweep(SELECT_OPS, 'ms3', (6, 7) if thorough else (5,), cost=0.4)
    sweep(['sorted', 'sorted:reverse', 'seclist.sort', 'min', 'max', 'min_max', 'min_max:args', 'argmin', 'argmax'], 'ext',
          (5,) if thorough else (4,))
    sweep(SELECT_SQ, 'sq', range(1, 5 if thorough else 4))
    out += vecsweep.pack(tasks, 60000 if thorough else 24000, tier, seed)
    # operation tables with all mask scripts
    names = sorted(build(exact.Dummy(), tier))
    ng = 24 if thorough else 8
    for i in range(ng):
        out.append(dict(engine='sp', k=K, ops=names[i::ng], tier=tier, seed=seed, w=10 ** 6))
    out.append(dict(engine='direct', tier=tier, seed=seed, w=1))
    # multi-party
    cfgs = [(3, 1, False), (3, 1, True)] if not thorough else [(2, 0, False), (2, 0, True), (3, 1, False), (3, 1, True), (5, 2, False), (5, 2, True)]
    for m, t, no_prss in cfgs:
        parts = (6 if m <= 3 else 12) if thorough else 3
        for p in range(parts):
            out.append(dict(engine='mp', m=m, t=t, no_prss=no_prss, part=p, parts=parts, tier=tier, seed=seed, w=10 ** 7))
    out.sort(key=lambda j: -j['w'])
    return out


def run_job(job):
    if job['engine'] == 'sp':
        return exact.run_sp('C29', job, lambda mpc: build(mpc, job['tier']))
    if job['engine'] == 'sweep':
        return run_sweep(job)
    if job['engine'] == 'direct':
        return run_direct(job)
    pats = ('seeded', 'zero', 'max') if job['tier'] == 'thorough' else ('seeded', 'max')
    return exact.run_mp('C29', job, lambda mpc: build(mpc, job['tier']), batch=16, patterns=pats)


def run_sweep(job):
    return vecsweep.run_sweep('C29', job, lambda mpc: build(mpc, job['tier']), K, sweep_domain, sweep_size)


def run_direct(job):
    """Documented error behaviour and the in-place / new-list contracts."""
    from mc import sp
    part = Part()
    mpc, seam = sp.setup(sec_param=K, no_prss=True)
    seam.begin('seeded', job['seed'], None)
    T = mpc.SecInt(4)
    for name, fn in (('min', mpc.min), ('max', mpc.max), ('min_max', mpc.min_max), ('argmin', mpc.argmin), ('argmax', mpc.argmax)):
        part.case(key=('empty', name), nontrivial=True)
        try:
            r = fn([])
            part.violation(f'C29:{name}:empty-no-error', f'{name}([]) returned {r!r} instead of raising ValueError like the built-in', dict(engine='direct'))
        except ValueError:
            part.outcomes.add(('ValueError', name))
        except Exception as exc:
            part.violation(f'C29:{name}:empty-no-error', f'{name}([]) raised {exc!r} instead of ValueError', dict(engine='direct'))
    # sorted() returns a new list and leaves its argument alone; seclist.sort() returns None and leaves the list it was built from alone
    # (that it sorts in place is what the seclist.sort operations of the tables observe)
    x = [T(2), T(0), T(1)]
    x0 = list(x)
    y = mpc.sorted(x)
    part.case(key=('new-list',), nontrivial=True)
    if y is x or any(a is not b for a, b in zip(x, x0)):
        part.violation('C29:sorted:not-a-new-list', 'sorted(x) modified or returned its argument', dict(engine='direct'))
    s = mpc.seclist(x)
    r = s.sort()
    part.case(key=('in-place',), nontrivial=True)
    if r is not None or any(a is not b for a, b in zip(x, x0)) or len(s) != 3:
        part.violation('C29:seclist.sort:contract', 'seclist.sort() returned a value or touched the list the seclist was built from', dict(engine='direct'))
    part.outcomes.add('contracts')
    return part


def replay(case):
    if case.get('engine') == 'sp':
        return exact.replay_sp('C29', case, lambda mpc: build(mpc, case.get('tier', 'thorough')))
    if case.get('engine') == 'mp':
        return run_job(case['job'])
    return run_direct(dict(seed=0, tier='quick'))
