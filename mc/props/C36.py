"""C36 -- a crashed or disconnected party never makes others output wrong values.

Fault enumeration on the real runtime in the virtual world: for every party p and EVERY byte
boundary of everything p ever writes (in p's program order: earlier writes complete, the
current write cut, later writes absent), p stops for good; its streams end with EOF or with a
connection reset.  The survivors are scheduled to quiescence and every value their programs
obtained must equal the reference value of the fault-free run.
"""

from mc.core import Part, stable_hash
from mc.world import World
from mc.explorer import run_execution
from mc.programs import PROGRAMS
from mc import sched

LEVEL = 'fault_enumeration'
RULE = ('(thorough: every byte; quick: every byte for batches <= 120 bytes, else the first 40 bytes and every header/payload edge) one case = (program, m, t, PRSS mode, default policy, crashing party p, loop iteration of p, cut position in '
        'the bytes p writes in that iteration, eof|reset [, one scheduling deviation]); ALL iterations x ALL byte '
        'cuts are enumerated; non-trivial = the crash happens before p\'s program finished; distinct outcomes = '
        'survivors\' completed-output patterns')
ASSUMPTIONS = ['a crash is fail-stop: bytes already handed to the transport in program order up to the cut arrive, nothing later',
               'surviving parties may stop, raise or wait forever: only wrong values are violations',
               'event-loop/transport model of mc/world.py; seeded randomness']
MANIFEST = dict(
    level='fault_enumeration',
    technique='exhaustive crash-point enumeration (every byte boundary of every party\'s output; stream ends with EOF, reset, or silently) on the real runtime under a controlled scheduler',
    text='For 6 (thorough 9) corpus programs at (3,1) and (5,2), both PRSS modes, eager and lazy default schedules: every '
         'party crashes at every byte boundary of its outgoing traffic (incl. mid-handshake, mid-frame), stream ending in EOF '
         'or reset; thorough adds every single scheduling deviation before a per-iteration crash. Oracle: each value any '
         'survivor obtains from output/transfer equals the fault-free reference; not completing is allowed.',
    ref='DESIGN 5/C36', note='trusted: world model (fail-stop crash, FIFO links), reference = fault-free run checked against plain Python where given')

QUICK_PROGS = ('mul_cmp', 'reverse_await', 'transfer_graph', 'convert', 'subset_output', 'zero_tests', 'survivors')
THOROUGH_PROGS = QUICK_PROGS + ('fxp', 'small_field', 'user_coro', 'early_return', 'barrier_top', 'randoms')


def jobs(tier, seed):
    out = []
    progs = QUICK_PROGS if tier == 'quick' else THOROUGH_PROGS
    for name in progs:
        for m in (3, 4, 5):
            if m not in PROGRAMS[name]['ms'] or (m == 5 and tier == 'quick'):
                continue
            for no_prss in (False, True):
                if m == 4 and tier == 'quick' and no_prss:
                    continue
                for policy in (('eager',) if tier == 'quick' else ('eager', 'lazy')):
                    for p in range(m):
                        if m == 4 and tier == 'quick' and p > 1:
                            continue
                        slices = 4 if m == 3 else 8
                        if name in ('fxp',):
                            slices = 16
                        for k in range(slices):
                            out.append(dict(prog=name, m=m, t=(m - 1) // 2, no_prss=no_prss, policy=policy, p=p,
                                            k=k, slices=slices, seed=seed, tier=tier, devs=(tier == 'thorough' and m == 3 and name in QUICK_PROGS[:3])))
    return out


def crash_points(world, setup, policy, p):
    """Default run; returns [(point index of a run(p) step, [(q, nbytes) writes in order])] and the run."""
    writes = []
    cur = []

    def on_write(src, dst, data):
        if src == p:
            cur.append((dst, len(data)))
    pts = []
    world_on_write = on_write

    def hook(w, idx):
        if len(w.events) > hook.last:
            ev = w.events[-1]
            if ev[0] == 'run' and ev[1] == p:
                pts.append((idx - 1, list(cur)))
        hook.last = len(w.events)
        cur.clear()
    hook.last = 0

    def setup2(w):
        setup(w)
        w.on_write = world_on_write
    x = run_execution(world, setup2, (), policy, 'none', sched_alts=False, crash_hook=hook)
    return pts, x


def run_crash(world, setup, policy, p, point, writes, cut, mode, devs=()):
    def hook(w, idx):
        if idx - 1 == point and not w.crashed[p]:
            keep = {}
            total = 0
            dropped = {}
            for q, n in (writes or ()):
                lo, hi = total, total + n
                total = hi
                if cut <= lo:
                    dropped[q] = dropped.get(q, 0) + n
                elif cut < hi:
                    dropped[q] = dropped.get(q, 0) + (hi - cut)
            for q in range(w.m):
                link = w.links.get((p, q))
                if link is not None:
                    keep[q] = max(0, len(link.inflight) - dropped.get(q, 0))
            w.crash(p, keep, mode)
    return run_execution(world, setup, devs, policy, 'none', sched_alts=bool(devs), crash_hook=hook)


def run_job(job):
    part = Part()
    prog = PROGRAMS[job['prog']]
    m, p = job['m'], job['p']
    world = World(m, job['t'], job['no_prss'], seed=job['seed'])
    ctxs = []
    setup = sched.make_setup(prog, ctxs)
    policy = job['policy']
    pts, x0 = crash_points(world, setup, policy, p)
    if x0.status != 'done':
        part.violation(f"C36:{job['prog']}:reference", f'fault-free run ends {x0.status}', dict(job=job))
        return part
    ref = [dict_of(c) for c in ctxs]
    exp = prog['expect'](m) if prog['expect'] else None
    if exp is not None and any(c.log != exp for c in ctxs):
        part.violation(f"C36:{job['prog']}:reference", 'fault-free run differs from the plain reference', dict(job=job))
        return part
    cfg = f"{job['prog']}/m{m}t{job['t']}{'-noprss' if job['no_prss'] else ''}/{policy}/crash{p}"
    cases = []
    for point, writes in pts:
        total = sum(n for _, n in writes)
        if job.get('tier') == 'thorough' or total <= 120:
            cuts = range(0, total + 1)                      # every byte boundary
        else:
            # quick tier, long batches: every boundary inside the first 40 bytes, then around each write's header/payload edges
            keep = set(range(0, 41)) | {total}
            pos = 0
            for _, n in writes:
                keep.update(pos + d for d in (0, 1, 11, 12, 13, n - 1, n) if 0 <= d <= n)
                pos += n
            cuts = sorted(k for k in keep if 0 <= k <= total)
        for cut in cuts:
            cases.append((point, writes, cut))
    mine = cases[job['k']::job['slices']]
    main_done_at = None
    for point, writes, cut in mine:
        for mode in ('eof', 'reset', 'freeze'):
            x = run_crash(world, setup, policy, p, point, writes, cut, mode)
            judge(part, job, cfg, world, x, ctxs, ref, p, dict(point=point, cut=cut, mode=mode, writes=writes, devs=[]))
    if job['devs']:
        # one scheduling deviation somewhere before the crash, crash after a whole iteration (cut = all)
        from mc.explorer import first_level_deviations
        _, fl = first_level_deviations(world, setup, policy, 'none')
        mypts = pts[job['k']::job['slices']]
        for point, writes in mypts:
            total = sum(n for _, n in writes)
            for (i, a) in fl:
                if i >= point:
                    break
                # p stops after scheduler point `point` of the deviated run, everything written so far arrives
                x = run_crash(world, setup, policy, p, point, None, 0, 'eof', devs=((i, a),))
                judge(part, job, cfg, world, x, ctxs, ref, p, dict(point=point, cut=-1, mode='eof', writes=None, devs=[(i, a)]))
    part.note('crash_points', len(mine))
    return part


def dict_of(ctx):
    d = {}
    for tag, v in ctx.view():
        d.setdefault(tag, []).append(v)
    return d


def judge(part, job, cfg, world, x, ctxs, ref, p, detail):
    part.case(key=None, nontrivial=not (world.mains[p] is not None and world.mains[p].done()))
    part.transitions += x.nsteps
    pattern = []
    for q in range(world.m):
        if q == p:
            continue
        got = dict_of(ctxs[q])
        pattern.append(sum(len(v) for v in got.values()))
        for tag, vals in got.items():
            want = ref[q].get(tag, [])
            if vals != want[:len(vals)]:
                part.violation(f"C36:{job['prog']}:wrong-output",
                               f'[{cfg}] crash at iteration-point {detail["point"]} cut {detail["cut"]} ({detail["mode"]}): '
                               f'party {q} obtained {tag}={vals!r:.120} but the correct value is {want!r:.120}',
                               dict(job=job, **detail))
    part.outcomes.add(stable_hash((x.status, pattern)))
    if len(part.samples) < 2 and detail['cut'] > 0 and job['k'] == 0:
        part.sample(dict(config=cfg, crash=detail, status=x.status, survivors_completed_outputs=pattern))


def replay(case):
    part = Part()
    job = case['job']
    prog = PROGRAMS[job['prog']]
    world = World(job['m'], job['t'], job['no_prss'], seed=job['seed'])
    ctxs = []
    setup = sched.make_setup(prog, ctxs)
    pts, x0 = crash_points(world, setup, job['policy'], job['p'])
    ref = [dict_of(c) for c in ctxs]
    devs = tuple((i, a) for i, a in case.get('devs', []))
    x = run_crash(world, setup, job['policy'], job['p'], case['point'], ([tuple(w) for w in case['writes']] if case.get('writes') is not None else None), case['cut'],
                  case['mode'], devs)
    judge(part, job, 'replay', world, x, ctxs, ref, job['p'], case)
    return part
