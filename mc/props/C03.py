"""C03 -- fixed-point integrality flags are never wrong.

Every fixed-point operation (scalar, vector, matrix, selection, conversion), applied to ALL operand
tuples over an alphabet that mixes whole numbers marked integral, whole numbers not marked, and
non-whole numbers -- in particular vectors whose FIRST element is integral and a later one is not --
at depth 1 and 2.  Oracle: a result marked integral opens to a whole number, and every result is
the plain value within the rounding tolerance (so a computation that trusted a wrong mark, and
skipped a truncation or divided by 2^f exactly, is seen).
"""

import itertools
import math
from fractions import Fraction as Fr

from mc.core import Part, stable_hash
from mc import exact

LEVEL = 'exploration'
FRESH_PROCESS_PER_JOB = True
RULE = ('one case = (operation, operand tuple with integrality marks, configuration, mask pattern); all tuples over the 9-point '
        'marked alphabet (vectors of length 2 and 3, 2x2 matrices on a reduced alphabet); non-trivial = some operand is not whole or '
        'not marked integral')
ASSUMPTIONS = ['mask patterns: seeded (2 seeds) and all-max; the all-zero pattern is not used here: the vector products truncate with l = bit_length (not + f) and rely on the statistical slack of the mask for large products',
               'marks given by the caller are truthful (integral=True only on whole numbers): the check creates no false marks itself',
               'conditions of if_else/if_swap are comparison results (integral by construction)',
               'value tolerance: 2 units per multiplication/truncation level (the bounds themselves are C02)']
MANIFEST = dict(
    level='exploration',
    technique='bounded-exhaustive enumeration of operand tuples with integrality marks on the real runtime; flag and value oracle',
    text='All scalar/vector/matrix fixed-point operations on SecFxp(12,4) over an alphabet mixing marked-integral, unmarked-whole and '
         'non-whole values (vectors whose first element is integral and a later one is not), depth 1 and 2, single party with '
         'seeded/all-zero/all-max masks and (3,1) multi-party incl. list input and resharing: marked integral => opens to a whole number; '
         'values equal the plain result within tolerance.',
    ref='DESIGN 5/C03, 6.2', note='trusted: Fraction reference, randomness seam, world model')

L_, F_ = 12, 4
# (value, integral mark): None = let the constructor infer it
ALPHA = [(Fr(0), None), (Fr(1), None), (Fr(-2), None), (Fr(3), False), (Fr(1, 2), None), (Fr(-5, 4), None), (Fr(33, 16), None),
         (Fr(2), 'float'), (Fr(-1), 'float')]


def mk(T, a):
    v, mark = a
    if mark == 'float':
        return T(float(v))                 # whole float: inferred integral
    if mark is False:
        return T(int(v), integral=False)   # whole, but not marked
    if v.denominator == 1:
        return T(int(v))
    return T(float(v))


def val(a):
    return a[0]


def ops_table(mpc, T):
    """name -> (arity, fn(*secure) -> list of secure results, ref(*plain Fractions) -> list, tolerance in units)"""
    t = {}

    def op(name, arity, fn, ref, tol):
        t[name] = (arity, fn, ref, tol)
    u = Fr(1, 1 << F_)
    op('neg', 1, lambda a: [-a], lambda a: [-a], 0)
    op('pos', 1, lambda a: [+a], lambda a: [a], 0)
    op('abs', 1, lambda a: [abs(a)], lambda a: [abs(a)], 0)
    op('lshift1', 1, lambda a: [a << 1], lambda a: [2 * a], 0)
    op('lshift4', 1, lambda a: [a << 4], lambda a: [16 * a], 0)
    op('mul_int', 1, lambda a: [a * 3], lambda a: [3 * a], 1)
    op('mul_float_half', 1, lambda a: [a * 0.5], lambda a: [a / 2], 4)
    op('mul_float_whole', 1, lambda a: [a * 2.0], lambda a: [2 * a], 4)
    op('mul_float_quarter3', 1, lambda a: [a * 0.75], lambda a: [a * Fr(3, 4)], 4)
    op('div_pub2', 1, lambda a: [a / 2], lambda a: [a / 2], 4)
    op('square', 1, lambda a: [a * a], lambda a: [a * a], 2)
    op('pow2', 1, lambda a: [a ** 2], lambda a: [a * a], 4)
    op('sgn', 1, lambda a: [mpc.sgn(a)], lambda a: [Fr((a > 0) - (a < 0))], 0)
    op('is_zero', 1, lambda a: [a == 0], lambda a: [Fr(int(a == 0))], 0)
    op('trunc_self', 1, lambda a: [mpc.trunc(a, f=2)], lambda a: [None], 0)
    op('add', 2, lambda a, b: [a + b], lambda a, b: [a + b], 0)
    op('sub', 2, lambda a, b: [a - b], lambda a, b: [a - b], 0)
    op('mul', 2, lambda a, b: [a * b], lambda a, b: [a * b], 2)
    op('add_pub', 1, lambda a: [a + 2, a + 0.5, 3 - a], lambda a: [a + 2, a + Fr(1, 2), 3 - a], 0)
    op('lt', 2, lambda a, b: [a < b], lambda a, b: [Fr(int(a < b))], 0)
    op('max', 2, lambda a, b: [mpc.max(a, b)], lambda a, b: [max(a, b)], 0)
    op('min_max', 2, lambda a, b: list(mpc.min_max(a, b)), lambda a, b: [min(a, b), max(a, b)], 0)
    op('if_else', 2, lambda a, b: [mpc.if_else(a < b, a, b)], lambda a, b: [a if a < b else b], 2)
    op('if_else_list', 3, lambda a, b, c: mpc.if_else(a < b, [a, c], [c, b]), lambda a, b, c: [a, c] if a < b else [c, b], 2)
    op('if_swap_list', 3, lambda a, b, c: [x for p in mpc.if_swap(a < b, [a, c], [b, b]) for x in p],
       lambda a, b, c: [b, b, a, c] if a < b else [a, c, b, b], 2)
    # the condition is used again after the selection (it must still be the whole number 0/1 it is marked to be)
    op('if_swap_list_cond', 3, lambda a, b, c: (lambda k: [x for p in mpc.if_swap(k, [a, c], [b, b]) for x in p] + [k, k * c])(a < b),
       lambda a, b, c: ([b, b, a, c] if a < b else [a, c, b, b]) + [Fr(int(a < b)), c * int(a < b)], 2)
    op('if_else_list_cond', 3, lambda a, b, c: (lambda k: mpc.if_else(k, [a, c], [c, b]) + [k, k * c])(a < b),
       lambda a, b, c: ([a, c] if a < b else [c, b]) + [Fr(int(a < b)), c * int(a < b)], 2)
    op('sum2', 2, lambda a, b: [mpc.sum([a, b])], lambda a, b: [a + b], 0)
    # a public start value takes part in the mark of the sum; a fixed-point number built from a raw field element carries no
    # mark of its own (it must not count as whole)
    op('sum_start', 2, lambda a, b: [mpc.sum([a, b], start=0.5), mpc.sum([a, b], start=2), mpc.sum([a, b], start=0.5) * 0.75],
       lambda a, b: [a + b + Fr(1, 2), a + b + 2, (a + b + Fr(1, 2)) * Fr(3, 4)], 4)
    op('from_field_element', 1, lambda a: (lambda c: [a + c, (a + c) * 0.75, c * 1])(T(T.field(44))),
       lambda a: [a + Fr(11, 4), (a + Fr(11, 4)) * Fr(3, 4), Fr(11, 4)], 4)
    op('sum3', 3, lambda a, b, c: [mpc.sum([a, b, c])], lambda a, b, c: [a + b + c], 0)
    op('prod2', 2, lambda a, b: [mpc.prod([a, b])], lambda a, b: [a * b], 2)
    op('prod3', 3, lambda a, b, c: [mpc.prod([a, b, c])], lambda a, b, c: [a * b * c], 12)
    op('in_prod', 3, lambda a, b, c: [mpc.in_prod([a, b], [b, c])], lambda a, b, c: [a * b + b * c], 3)
    op('in_prod_self', 2, lambda a, b: [mpc.in_prod([a, b], [a, b])], lambda a, b: [a * a + b * b], 3)
    op('vector_add', 3, lambda a, b, c: mpc.vector_add([a, b], [c, a]), lambda a, b, c: [a + c, b + a], 0)
    op('vector_add_pub', 2, lambda a, b: mpc.vector_add([a, b], [1, 2]), lambda a, b: [a + 1, b + 2], 0)
    # public integers in the FIRST operand too (not at position 0: the type is taken from x[0])
    op('vector_add_pub_x', 2, lambda a, b: mpc.vector_add([a, 1], [2, b]), lambda a, b: [a + 2, 1 + b], 0)
    op('vector_sub_pub_x', 2, lambda a, b: mpc.vector_sub([a, 3], [1, b]), lambda a, b: [a - 1, 3 - b], 0)
    op('vector_sub', 3, lambda a, b, c: mpc.vector_sub([a, b], [c, a]), lambda a, b, c: [a - c, b - a], 0)
    op('scalar_mul', 3, lambda a, b, c: mpc.scalar_mul(a, [b, c]), lambda a, b, c: [a * b, a * c], 2)
    op('schur_prod', 3, lambda a, b, c: mpc.schur_prod([a, b], [c, a]), lambda a, b, c: [a * c, b * a], 2)
    op('schur_prod_self', 2, lambda a, b: (lambda x: mpc.schur_prod(x, x))([a, b]), lambda a, b: [a * a, b * b], 2)
    op('matrix_prod', 3, lambda a, b, c: [x for r in mpc.matrix_prod([[a, b]], [[c, a], [b, c]]) for x in r],
       lambda a, b, c: [a * c + b * b, a * a + b * c], 3)
    op('matrix_prod_tr', 3, lambda a, b, c: [x for r in mpc.matrix_prod([[a, b], [c, a]], [[b, c]], tr=True) for x in r],
       lambda a, b, c: [a * b + b * c, c * b + a * c], 3)
    op('matrix_prod_self_tr', 2, lambda a, b: [x for r in (lambda A: mpc.matrix_prod(A, A, tr=True))([[a, b], [b, a]]) for x in r],
       lambda a, b: [a * a + b * b, 2 * a * b, 2 * a * b, a * a + b * b], 3)
    op('matrix_add', 2, lambda a, b: [x for r in mpc.matrix_add([[a, b]], [[b, b]]) for x in r], lambda a, b: [a + b, 2 * b], 0)
    op('sorted', 3, lambda a, b, c: mpc.sorted([a, b, c]), lambda a, b, c: sorted([a, b, c]), 2)
    op('argmax', 2, lambda a, b: list(mpc.argmax([a, b])), lambda a, b: [Fr(0 if a >= b else 1), max(a, b)], 2)
    # depth 2
    op('mul_of_sum', 3, lambda a, b, c: [(a + b) * c], lambda a, b, c: [(a + b) * c], 2)
    op('sum_of_mul', 3, lambda a, b, c: [a * b + c], lambda a, b, c: [a * b + c], 2)
    op('schur_of_vadd', 3, lambda a, b, c: mpc.schur_prod(mpc.vector_add([a, b], [b, c]), [c, a]),
       lambda a, b, c: [(a + b) * c, (b + c) * a], 2)
    op('scalar_of_scalar', 3, lambda a, b, c: mpc.scalar_mul(a, mpc.scalar_mul(b, [c, a])), lambda a, b, c: [a * b * c, a * b * a], 12)
    op('ifelse_of_vsub', 3, lambda a, b, c: mpc.if_else(a < c, mpc.vector_sub([a, b], [b, c]), [c, a]),
       lambda a, b, c: [a - b, b - c] if a < c else [c, a], 2)
    op('convert_int_list', 2, lambda a, b: mpc.vector_add(mpc.convert([mpc.SecInt(8)(2), mpc.SecInt(8)(-3)], T), [a, b]),
       lambda a, b: [a + 2, b - 3], 0)
    return t


def in_range(x):
    return -(1 << (L_ - F_ - 1)) < x < (1 << (L_ - F_ - 1))


def judge(part, cfg, name, operands, res, ref, tol, detail):
    """res = list of (flag, opened value)"""
    nontrivial = any(v.denominator != 1 or m is False for v, m in operands)
    part.case(key=None, nontrivial=nontrivial)
    part.outcomes.add(stable_hash((name, [(f, float(v)) for f, v in res])) & 0xffffff)
    shown = [(float(v), m) for v, m in operands]
    for i, (flag, got) in enumerate(res):
        g = Fr(got)
        if flag is True and g.denominator != 1:
            part.violation(f'C03:{name}:marked-integral-but-not-whole',
                           f'[{cfg}] {name}{shown}: result[{i}] = {got} is marked integral', detail)
        if ref[i] is not None and abs(g - ref[i]) > tol * Fr(1, 1 << F_):
            part.violation(f'C03:{name}:value', f'[{cfg}] {name}{shown}: result[{i}] = {got}, plain value {float(ref[i])} '
                           f'(tolerance {tol} units): the computation relied on a wrong integrality mark', detail)
    if len(part.samples) < 2 and nontrivial and len(operands) == 3:
        part.sample(dict(config=cfg, op=name, operands=shown, results=[(f, float(v)) for f, v in res]))


def cases(name, arity, reffn):
    out = []
    for tup in itertools.product(range(len(ALPHA)), repeat=arity):
        ops = [ALPHA[i] for i in tup]
        try:
            ref = reffn(*[val(a) for a in ops])
        except ZeroDivisionError:
            continue
        vals = [r for r in ref if r is not None]
        # every plain intermediate must fit comfortably
        if any(not in_range(4 * r) for r in vals) or any(not in_range(4 * val(a) * val(b)) for a in ops for b in ops):
            continue
        out.append((tup, ref))
    return out


def jobs(tier, seed):
    names = sorted(ops_table(exact.Dummy(), exact.Dummy()))
    out = []
    for i in range(0, len(names), 3):
        out.append(dict(engine='sp', ops=names[i:i + 3], tier=tier, seed=seed))
    for no_prss in (False, True):
        for i in range(0, len(names), 4):
            out.append(dict(engine='mp', m=3, t=1, no_prss=no_prss, ops=names[i:i + 4], tier=tier, seed=seed))
    out.append(dict(engine='mp_io', m=3, t=1, no_prss=False, tier=tier, seed=seed))
    out.append(dict(engine='mp_io', m=3, t=1, no_prss=True, tier=tier, seed=seed))
    for mode in ('single', 'single-explicit', 'all'):
        for no_prss in (False, True):
            out.append(dict(engine='mp_private', m=3, t=1, no_prss=no_prss, mode=mode, tier=tier, seed=seed))
    if tier == 'thorough':
        out.append(dict(engine='mp_private', m=2, t=0, no_prss=False, mode='all', tier=tier, seed=seed))
        out.append(dict(engine='mp_private', m=4, t=1, no_prss=False, mode='single', tier=tier, seed=seed))
    return out


def run_job(job):
    if job['engine'] == 'sp':
        return run_sp(job)
    if job['engine'] == 'mp_io':
        return run_mp_io(job)
    if job['engine'] == 'mp_private':
        return run_mp_private(job)
    return run_mp(job)


def run_sp(job):
    from mc import sp
    part = Part()
    # production-size k: the list products truncate with l = bit_length (not + f) and are right only up to the statistical
    # slack 2^(f-k) of their masks; at a toy k that slack is a coin flip
    mpc, seam = sp.setup(sec_param=30, no_prss=True)
    T = mpc.SecFxp(L_, F_)
    table = ops_table(mpc, T)
    for name in job['ops']:
        arity, fn, reffn, tol = table[name]
        for tup, ref in cases(name, arity, reffn):
            operands = [ALPHA[i] for i in tup]
            for mode in ('seeded', 'seeded2', 'max'):
                seam.begin('seeded' if mode == 'seeded2' else mode, job['seed'] + (mode == 'seeded2'), None)
                detail = dict(engine='sp', name=name, tup=list(tup), mode=mode, seed=job['seed'])
                try:
                    args = [mk(T, a) for a in operands]
                    marks = [a.integral for a in args]
                    rs = fn(*args)
                    res = [(r.integral, sp.opened(mpc, r)) for r in rs]
                    after = [(a.integral, sp.opened(mpc, a)) for a in args]
                except Exception as exc:
                    part.case(key=None)
                    part.violation(f'C03:{name}:exception', f'[sp] {name}{[(float(v), m) for v, m in operands]} raised {exc!r}', detail)
                    continue
                for j, (mark, a) in enumerate(zip(marks, operands)):
                    if after[j][0] != mark or Fr(after[j][1]) != val(a):
                        part.violation(f'C03:{name}:operand-changed', f'[sp] {name}{[(float(v), m) for v, m in operands]}: operand {j} is '
                                       f'{after[j][1]} (marked integral: {after[j][0]}) after the operation, it was {float(val(a))} ({mark})', detail)
                judge(part, f'sp/{mode}', name, operands, res, ref, tol, detail)
    return part


async def mp_program(mpc, ctx):
    await mpc.start()
    T = mpc.SecFxp(L_, F_)
    table = ops_table(mpc, T)
    m = len(mpc.parties)
    out = []
    for idx, (name, tup) in enumerate(ctx['cases']):
        arity, fn, reffn, tol = table[name]
        args = [mpc.input(mk(T, ALPHA[i]), senders=(idx + j) % m) for j, i in enumerate(tup)]
        rs = fn(*args)
        flags = [r.integral for r in rs]
        vals = await mpc.output(list(rs))
        out.append(list(zip(flags, vals)))
        if idx % 8 == 7:
            await mpc.barrier()
    ctx['results'] = out
    await mpc.shutdown()


def run_mp(job):
    from mc.explorer import run_execution
    part = Part()
    m, t = job['m'], job['t']
    world = exact.make_world(m, t, job['no_prss'], 30)
    table = ops_table(exact.Dummy(), exact.Dummy())
    allcases = []
    for name in job['ops']:
        arity, fn, reffn, tol = table[name]
        cs = cases(name, arity, reffn)
        if arity == 3:
            cs = [c for c in cs if len(set(c[0])) > 1 and (c[0][0] in (0, 1, 2, 7) or c[0][1] in (4, 5))][::3]
        allcases += [(name, tup, ref) for tup, ref in cs]
    cfg = f"mp/m{m}t{t}{'-noprss' if job['no_prss'] else ''}"
    for lo in range(0, len(allcases), 24):
        chunk = allcases[lo:lo + 24]
        for pat in ('seeded', 'max'):
            ctxs = []

            def setup(w):
                ctxs.clear()
                w.mask_pattern = pat
                w.pattern_budget = 400 * len(chunk)
                w.pattern_decisions = {}
                for i, s in enumerate(world.script_seams):
                    s.begin(pat, job['seed'] * 100 + i, None)
                for p in range(m):
                    ctxs.append(dict(cases=[(n, tup) for n, tup, _ in chunk]))
                    w.spawn(p, mp_program, ctxs[p])
            for i, s in enumerate(world.script_seams):
                s.begin(pat, job['seed'] * 100 + i, None)
            x = run_execution(world, setup, (), 'eager', 'none', sched_alts=False)
            detail = dict(engine='mp', job=dict(job), lo=lo, pat=pat)
            if x.status != 'done' or any('results' not in c for c in ctxs):
                part.violation('C03:mp:incomplete', f'[{cfg}] batch starting with {chunk[0][:2]} ends {x.status}: {world.loop_errors!r:.300}', detail)
                continue
            for idx, (name, tup, ref) in enumerate(chunk):
                res0 = ctxs[0]['results'][idx]
                if any(repr(c['results'][idx]) != repr(res0) for c in ctxs):
                    part.violation(f'C03:{name}:parties-differ', f'[{cfg}] {name}{tup}: parties disagree on flags/values', detail)
                judge(part, f'{cfg}/{pat}', name, [ALPHA[i] for i in tup], res0, ref, table[name][3], detail)
    return part


async def io_program(mpc, ctx):
    """List input, resharing and conversion of lists that mix integral and non-integral numbers."""
    await mpc.start()
    T = mpc.SecFxp(L_, F_)
    out = []
    for tup in ctx['cases']:
        xs = [mk(T, ALPHA[i]) for i in tup]
        ys = mpc.input(xs, senders=0)
        flags = [y.integral for y in ys]
        prod = mpc.schur_prod(ys, ys)
        zs = mpc._reshare([y * 1 for y in ys]) if len(tup) > 1 else [mpc._reshare(ys[0] * 1)]
        vals = await mpc.output(ys + list(prod) + list(zs))
        out.append((flags + [p.integral for p in prod] + [z.integral for z in zs], vals))
    ctx['results'] = out
    await mpc.shutdown()


def run_mp_io(job):
    from mc.explorer import run_execution
    part = Part()
    m, t = job['m'], job['t']
    world = exact.make_world(m, t, job['no_prss'], 30)
    tups = [tup for n in (1, 2, 3) for tup in itertools.product(range(len(ALPHA)), repeat=n)
            if all(in_range(4 * val(ALPHA[i]) ** 2) for i in tup)]
    if job['tier'] == 'quick':
        tups = [tp for tp in tups if len(tp) < 3 or tp[0] in (1, 3, 4, 7)]
    cfg = f"mp/m{m}t{t}{'-noprss' if job['no_prss'] else ''}/input"
    for lo in range(0, len(tups), 40):
        chunk = tups[lo:lo + 40]
        ctxs = []

        def setup(w):
            ctxs.clear()
            w.mask_pattern = 'seeded'
            for i, s in enumerate(world.script_seams):
                s.begin('seeded', job['seed'] * 100 + i, None)
            for p in range(m):
                ctxs.append(dict(cases=chunk))
                w.spawn(p, io_program, ctxs[p])
        for i, s in enumerate(world.script_seams):
            s.begin('seeded', job['seed'] * 100 + i, None)
        x = run_execution(world, setup, (), 'eager', 'none', sched_alts=False)
        detail = dict(engine='mp_io', job=dict(job), lo=lo)
        if x.status != 'done' or any('results' not in c for c in ctxs):
            part.violation('C03:input-list:incomplete', f'[{cfg}] batch starting with {chunk[0]} ends {x.status}: {world.loop_errors!r:.300}', detail)
            continue
        for idx, tup in enumerate(chunk):
            flags, vals = ctxs[0]['results'][idx]
            ops = [ALPHA[i] for i in tup]
            n = len(tup)
            ref = [val(a) for a in ops] + [val(a) ** 2 for a in ops] + [val(a) for a in ops]
            names = ['input-list'] * n + ['schur_prod-of-input'] * n + ['reshare-list'] * n
            for j in range(3 * n):
                judge(part, cfg, names[j], ops, [(flags[j], vals[j])], [ref[j]], 2, detail)
    return part


def own_mark(a):
    """The integrality mark the constructor gives to alphabet entry a."""
    v, mark = a
    return False if mark is False else v.denominator == 1


async def private_program(mpc, ctx):
    """Private inputs: a party constructs only its OWN value.  mode 'single': one sender per input, the other parties pass the
    placeholder T(None); 'single-explicit': the placeholder carries the sender's mark, T(None, integral=mark) (how the library's own
    protocols call input()); 'all': every party is a sender of its own value."""
    await mpc.start()
    T = mpc.SecFxp(L_, F_)
    m = len(mpc.parties)
    tup = ctx['case']
    if ctx['mode'] == 'all':
        xs = mpc.input(mk(T, ALPHA[tup[mpc.pid % len(tup)]]))[:len(tup)]
    else:
        xs = []
        for j, i in enumerate(tup):
            if mpc.pid == j % m:
                x = mk(T, ALPHA[i])
            elif ctx['mode'] == 'single':
                x = T(None)
            else:
                x = T(None, integral=own_mark(ALPHA[i]))
            xs.append(mpc.input(x, senders=j % m))
    a, b = xs[0], xs[1]
    rs = list(xs) + [a * b, a + b, a * a, mpc.prod([a, b]), mpc.in_prod([a, b], [b, a])] + mpc.schur_prod([a, b], [b, b])
    flags = [r.integral for r in rs]
    vals = await mpc.output(rs)
    ctx['results'] = list(zip(flags, vals))
    await mpc.shutdown()


KNOWN_PRIVATE = '!private-input:marks-inferred-from-private-values'


def run_mp_private(job):
    from mc.explorer import run_execution
    part = Part()
    m, t, mode = job['m'], job['t'], job['mode']
    world = exact.make_world(m, t, job['no_prss'], 30)
    n = m if mode == 'all' else 2
    tups = [tup for tup in itertools.product(range(len(ALPHA)), repeat=n)
            if all(in_range(8 * val(ALPHA[i]) * val(ALPHA[j])) for i in tup for j in tup)]
    if n > 2:
        tups = [tp for tp in tups if len(set(tp)) > 1 and all(i in (1, 3, 4, 7) for i in tp[2:])]
    cfg = f"mp/m{m}t{t}{'-noprss' if job['no_prss'] else ''}/private-{mode}"
    for tup in tups:
        ctxs = []

        def setup(w):
            ctxs.clear()
            w.mask_pattern = 'seeded'
            for i, s in enumerate(world.script_seams):
                s.begin('seeded', job['seed'] * 100 + i, None)
            for p in range(m):
                ctxs.append(dict(case=tup, mode=mode))
                w.spawn(p, private_program, ctxs[p])
        x = run_execution(world, setup, (), 'eager', 'none', sched_alts=False)
        detail = dict(engine='mp_private', job=dict(job), tup=list(tup))
        ops = [ALPHA[i] for i in tup]
        shown = [(float(v), mk_) for v, mk_ in ops]
        marks = [own_mark(a) for a in ops]
        # Known region (DESIGN 10): input() labels what it receives with the marks of the party's OWN argument, so the parties
        # disagree when those marks differ (a whole private value against a placeholder or a non-whole value)
        if mode == 'single':
            region = any(marks[:2])
        elif mode == 'all':
            region = len(set(marks)) > 1
        else:
            region = False

        def key(k):
            return KNOWN_PRIVATE[1:] if region else k
        sub = Part()
        if x.status != 'done' or any('results' not in c for c in ctxs):
            sub.case(key=None)
            sub.violation(f'C03:private-input:{mode}:incomplete',
                          f'[{cfg}] parties input their own values {shown} (own marks {marks}): run ends {x.status} '
                          f'{world.loop_errors!r:.200}', detail)
        else:
            res0 = ctxs[0]['results']
            if any([f for f, _ in c['results']] != [f for f, _ in res0] for c in ctxs):
                sub.violation(f'C03:private-input:{mode}:parties-differ-on-marks',
                              f'[{cfg}] inputs {shown}: marks per party {[[f for f, _ in c["results"]] for c in ctxs]}', detail)
            a, b = val(ops[0]), val(ops[1])
            ref = [val(o) for o in ops] + [a * b, a + b, a * a, a * b, 2 * a * b, a * b, b * b]
            for p_, c in enumerate(ctxs):
                judge(sub, f'{cfg}/party{p_}', f'private-input:{mode}', ops, c['results'], ref, 3, detail)
        if region:
            for v in sub.violations:
                v['key'] = 'C03:' + KNOWN_PRIVATE[1:]
        part.merge(sub)
    return part


def replay(case):
    if case.get('engine') == 'mp_private':
        return run_mp_private(case['job'])
    if case.get('engine') == 'sp':
        return run_sp(dict(ops=[case['name']], tier='quick', seed=case['seed']))
    if case.get('engine') == 'mp_io':
        return run_mp_io(case['job'])
    return run_mp(case['job'])
