"""C27 -- every finite group family of mpyc.fingroups obeys the group laws in all coordinate systems.

Explicit-state search over the real group objects against independent reference models
(mc/ref/groups.py): a state is one concrete representation (`.value`) of a group element as
produced by the real code, paired with the reference element it must denote; transitions are the
real `operation` (both argument orders, against an alphabet of elements), `operation2` and
`inversion`; the invariant "the real representation denotes the reference element, and
normalises to its unique canonical form" is checked in every state.  For the small groups the
search runs to the fixpoint (all representations reachable from the identity, the generator and
every constructible representation of every element); for the built-in cryptographic curves it
is depth-bounded around the alphabet {kG : |k| <= 4, ord-1, ord, ord+1}.  On top of the search:
the group axioms on real chained results (associativity for all triples / all pairs x fixed
thirds), operation2 vs the general formula, equality/hash consistency, declared orders,
repeat(a, n) against naive n-fold application for every n in -ord-1..ord+1 (boundary alphabet for
the big curves), cross-coordinate agreement and decode(encode(m)) == m.
"""

import collections
import itertools
import math
import signal

from mc.core import Part, stable_hash
from mc.ref import groups as R

LEVEL = 'model_checking'
RULE = ('one state = one distinct concrete representation (.value) of an element of one group instance, '
        'reached by real operations or by the constructor; one transition = one real operation/operation2/'
        'inversion call whose result is compared with the reference model; one case = one transition or one '
        'law instance (triple for associativity, (element, n) for repeat, pair for equality/hash, message for '
        'encode/decode); non-trivial = not all operands the identity / n not in {0, 1}')
ASSUMPTIONS = [
    'reference models in mc/ref/groups.py (own permutation composition, modular arithmetic with pow, affine '
    'chord-tangent and Edwards addition laws, Dirichlet composition of forms with brute-force search, textbook '
    'Cantor algorithm) are correct; each is self-checked (closure/identity/inverses) where it is enumerable',
    'curve parameters of the five built-in curves are those of the cited standards (hard-coded in the reference, '
    'validated there by on-curve and n*G = O); the field arithmetic of mpyc.finfields/gfpx is trusted only in '
    'so far as the results must agree with plain-int arithmetic',
    'small test curves are built by subclassing the public coordinate-system base classes exactly as '
    'fingroups._EllipticCurve does (a = 0 for Weierstrass projective/jacobian, odd order for projective; a in '
    '{1, -1} square and d non-square for Edwards; a = -1 for extended coordinates); general-a curves only for '
    'Weierstrass affine',
    'Costello-Lauter coordinates: only full-degree divisors and the identity are admissible (documented); '
    'transitions whose reference result has degree < 2 are skipped and counted',
    'encode/decode: the documented failure ValueError("message encoding failed") is accepted; message ranges: '
    '(m+1)*gap <= modulus (QR, curves), (m+1)*gap <= isqrt(-D)/2 (class groups, asserted by the code), '
    'm < min(q, 1024) (Schnorr); BN256_twist has no encoding (extension field, documented TODO)',
]

MANIFEST = dict(
    level=LEVEL,
    technique='explicit-state search over real group-element representations against independent reference '
              'group models, run to the fixpoint for all small groups and depth-bounded on the built-in curves',
    text='Sym(n<=4(5)), QR(p) for all odd primes p<=59(127), Schnorr groups q<=29, class groups for every admissible '
         '|Delta|<=500(2000), DGS hyperelliptic Jacobians of genus 0-3 over tiny fields (affine and Costello-Lauter), '
         'and every Weierstrass (a=0; affine/projective/jacobian) and Edwards (affine/projective/extended) curve over '
         'F_p, p<=13(31): all elements enumerated by brute force, every representation reachable by the real '
         'operations explored, every transition compared with the reference model; axioms on real chained results, '
         'repeat(a,n) for all |n|<=ord+1, orders, equality/hash.  The 15 built-in curve/coordinate combinations and '
         'kummer1271: depth-bounded search around {kG: |k|<=4, ord-1, ord, ord+1} against independent affine/Cantor '
         'arithmetic, repeat on a boundary alphabet of exponents, cross-coordinate agreement.  encode/decode on '
         'exhaustive small message ranges plus boundary messages.',
    ref='DESIGN 5/C27',
    note='trusted: mc/ref/groups.py reference models and hard-coded standard curve parameters; finite declared '
         'domains (big curves are covered on a structured alphabet, not exhaustively); Costello-Lauter inputs '
         'restricted to the documented full-degree divisors')


class Invalid(Exception):
    pass


ANY = ('any valid element',)      # seed expectation: must denote some element (e.g. a generator, a parameter)


class CpuTimeout(BaseException):
    """not an Exception: fingroups has `except Exception` fallbacks that must not swallow it"""


class Deadline:
    """CPU-time budget (ITIMER_PROF, so machine load does not matter) for code under test that may not return."""

    def __init__(self, seconds):
        self.seconds = seconds

    def _fire(self, *_):
        raise CpuTimeout(f'no result within {self.seconds} s of CPU time')

    def __enter__(self):
        self.old = signal.signal(signal.SIGPROF, self._fire)
        signal.setitimer(signal.ITIMER_PROF, self.seconds)

    def __exit__(self, *exc):
        signal.setitimer(signal.ITIMER_PROF, 0)
        signal.signal(signal.SIGPROF, self.old)
        return False


def guarded(cx, budget, fn, *args):
    """Run a stage under a CPU budget; a real call that does not return is a violation at that call site."""
    try:
        with Deadline(budget):
            return fn(*args)
    except CpuTimeout as e:
        law, cls, desc = cx.cur
        cx.viol(law, (cls + ':' if cls else '') + 'hangs', f'{D(desc)}: {e} for this group (stuck in or after this call)')
        cx.flush()
        return None


def fe(x):
    """real field element -> reference field element (int, or pair for GF(p^2))."""
    v = x.value
    if hasattr(v, 'value'):
        c = [int(t) for t in v.value]
        return tuple(c + [0] * (2 - len(c)))
    return int(v)


def to_field(field, x):
    return field(list(x)) if isinstance(x, tuple) else field(x)


def D(desc):
    """descriptions are built lazily (only when a violation is reported)"""
    return desc() if callable(desc) else desc


def short(x, n=420):
    s = repr(x)
    return s if len(s) <= n else s[:n] + '...'


# ============================================================================== adapters

class Adapter:
    """Binds one real group type to its reference model."""

    key = '?'            # family key used in violation keys
    name = '?'           # instance name
    G = None
    ref = None
    elems = None         # all reference elements (small groups) or None
    expected_order = None   # what G.order must be (None: not checked)
    gen_full = False     # generator must have exactly the order G.order
    depth_limit = None
    inv_classes = False

    def raw(self, a):
        raise NotImplementedError

    def ref_of_raw(self, raw):
        raise NotImplementedError

    def canonical_raw(self, x):
        """raw value that a normalised real element denoting x must have"""
        raise NotImplementedError

    def make(self, x, variant=0):
        raise NotImplementedError

    def nvariants(self, x):
        return 1

    def normal(self, a):
        return a

    def admissible(self, x):
        return True

    def seeds(self):
        """-> list of (thunk giving a real element, expected reference element or ANY, description)"""
        out = [(lambda: self.G.identity, self.ref.identity, 'G.identity'), (self.default_ctor, self.ref.identity, 'G()')]
        for x in self.elems:
            if self.admissible(x):
                for v in range(self.nvariants(x)):
                    out.append((lambda x=x, v=v: self.make(x, v), x, f'constructor variant {v}'))
        if self.G.generator is not None:
            out.append((lambda: self.G.generator, ANY, 'G.generator'))
        return out

    def default_ctor(self):
        return self.G()

    def alphabet(self):
        els = [x for x in self.elems if self.admissible(x)]
        if len(els) <= 128:
            return els
        return els[:16]

    def inv_class(self, x):
        if x == self.ref.identity:
            return 'identity'
        return 'involution' if self.ref.inv(x) == x else 'generic'

    def law_elements(self):
        return [x for x in self.elems if self.admissible(x)]


class SymAd(Adapter):
    def __init__(self, fg, n):
        self.G = fg.SymmetricGroup(n)
        self.n = n
        self.key = 'Sym'
        self.name = f'Sym({n})'
        self.ref = R.RefSym(n)
        self.elems = self.ref.elements()
        self.expected_order = math.factorial(n)
        self.cached = fg.SymmetricGroup(n) is self.G

    def raw(self, a):
        return tuple(a.value)

    def ref_of_raw(self, raw):
        if sorted(raw) != list(range(self.n)):
            raise Invalid('not a permutation')
        return raw

    def canonical_raw(self, x):
        return x

    def make(self, x, variant=0):
        return self.G(x) if variant == 0 else self.G(list(x))

    def nvariants(self, x):
        return 2

    def inv_class(self, x):
        return 'cycle-type-' + '.'.join(map(str, R.cycle_type(x)))

    def seeds(self):
        out = super().seeds()
        if self.n >= 2:   # the generating set named in the source: transposition and n-cycle
            t = (1, 0) + tuple(range(2, self.n))
            c = tuple(range(1, self.n)) + (0,)
            out += [(lambda: self.G(t), t, 'transposition'), (lambda: self.G(c), c, 'n-cycle')]
        return out


class UnitsAd(Adapter):
    """QR(p) and Schnorr groups."""

    def __init__(self, fg, kind, p, q=None, g=None):
        self.p = p
        if kind == 'QR':
            self.G = fg.QuadraticResidues(p)
            self.cached = fg.QuadraticResidues(p) is self.G
            self.key = 'QR'
            self.name = f'QR({p})'
            self.ref = R.RefQR(p)
            self.expected_order = (p - 1) // 2
            n = (p - 1) // 2
            self.gen_full = R.is_prime(n) or n == 1        # "g is generator if p is a safe prime"
        else:
            self.G = fg.SchnorrGroup(p, q, g)
            self.cached = fg.SchnorrGroup(p, q, g) is self.G
            self.key = 'SG'
            self.name = f'SG({p},{q},{g})'
            self.ref = R.RefSchnorr(p, q)
            self.expected_order = q
            self.gen_full = True
        self.elems = self.ref.elements()

    def raw(self, a):
        return int(a.value.value)

    def ref_of_raw(self, raw):
        if raw not in self._set():
            raise Invalid('not in the subgroup')
        return raw

    def _set(self):
        if not hasattr(self, '_s'):
            self._s = set(self.elems)
        return self._s

    def canonical_raw(self, x):
        return x

    def make(self, x, variant=0):
        return self.G(x) if variant == 0 else self.G(self.G.field(x))

    def nvariants(self, x):
        return 2


class ClAd(Adapter):
    def __init__(self, fg, D):
        self.G = fg.ClassGroup(D)
        self.cached = fg.ClassGroup(Delta=D) is self.G
        self.D = D
        self.key = 'Cl'
        self.name = f'Cl({D})'
        self.ref = R.RefForms(D)
        self.elems = self.ref.elements()
        self.expected_order = len(self.elems) if D.bit_length() <= 24 else None

    def raw(self, a):
        return tuple(int(c) for c in a.value)

    def ref_of_raw(self, raw):
        if len(raw) != 3 or not self.ref.is_reduced(raw):
            raise Invalid('not a reduced primitive form of the discriminant')
        return raw

    def canonical_raw(self, x):
        return x

    def make(self, x, variant=0):
        if variant == 0:
            return self.G(x)
        if variant == 1:
            return self.G((x[0], x[1]))
        return self.G(list(x))

    def nvariants(self, x):
        return 3


COORD_BASES = {('W', 'affine'): 'WeierstrassAffine', ('W', 'projective'): 'WeierstrassProjective',
               ('W', 'jacobian'): 'WeierstrassJacobian', ('E', 'affine'): 'EdwardsAffine',
               ('E', 'projective'): 'EdwardsProjective', ('E', 'extended'): 'EdwardsExtended'}


class ECAd(Adapter):
    """Elliptic curve in one coordinate system; reference elements are affine points."""

    def __init__(self, G, kind, coords, ref, key, name, lams, elems=None):
        self.G = G
        self.kind = kind
        self.coords = coords
        self.ref = ref
        self.F = ref.F
        self.key = key
        self.name = name
        self.lams = lams           # scalings (reference field elements) for non-normalised representations
        self.elems = elems
        self.field = G.field
        self.id_raw = tuple(fe(c) for c in G.identity.value)

    def raw(self, a):
        return tuple(fe(c) for c in a.value)

    def ref_of_raw(self, raw):
        F, ref = self.F, self.ref
        want = {'affine': 2, 'projective': 3, 'jacobian': 3, 'extended': 4}[self.coords]
        if self.kind == 'W' and self.coords == 'affine' and raw == ():
            return None
        if len(raw) != want:
            raise Invalid(f'{len(raw)} coordinates')
        if self.coords == 'affine':
            P = (raw[0], raw[1])
        else:
            x, y, z = raw[:3]
            if z == F.zero:
                if self.kind == 'W' and (x != F.zero or y != F.zero):
                    return None
                raise Invalid('z = 0')
            zi = F.inv(z)
            if self.coords == 'jacobian':
                zi2 = F.mul(zi, zi)
                P = (F.mul(x, zi2), F.mul(y, F.mul(zi2, zi)))
            else:
                P = (F.mul(x, zi), F.mul(y, zi))
            if self.coords == 'extended' and F.mul(raw[3], z) != F.mul(x, y):
                raise Invalid('t z != x y')
        if not ref.on_curve(P):
            raise Invalid('point not on the curve')
        return P

    def canonical_raw(self, x):
        F = self.F
        if self.kind == 'W' and x is None:
            return self.id_raw
        if self.coords == 'affine':
            return (x[0], x[1])
        if self.coords == 'extended':
            return (x[0], x[1], F.one, F.mul(x[0], x[1]))
        return (x[0], x[1], F.one)

    def normal(self, a):
        return a.normalize()

    def nvariants(self, x):
        if self.coords == 'affine':
            return 2 if x is None else 1
        return 1 + len(self.lams)

    def make(self, x, variant=0):
        F, G, fld = self.F, self.G, self.field
        if self.kind == 'W' and x is None:
            if variant == 0:
                return G()
            if self.coords == 'affine':
                return G(())
            lam = self.lams[variant - 1]
            if self.coords == 'projective':
                c = (F.zero, lam, F.zero)
            else:
                l2 = F.mul(lam, lam)
                c = (l2, F.mul(l2, lam), F.zero)
            return G(tuple(to_field(fld, t) for t in c))
        if variant == 0:
            return G((to_field(fld, x[0]), to_field(fld, x[1])))
        lam = self.lams[variant - 1]
        if self.coords == 'jacobian':
            l2 = F.mul(lam, lam)
            c = (F.mul(x[0], l2), F.mul(x[1], F.mul(l2, lam)), lam)
        elif self.coords == 'extended':
            c = (F.mul(x[0], lam), F.mul(x[1], lam), lam, F.mul(lam, F.mul(x[0], x[1])))
        else:
            c = (F.mul(x[0], lam), F.mul(x[1], lam), lam)
        return G(tuple(to_field(fld, t) for t in c))


def small_curve_class(fg, kind, coords, p, params, gen, order, tag):
    """Build a curve type over GF(p) from the public base class, the way fingroups._EllipticCurve does."""
    base = getattr(fg, COORD_BASES[kind, coords])
    gf = fg.GF(p)
    EC = type(f'T{kind}{coords}{tag}', (base,), {'__slots__': ()})
    EC.field = gf
    if kind == 'W':
        EC.a, EC.b = gf(params[0]), gf(params[1])
    else:
        EC.a, EC.d = gf(params[0]), gf(params[1])
    EC.curvename = 'test' + tag
    EC.is_cyclic = False
    EC.gap = 256
    EC.order = order
    EC.identity = EC(check=False)
    EC.generator = EC((gf(gen[0]), gf(gen[1])), check=False)
    return EC


class HCAd(Adapter):
    """Hyperelliptic Jacobian; reference elements are Mumford pairs (tuples of coefficient tuples)."""

    def __init__(self, G, coords, ref, key, name, elems=None):
        self.G = G
        self.coords = coords
        self.ref = ref
        self.p = ref.p
        self.key = key
        self.name = name
        self.elems = elems
        self.field = G.field

    def raw(self, a):
        if self.coords == 'affine':
            u, v = a.value     # polynomials (encode() stores plain coefficient lists instead, see encdec)
            return (tuple(int(c) for c in getattr(u, 'value', u)), tuple(int(c) for c in getattr(v, 'value', v)))
        return tuple(fe(c) for c in a.value)

    def ref_of_raw(self, raw):
        if self.coords == 'affine':
            D = raw
        else:
            if len(raw) != 6:
                raise Invalid(f'{len(raw)} coordinates')
            if raw == (0,) * 6:
                return self.ref.identity
            u1, u0, v1, v0, u1u1, u1u0 = raw
            if u1u1 != u1 * u1 % self.p or u1u0 != u1 * u0 % self.p:
                raise Invalid('inconsistent extended coordinates')
            D = ((u0, u1, 1), tuple(R.ptrim([v0, v1])))
        if not self.ref.is_member(D):
            raise Invalid('not a reduced Mumford pair on the curve')
        return D

    def admissible(self, x):
        return self.coords == 'affine' or x == self.ref.identity or len(x[0]) == 3

    def canonical_raw(self, x):
        if self.coords == 'affine':
            return x
        if x == self.ref.identity:
            return (0,) * 6
        u0, u1, _ = x[0]
        v = list(x[1]) + [0, 0]
        return (u1, u0, v[1], v[0], u1 * u1 % self.p, u1 * u0 % self.p)

    def make(self, x, variant=0):
        if self.coords == 'affine':
            return self.G((list(x[0]), list(x[1])))
        if x == self.ref.identity:
            return self.default_ctor()
        f = self.field
        c = self.canonical_raw(x)
        # NB: check=True is unusable for Costello-Lauter divisors (AttributeError in __init__), see report
        if variant == 0:
            return self.G(tuple(f(t) for t in c[:4]), check=False)
        return self.G(tuple(f(t) for t in c), check=False)

    def nvariants(self, x):
        return 1 if self.coords == 'affine' or x == self.ref.identity else 2

    def default_ctor(self):
        # HCDivisorCL() with the default check=True raises AttributeError (reads self.value before it is set);
        # constructor validation is not part of C27, so the usable spelling is taken (see report)
        return self.G(check=False) if self.coords == 'extended' else self.G()


# ============================================================================== the search engine

class Ctx:
    def __init__(self, part, ad, job):
        self.part = part
        self.ad = ad
        self.job = job
        self.failed = False
        self.n = 0
        self.nt = 0
        self.opcache = {}
        self.skipped = 0
        self.cur = ('stage', '', 'before the first real call')

    def viol(self, law, cls, what):
        if callable(what):
            what = what()
        key = f'C27:{self.ad.key}:{law}' + (f':{cls}' if cls else '')
        self.part.violation(key, f'{self.ad.name}: {what}', dict(job=self.job, only=self.ad.name, key=key))
        self.failed = True

    def count(self, nontrivial=True):
        self.n += 1
        if nontrivial:
            self.nt += 1

    def flush(self):
        if self.n:
            self.part.case(key=None, nontrivial=False, n=self.n - self.nt)
            self.part.case(key=None, nontrivial=True, n=self.nt)
        self.n = self.nt = 0
        if self.skipped:
            self.part.note('skipped_inadmissible_costello_lauter', self.skipped)
            self.skipped = 0

    def rop(self, x, y):
        k = (x, y)
        r = self.opcache.get(k)
        if r is None and k not in self.opcache:
            r = self.opcache[k] = self.ad.ref.op(x, y)
        return r

    def call(self, law, cls, desc, fn, *args):
        self.cur = (law, cls, desc)
        try:
            return True, fn(*args)
        except Exception as e:   # a real operation must not raise on valid elements
            self.viol(law, (cls + ':' if cls else '') + 'raises', f'{D(desc)} raised {type(e).__name__}: {e}')
            return False, None

    def denotes(self, r, law, cls, desc):
        """reference element denoted by real result r (None + violation if r is no valid element)"""
        ad = self.ad
        try:
            raw = ad.raw(r)
            return True, raw, ad.ref_of_raw(raw)
        except Invalid as e:
            self.viol(law, cls, f'{D(desc)} -> {short(getattr(r, "value", r))} is not a group element ({e})')
        except Exception as e:
            self.viol(law, cls, f'{D(desc)} -> malformed result {short(getattr(r, "value", r))} ({type(e).__name__}: {e})')
        return False, None, None

    def expect(self, r, want, law, cls, desc):
        ok, raw, got = self.denotes(r, law, cls, desc)
        if not ok:
            return False, None
        if got != want:
            self.viol(law, cls, f'{D(desc)} -> {short(raw)} denotes {short(got)}, reference says {short(want)}')
            return False, raw
        return True, raw

    def pair_class(self, x, y):
        e = self.ad.ref.identity
        if x == e and y == e:
            return 'e@e'
        if x == e:
            return 'e@a'
        if y == e:
            return 'a@e'
        if x == y:
            return 'a@a'
        if y == self.ad.ref.inv(x):
            return 'a@~a'
        return 'a@b'


def explore(cx, state_cap):
    """Breadth-first search over concrete representations; returns {raw: (real, ref)} in discovery order."""
    ad, part, G, ref = cx.ad, cx.part, cx.ad.G, cx.ad.ref
    e = ref.identity
    states = {}
    queue = collections.deque()
    capped = False
    if part.state_keys is None:
        part.state_keys = set()

    def admit(a, x, raw, depth):
        nonlocal capped
        if raw in states:
            return
        if len(states) >= state_cap:
            capped = True
            return
        states[raw] = (a, x)
        part.state_keys.add(stable_hash((ad.name, raw)))
        queue.append((a, x, raw, depth))

    for thunk, x, how in ad.seeds():
        cx.count(x != e)
        desc = how if x is ANY else f'{how} of {short(x)}'
        ok, a = cx.call('construct', '', desc, thunk)
        if not ok:
            continue
        if x is ANY:
            ok, raw, x = cx.denotes(a, 'construct', '', desc)
        else:
            ok, raw = cx.expect(a, x, 'construct', '', desc)
        if ok:
            admit(a, x, raw, 0)
    alpha = []
    for y in ad.alphabet():
        ok, b = cx.call('construct', '', f'constructor of {short(y)}', ad.make, y)
        if ok:
            alpha.append((b, y))
    canon_cache = {}

    late = list(ad.late_seeds()) if hasattr(ad, 'late_seeds') else []
    while queue or (late and not cx.failed):
        if not queue:
            for thunk, x, how, law, cls in late:
                cx.count()
                ok, a = cx.call(law, cls, how, thunk)
                if ok:
                    ok, raw = cx.expect(a, x, law, cls, how)
                    if ok:
                        admit(a, x, raw, 0)
            late = []
            continue
        a, x, raw, depth = queue.popleft()
        # ---- invariant of the state: normalisation gives the unique canonical representation
        ok, nrm = cx.call('normalize', '', lambda raw=raw: f'normalize({short(raw)})', ad.normal, a)
        cx.count(x != e)
        if ok:
            try:
                nraw = ad.raw(nrm)
            except Exception as ex:
                nraw = f'malformed ({ex})'
            if nraw != ad.canonical_raw(x):
                cx.viol('normalize', 'identity' if x == e else 'generic',
                        f'{short(raw)} normalises to {short(nraw)}, canonical form is {short(ad.canonical_raw(x))}')
        if ad.depth_limit is not None and depth >= ad.depth_limit:
            continue
        # ---- transitions
        for b, y in alpha:
            for (l, lx, r, rx) in ((a, x, b, y), (b, y, a, x)):
                want = cx.rop(lx, rx)
                if not ad.admissible(want):
                    cx.skipped += 1
                    continue
                cls = cx.pair_class(lx, rx)
                desc = (lambda l=l, r=r: f'operation({short(ad.raw(l))}, {short(ad.raw(r))})')
                part.transitions += 1
                cx.count(not (lx == e and rx == e))
                ok, res = cx.call('operation', cls, desc, G.operation, l, r)
                if ok:
                    ok, rraw = cx.expect(res, want, 'operation', cls, desc)
                    if ok:
                        admit(res, want, rraw, depth + 1)
        want = cx.rop(x, x)
        if ad.admissible(want):
            desc = (lambda raw=raw: f'operation2({short(raw)})')
            part.transitions += 1
            cx.count(x != e)
            cls = 'identity' if x == e else ('to-identity' if want == e else 'generic')
            ok, res = cx.call('operation2', cls, desc, G.operation2, a)
            if ok:
                ok, rraw = cx.expect(res, want, 'operation2', cls, desc)
                if ok:
                    admit(res, want, rraw, depth + 1)
        else:
            cx.skipped += 1
        want = ref.inv(x)
        desc = (lambda raw=raw: f'inversion({short(raw)})')
        part.transitions += 1
        cx.count(x != e)
        ok, res = cx.call('inversion', ad.inv_class(x), desc, G.inversion, a)
        if ok:
            ok, rraw = cx.expect(res, want, 'inversion', ad.inv_class(x), desc)
            if ok:
                admit(res, want, rraw, depth + 1)
    if capped:
        part.caps.append(f'state cap {state_cap} reached for {ad.name}')
    cx.flush()
    return states


def same(cx, r1, r2, law, cls, desc):
    """real == must hold between r1 and r2, and both must denote the same reference element"""
    ok1, _, x1 = cx.denotes(r1, law, cls, lambda: D(desc) + ' [lhs]')
    ok2, _, x2 = cx.denotes(r2, law, cls, lambda: D(desc) + ' [rhs]')
    if not (ok1 and ok2):
        return
    if x1 != x2:
        cx.viol(law, cls, f'{D(desc)}: lhs denotes {short(x1)}, rhs denotes {short(x2)}')
        return
    ok, eq = cx.call('equality', '', desc, lambda: r1 == r2)
    if ok and eq is not True:
        cx.viol('equality', 'equal-elements', f'{D(desc)}: {short(r1.value)} == {short(r2.value)} is {eq!r} '
                f'although both denote {short(x1)}')


def laws(cx, states, tier):
    ad, part, G, ref = cx.ad, cx.part, cx.ad.G, cx.ad.ref
    e = ref.identity
    xs = ad.law_elements()
    L = [(ad.make(x), x) for x in xs]
    order = len(xs) if ad.elems is not None else None
    st = list(states.values())
    # one non-normalised representative per element (if the coordinate system has any)
    alt = {}
    for raw, (a, x) in states.items():
        if raw != ad.canonical_raw(x) and x not in alt:
            alt[x] = a

    # ---- identity and inverse laws, operation2 vs general formula, in every state (cap 600)
    rid = G.identity
    for a, x in st[:600]:
        def d(a=a):
            return short(ad.raw(a))
        cx.count(x != e)
        same(cx, G.operation(a, rid), a, 'identity-law', 'a@e', lambda: f'operation({d()}, identity) vs {d()}')
        same(cx, G.operation(rid, a), a, 'identity-law', 'e@a', lambda: f'operation(identity, {d()}) vs {d()}')
        ia = G.inversion(a)
        if ad.admissible(ref.inv(x)):
            same(cx, G.operation(a, ia), rid, 'inverse-law', 'a@~a', lambda: f'operation({d()}, inversion({d()})) vs identity')
            same(cx, G.operation(ia, a), rid, 'inverse-law', '~a@a', lambda: f'operation(inversion({d()}), {d()}) vs identity')
            same(cx, G.inversion(ia), a, 'inverse-law', '~~a', lambda: f'inversion(inversion({d()})) vs {d()}')
        if ad.admissible(cx.rop(x, x)):
            sq = G.operation2(a)
            same(cx, sq, G.operation(a, a), 'operation2-vs-operation', 'same-object',
                 lambda: f'operation2({d()}) vs operation({d()}, {d()})')
            same(cx, sq, G.operation(a, ad.make(x)), 'operation2-vs-operation', 'fresh-copy',
                 lambda: f'operation2({d()}) vs operation({d()}, canonical copy)')
            same(cx, sq, a @ a, 'operator', '@', lambda: f'operation2({d()}) vs a @ a')
            if x in alt:
                same(cx, sq, G.operation(alt[x], a), 'operation2-vs-operation', 'other-representation',
                     lambda: f'operation2({d()}) vs operation({short(ad.raw(alt[x]))}, {d()})')
    cx.flush()
    if cx.failed:
        return

    # ---- associativity on real chained results
    if len(L) <= 24:
        triples = itertools.product(L, L, L)
        part.note('assoc_mode', {'all-triples': 1})
    else:
        thirds = L[1:2] + L[-1:] + [(alt[x], x) for x in list(alt)[1:3]]
        lim = 64 if tier == 'quick' else 160
        if len(L) <= lim:
            pairs = L
            part.note('assoc_mode', {'all-pairs-x-thirds': 1})
        else:
            pairs = L[::len(L) // lim][:lim]
            part.note('assoc_mode', {f'all-pairs-of-{lim}-spread-elements-x-thirds': 1})
        triples = ((a, b, c) for a in pairs for b in pairs for c in thirds)
    for (a, x), (b, y), (c, z) in triples:
        xy, yz = cx.rop(x, y), cx.rop(y, z)
        if not (ad.admissible(xy) and ad.admissible(yz) and ad.admissible(cx.rop(xy, z))):
            cx.skipped += 1
            continue
        cx.count(not (x == e or y == e or z == e))
        lhs = G.operation(G.operation(a, b), c)
        rhs = G.operation(a, G.operation(b, c))
        ok, eq = cx.call('associativity', '', 'comparison', lambda: lhs == rhs)
        if not ok or eq is not True:
            if ok:
                cx.viol('associativity', '', f'(a@b)@c = {short(lhs.value)} != a@(b@c) = {short(rhs.value)} for '
                        f'a={short(ad.raw(a))} b={short(ad.raw(b))} c={short(ad.raw(c))}')
        elif tier == 'thorough' or cx.n % 7 == 0:
            cx.expect(lhs, cx.rop(xy, z), 'associativity', 'vs-reference', lambda: f'({short(x)}@{short(y)})@{short(z)}')
    cx.flush()

    # ---- equality / hash consistency after normalisation (all pairs of up to 150 states, spread)
    lim = 150 if ad.elems is not None else 80
    sub = st if len(st) <= lim else st[::len(st) // lim][:lim]
    for (a, x), (b, y) in itertools.product(sub, sub):
        cx.count(x != e or y != e)
        eq = (a == b)
        ne = (a != b)
        if eq is not (x == y) or ne is not (x != y):
            cx.viol('equality', 'equal-elements' if x == y else 'distinct-elements',
                    f'{short(ad.raw(a))} == {short(ad.raw(b))} gives {eq!r} (!= gives {ne!r}); they denote '
                    f'{short(x)} and {short(y)}')
            continue
        na, nb = ad.normal(a), ad.normal(b)
        if (na.value == nb.value) is not (x == y):
            cx.viol('normalize', 'uniqueness', f'normalised values of {short(ad.raw(a))} and {short(ad.raw(b))} '
                    f'compare {na.value == nb.value} but elements are {"equal" if x == y else "distinct"}')
        elif x == y and hash(na) != hash(nb):
            cx.viol('hash', '', f'hash differs for equal normalised elements {short(ad.raw(na))}')
    cx.flush()

    # ---- declared order and generator order
    if ad.expected_order is not None:
        cx.count()
        if G.order != ad.expected_order:
            cx.viol('order', '', f'declared order {G.order}, the group has {ad.expected_order} elements')
    if getattr(ad, 'cached', True) is not True:
        cx.viol('cache', '', 'constructing the group type twice gives two different types')
    g = G.generator
    if g is not None and G.order is not None:
        cx.count()
        same(cx, G.repeat(g, G.order), rid, 'generator-order', 'g^order', f'repeat(generator, {G.order}) vs identity')
        if ad.gen_full:
            for q in R.prime_factors(G.order):
                ok, _, xq = cx.denotes(G.repeat(g, G.order // q), 'generator-order', '', f'repeat(generator, {G.order // q})')
                if ok and xq == e:
                    cx.viol('generator-order', 'g^(order/q)', f'generator has order dividing {G.order // q}, declared order {G.order}')
    cx.flush()

    # ---- repeat(a, n) == n-fold application
    if order is not None:
        N = order
        ns = list(range(-N - 1, N + 2)) if N <= 130 else \
            sorted(set(list(range(-9, 10)) + [s * (N + d) for s in (1, -1) for d in (-1, 0, 1)]
                       + [s * (2**j + d) for s in (1, -1) for j in range(2, N.bit_length() + 1) for d in (-1, 0, 1)]))
        bases = L if len(L) <= 130 else L[:24]
        bases = bases + [(alt[x], x) for _, x in bases if x in alt]
        for a, x in bases:
            up = R.naive_powers(ref, x, max(max(ns), 3))
            dn = R.naive_powers(ref, ref.inv(x), max(-min(ns), 3))
            for n in ns:
                want = up[n] if n >= 0 else dn[-n]
                if not repeat_admissible(ad, up, dn, n):
                    cx.skipped += 1
                    continue
                cls = 'n=0' if n == 0 else f'n={n}' if abs(n) == 1 else 'n>1' if n > 0 else 'n<-1'
                cx.count(n not in (0, 1) and x != e)
                desc = (lambda a=a, n=n: f'repeat({short(ad.raw(a))}, {n})')
                ok, res = cx.call('repeat', cls, desc, G.repeat, a, n)
                if ok:
                    cx.expect(res, want, 'repeat', cls, desc)
            # the ^ operator and the additive / multiplicative spellings
            for n in (-2, 0, 3):
                if repeat_admissible(ad, up, dn, n):
                    want = up[n] if n >= 0 else dn[-n]
                    cx.expect(a ^ n, want, 'operator', '^', lambda: f'{short(ad.raw(a))} ^ {n}')
                    if G.is_additive:
                        cx.expect(n * a, want, 'operator', 'n*a', lambda: f'{n} * {short(ad.raw(a))}')
                    if G.is_multiplicative:
                        cx.expect(a ** n, want, 'operator', 'a**n', lambda: f'{short(ad.raw(a))} ** {n}')
        cx.flush()

    # ---- operator spellings of operation / inversion
    for (a, x), (b, y) in itertools.product(L[:6], L[:6]):
        if not (ad.admissible(cx.rop(x, y)) and ad.admissible(cx.rop(x, ref.inv(y)))):
            continue
        cx.count(x != e or y != e)
        want = cx.rop(x, y)
        cx.expect(a @ b, want, 'operator', '@', f'{short(x)} @ {short(y)}')
        cx.expect(~a, ref.inv(x), 'operator', '~', f'~{short(x)}')
        if G.is_additive:
            cx.expect(a + b, want, 'operator', '+', f'{short(x)} + {short(y)}')
            cx.expect(a - b, cx.rop(x, ref.inv(y)), 'operator', '-', f'{short(x)} - {short(y)}')
            cx.expect(-a, ref.inv(x), 'operator', 'neg', f'-{short(x)}')
        if G.is_multiplicative:
            cx.expect(a * b, want, 'operator', '*', f'{short(x)} * {short(y)}')
            cx.expect(a / b, cx.rop(x, ref.inv(y)), 'operator', '/', f'{short(x)} / {short(y)}')
            cx.expect(1 / a, ref.inv(x), 'operator', '1/', f'1/{short(x)}')
    cx.flush()


def guarded_laws(cx, states, tier):
    try:
        with Deadline(80 if tier == 'quick' else 300):
            cx.cur = ('laws', '', 'law stage')
            laws(cx, states, tier)
    except CpuTimeout as e:
        law, cls, desc = cx.cur
        cx.viol(law, (cls + ':' if cls else '') + 'hangs', f'{D(desc)}: {e} in the law stage (stuck in or after this call)')
        cx.part.note('hung_groups', [cx.ad.name])
        cx.flush()
    except Exception as e:   # real code raising on valid elements outside the wrapped call sites
        import traceback
        tb = traceback.extract_tb(e.__traceback__)
        where = next((f'{fr.name}:{fr.lineno}' for fr in reversed(tb) if 'fingroups' in fr.filename), 'driver')
        cx.viol('laws', 'raises', f'{type(e).__name__}: {e} at {where}')
        cx.flush()


def repeat_admissible(ad, up, dn, n):
    """Costello-Lauter only: every intermediate value of the left-to-right binary method must be
    a full-degree divisor (documented restriction of that coordinate system)."""
    if getattr(ad, 'coords', None) != 'extended' or not isinstance(ad, HCAd):
        return True
    tab = up if n >= 0 else dn
    m = abs(n)
    vals = {m}
    i = 0
    while m >> i:
        k = m >> i
        vals.update((k, 2 * (k >> 1)))
        i += 1
    return all(ad.admissible(tab[k]) for k in vals if k < len(tab))


def run_small(part, ad, job, tier, state_cap=60000):
    """Full treatment of one enumerable group."""
    cx = Ctx(part, ad, job)
    ref = ad.ref
    # the reference model itself must be a group on the enumerated set (guards the oracle)
    if len(ad.elems) <= 130 and not R.is_group(ref, ad.elems):
        part.note('harness_errors', [f'reference model of {ad.name} is not a group'])
        return
    if part.notes.get('hung_groups'):
        return           # a real call did not return earlier in this job: do not burn one budget per group
    states = guarded(cx, 20 if tier == 'quick' else 120, explore, cx, state_cap)
    if states is None:
        part.note('hung_groups', [ad.name])
        return
    part.note('groups', 1)
    part.note('groups_by_family', {ad.key: 1})
    part.note('elements_by_family', {ad.key: len(ad.elems)})
    part.note_max('max_group_order', len(ad.elems))
    part.note_max('max_states_one_group', len(states))
    part.outcomes.add((ad.key, len(ad.elems)))
    # closure: every element has a state
    reached = {x for _, x in states.values()}
    missing = [x for x in ad.elems if ad.admissible(x) and x not in reached]
    if missing and not cx.failed:
        cx.viol('closure', '', f'elements never produced: {short(missing[:3])} ({len(missing)} of {len(ad.elems)})')
    if cx.failed:
        part.note('groups_gated_after_first_stage', [ad.name])
        return
    guarded_laws(cx, states, tier)
    if len(part.samples) < 2 and len(ad.elems) > 3 and not cx.failed:
        le = ad.law_elements()
        x, y = le[1], le[-1]
        if ad.admissible(cx.rop(x, y)):
            part.sample(dict(group=ad.name, a=short(x, 80), b=short(y, 80),
                             real=short(ad.raw(ad.G.operation(ad.make(x), ad.make(y))), 120),
                             reference=short(cx.rop(x, y), 80), states=len(states)))


# ============================================================================== family drivers

def odd_primes(lo, hi):
    return [p for p in range(max(lo, 3), hi + 1) if R.is_prime(p)]


def schnorr_params(tier):
    out = []
    for q in (3, 5, 7, 11, 13, 17, 19, 23, 29):
        ps = [p for p in range(q + 1, 40 * q) if (p - 1) % q == 0 and R.is_prime(p)][:3 if tier == 'quick' else 6]
        for p in ps:
            sub = [x for x in range(2, p) if pow(x, q, p) == 1]
            out.append((p, q, None))
            out.append((p, q, sub[-1]))
    return out


def weierstrass_curves(p, general_a):
    """(a, b, points, order) of all non-singular y^2 = x^3 + a x + b over F_p (a = 0 unless general_a)."""
    out = []
    for a in (range(1, p) if general_a else (0,)):
        for b in range(p):
            ref = R.RefWeierstrass(R.Fp(p), a, b)
            if (4 * a**3 + 27 * b * b) % p == 0:
                continue
            out.append((a, b, ref))
    return out


def edwards_curves(p):
    sq = {x * x % p for x in range(1, p)}
    out = []
    for a in ((1, p - 1) if p % 4 == 1 else (1,)):
        for d in range(2, p):
            if d not in sq and d != a:
                out.append((a, d, R.RefEdwards(R.Fp(p), a, d)))
    return out


def max_order_point(ref, elems):
    best, bo = elems[0], 1
    for x in elems:
        o = R.element_order(ref, x)
        if o > bo:
            best, bo = x, o
    return best, bo


def job_small_curves(part, job, fg):
    kind, p, tier, general = job['kind'], job['p'], job['tier'], job.get('general_a', False)
    lams = list(range(2, p))
    curves = weierstrass_curves(p, general) if kind == 'W' else edwards_curves(p)
    if 'part' in job:
        curves = curves[job['part']::job['parts']]
    for a, c, ref in curves:
        elems = ref.elements()
        gen, order = max_order_point(ref, elems)
        if kind == 'W':
            systems = ['affine'] if general else ['affine', 'jacobian'] + (['projective'] if len(elems) % 2 else [])
        else:
            systems = ['affine', 'projective'] + (['extended'] if a == p - 1 else [])
        for coords in systems:
            tag = f'{p}_{a}_{c}'
            name = f'{"Weierstrass" if kind == "W" else "Edwards"}/{coords} p={p} a={a} {"b" if kind == "W" else "d"}={c}'
            if job.get('only') and job['only'] != name:
                continue
            G = small_curve_class(fg, kind, coords, p, (a, c), gen if gen is not None else elems[1], order, tag)
            key = f'{"Wsmall" if kind == "W" else "Esmall"}/{coords}'
            if kind == 'W' and coords == 'jacobian' and len(elems) % 2 == 0:
                key += '(even-order)'
            if general:
                key += '(a!=0)'
            ad = ECAd(G, kind, coords, ref, key, name, lams, elems)
            run_small(part, ad, job, tier)


def builtin_adapter(fg, curve, coords, tier):
    """The curve equation comes from the standards (reference); the base point and the order are read from
    the real type as declared parameters and validated in the reference arithmetic by the caller."""
    kind, ref, std_gen, std_n, p = R.builtin_curve(curve)
    G = fg.EllipticCurve(curve, coords)
    F = ref.F
    if isinstance(F, R.Fp2):
        lams = [(2, 0), (0, 1), (p - 3, 5)]
    else:
        lams = [2, p - 1, (2**200 + 12345) % p]
    ad = ECAd(G, 'W' if kind == 'weierstrass' else 'E', coords, ref, f'{curve}/{coords}', f'{curve}/{coords}', lams)
    ad.cached = fg.EllipticCurve(curve, coords) is G and (coords != 'affine' or fg.EllipticCurve(curve) is G)
    ad.depth_limit = 2 if tier == 'quick' else 3
    ad.std = (std_gen, std_n)
    n = G.order
    try:
        gen = ad.ref_of_raw(ad.raw(G.generator))
    except Invalid as e:
        ad.gen_error = f'generator {short(G.generator.value)} is not on the standard curve ({e})'
        return ad
    ad.gen_error = None
    ad.gen, ad.n = gen, n
    ks = list(range(-4, 5))
    mult = {k: ref.mul(k, gen) for k in range(-12, 13)}
    ad.mult = mult

    def seeds():
        out = [(lambda: G.identity, ref.identity, 'G.identity'), (lambda: G(), ref.identity, 'G()'),
               (lambda: G.generator, gen, 'G.generator')]
        for k in ks:
            for v in range(ad.nvariants(mult[k])):
                out.append((lambda k=k, v=v: ad.make(mult[k], v), mult[k], f'constructor variant {v} of {k}G'))
        return out

    def late_seeds():
        return [(lambda m=m: G.repeat(G.generator, m), ref.mul(m, gen), f'repeat(generator, {m})', 'repeat', f'n=ord{m - n:+d}')
                for m in (n - 1, n, n + 1)]
    ad.seeds = seeds
    ad.late_seeds = late_seeds
    ad.alphabet = lambda: [ref.identity, gen, ref.inv(gen), mult[2]]
    ad.law_elements = lambda: [mult[k] for k in ks]
    return ad


def boundary_exponents(n, tier):
    js = [2, 3, 4, 5, 8, 16, 32, 64, 128, n.bit_length() - 1, n.bit_length()]
    if tier == 'thorough':
        js = sorted(set(js + [31, 63, 127, 200] + list(range(2, n.bit_length() + 2, 7))))
    ns = {0, 1, -1, 2, -2, 3, -3, n - 1, n, n + 1, -n, -n - 1, -n + 1, 2 * n + 1}
    for j in js:
        for d in (-1, 0, 1):
            ns.update((2**j + d, -(2**j + d)))
    return sorted(ns)


def big_repeat(cx, bases, ns):
    """repeat(a, n) against the reference (sum of reference doublings by the bits of n) for the exponents ns;
    the first two bases get all exponents, the others only |n| < 2^17."""
    ad, G, ref = cx.ad, cx.ad.G, cx.ad.ref
    for i, (a, x) in enumerate(bases):
        mine = ns if i < 2 else [m for m in ns if abs(m) < 2**17]
        dbl = [x]
        for _ in range(max(abs(m) for m in mine).bit_length()):
            dbl.append(ref.op(dbl[-1], dbl[-1]))
        for m in mine:
            want = ref.identity
            for i in range(abs(m).bit_length()):
                if (abs(m) >> i) & 1:
                    want = ref.op(want, dbl[i])
            if m < 0:
                want = ref.inv(want)
            cls = 'n=0' if m == 0 else f'n={m}' if abs(m) == 1 else 'n>1' if m > 0 else 'n<-1'
            cx.count(m not in (0, 1) and x != ref.identity)
            desc = (lambda a=a, m=m: f'repeat({short(ad.raw(a), 160)}, {m})')
            ok, res = cx.call('repeat', cls, desc, G.repeat, a, m)
            if ok:
                cx.expect(res, want, 'repeat', cls, desc)
    cx.flush()
    cx.part.note('repeat_exponents_big_curves', len(ns))


def job_builtin(part, job, fg):
    tier = job['tier']
    ad = builtin_adapter(fg, job['curve'], job['coords'], tier)
    cx = Ctx(part, ad, job)
    part.note('groups', 1)
    part.note('groups_by_family', {'EC-builtin': 1})
    part.case(key=None, nontrivial=True)
    if ad.gen_error:
        cx.viol('construct', 'generator', ad.gen_error)
        return
    G, ref, gen, n = ad.G, ad.ref, ad.gen, ad.n
    # generator has the declared order: n prime, G != O, n G = O -- decided in the reference arithmetic
    if not isinstance(n, int) or not R.is_prime(n) or gen == ref.identity or ref.mul(n, gen) != ref.identity:
        cx.viol('generator-order', '', f'declared order {n}: not prime, or the generator {short(gen)} does not have this '
                f'order in the reference arithmetic')
        return
    part.note('standard_base_point_and_order', {str((gen, n) == ad.std): 1})
    states = guarded(cx, 150 if tier == 'quick' else 400, explore, cx, 200000)
    if states is None:
        return
    part.note_max('max_states_one_group', len(states))
    part.outcomes.add((ad.key, len(states) > 50))
    if cx.failed:
        part.note('groups_gated_after_first_stage', [ad.name])
        return
    guarded_laws(cx, states, tier)
    if cx.failed:
        return
    guarded(cx, 200 if tier == 'quick' else 600, builtin_pairs_and_repeat, cx, states, tier)
    if job['coords'] == 'projective' and job['curve'] == 'secp256k1':
        part.sample(dict(group=ad.name, states=len(states), alphabet='kG for |k| <= 4 and ord-1, ord, ord+1'))


def builtin_pairs_and_repeat(cx, states, tier):
    ad, part = cx.ad, cx.part
    G, ref, gen, n = ad.G, ad.ref, ad.gen, ad.n
    # all pairs of (up to 3) representations of each alphabet element: operation vs reference
    reps = collections.defaultdict(list)
    for raw, (a, x) in states.items():
        if len(reps[x]) < 3:
            reps[x].append(a)
    alpha = [ad.mult[k] for k in range(-4, 5)]
    for x, y in itertools.product(alpha, alpha):
        for a in reps[x]:
            for b in reps[y]:
                cls = cx.pair_class(x, y)
                cx.count(x != ref.identity or y != ref.identity)
                part.transitions += 1
                desc = (lambda a=a, b=b: f'operation({short(ad.raw(a))}, {short(ad.raw(b))})')
                ok, res = cx.call('operation', cls, desc, G.operation, a, b)
                if ok:
                    cx.expect(res, cx.rop(x, y), 'operation', cls, desc)
    cx.flush()
    # repeat on the boundary alphabet of exponents
    bases = [(G.generator, gen), (G.operation2(G.generator), ad.mult[2]), (G.identity, ref.identity),
             (G.inversion(G.operation(G.operation2(G.generator), G.generator)), ad.mult[-3])]
    ns = boundary_exponents(n, tier)
    big_repeat(cx, bases, ns)


def job_cross(part, job, fg):
    """Cross-coordinate agreement of one built-in curve: the same derivations in each coordinate system must
    normalise to the same affine point (compared between the real systems, no reference involved)."""
    curve = job['curve']
    systems = ['affine', 'projective', 'jacobian' if curve in ('secp256k1', 'BN256', 'BN256_twist') else 'extended']
    Gs = [fg.EllipticCurve(curve, c) for c in systems]
    n = Gs[0].order

    def derive(G):
        g = G.generator
        out = {}
        two = G.operation2(g)
        out['2G'] = two
        out['G+G'] = G.operation(g, G(g.value))
        out['3G'] = G.operation(two, g)
        out['G+2G'] = G.operation(g, two)
        out['4G=2(2G)'] = G.operation2(two)
        out['4G=3G+G'] = G.operation(out['3G'], g)
        out['-3G'] = G.inversion(out['3G'])
        out['2G-3G'] = G.operation(two, out['-3G'])
        out['G-G'] = G.operation(g, G.inversion(g))
        out['(n-1)G'] = G.repeat(g, n - 1)
        out['(n-1)G+G'] = G.operation(out['(n-1)G'], g)
        out['(n+1)G'] = G.repeat(g, n + 1)
        out['nG'] = G.repeat(g, n)
        out['nG+G'] = G.operation(out['nG'], g)
        for j in (7, 64, 200):
            out[f'2^{j}G'] = G.repeat(g, 2**j)
            out[f'-(2^{j}+1)G'] = G.repeat(g, -(2**j + 1))
        return out

    def affine_of(G, a):
        nrm = a.normalize()
        v = tuple(fe(c) for c in nrm.value)
        if a == G.identity:
            return 'identity'
        return v[:2]
    try:
        with Deadline(150):
            tabs = [derive(G) for G in Gs]
    except (Exception, CpuTimeout) as e:
        key = f'C27:{curve}:cross-coordinates:raises'
        part.violation(key, f'{curve}: deriving the multiples of G raised {type(e).__name__}: {e}', dict(job=job, key=key))
        return
    for name in tabs[0]:
        pts = [affine_of(G, t[name]) for G, t in zip(Gs, tabs)]
        part.case(key=None, nontrivial=True)
        part.outcomes.add(pts[0] == 'identity')
        if len(set(pts)) != 1:
            bad = [s for s, pt in zip(systems, pts) if pt != pts[0]]
            key = f'C27:{curve}:cross-coordinates:{"+".join(bad)}'
            part.violation(key, f'{curve}: {name} normalises to {short(pts[0], 150)} in affine coordinates but to '
                           f'{short([pt for pt in pts if pt != pts[0]][0], 150)} in {bad}', dict(job=job, key=key))
    part.note('cross_coordinate_derivations', len(tabs[0]))


def hc_small_groups(tier):
    g1 = [3, 5, 7, 11, 13] + ([17, 19, 23, 29, 31] if tier == 'thorough' else [])
    g2 = [3, 5, 7, 13] + ([17, 19] if tier == 'thorough' else [])
    g3 = [5] + ([7] if tier == 'thorough' else [])
    cl = [3, 7, 13] + ([17, 19] if tier == 'thorough' else [])
    out = [(0, 3, 'affine'), (0, 7, 'affine')]
    out += [(1, p, 'affine') for p in g1] + [(2, p, 'affine') for p in g2] + [(3, p, 'affine') for p in g3]
    out += [(2, p, 'extended') for p in cl]
    return out


def job_hc_small(part, job, fg):
    tier = job['tier']
    for genus, p, coords in job['groups']:
        name = f'HC genus={genus} p={p} {coords}'
        if job.get('only') and job['only'] != name:
            continue
        try:
            with Deadline(60):
                A = fg.HyperellipticCurve(p=p, genus=genus)
                G = fg.HyperellipticCurve(p=p, genus=genus, coordinates=coords)
                cached = fg.HyperellipticCurve(p=p, genus=genus, coordinates=coords) is G
        except CpuTimeout as e:
            part.violation('C27:HC:construct:timeout', f'{name}: HyperellipticCurve() {e}', dict(job=job, only=name))
            continue
        f = [int(c) for c in A.f.value]
        key = f'HC/{coords}' + (f'(genus {genus})' if coords == 'affine' else '')
        if coords == 'affine':
            ref = R.RefMumford(p, f, genus) if genus else None
        else:
            # the Costello-Lauter type lives on the isomorphic curve x := x - f4/5 (so that f4 = 0)
            s = f[4] * pow(5, -1, p) % p
            f2 = R.pshift(f, -s, p)
            if [int(c) for c in G.f.value] != f2:
                part.violation('C27:HC/extended:curve-shift', f'{name}: f = {G.f} but f(x - f4/5) = {f2}', dict(job=job, only=name))
                continue
            ref = R.RefMumford(p, f2, genus)
        if genus == 0:
            part.case(key=None, nontrivial=False)
            if G.order != 1 or G.generator != G.identity or G.operation(G.identity, G.identity) != G.identity:
                part.violation('C27:HC/affine(genus 0):trivial-group', f'{name}: not the trivial group', dict(job=job, only=name))
            continue
        elems = ref.elements()
        ad = HCAd(G, coords, ref, key, name, elems)
        ad.cached = cached
        ad.expected_order = len(elems) if G.order is not None else None
        if genus == 1:
            # cross-validate the Cantor reference against chord-tangent arithmetic on y^2 = f(x)
            r1 = R.RefGenus1(p, f)
            if sorted(r1.elements()) != sorted(elems) or any(r1.op(x, y) != ref.op(x, y) for x in elems for y in elems):
                part.note('harness_errors', [f'{name}: Cantor reference disagrees with chord-tangent reference'])
                continue
        run_small(part, ad, job, tier)
        # partial independent oracle for sums that need no reduction (affine only)
        if coords == 'affine' and genus >= 2:
            cnt = 0
            for x in elems:
                for y in elems[:40]:
                    pred = ref.compose_unreduced(x, y)
                    if pred is not None:
                        cnt += 1
                        r = ad.raw(G.operation(ad.make(x), ad.make(y)))
                        if not pred(r):
                            part.violation(f'C27:{key}:operation:unreduced-sum', f'{name}: {x} + {y} -> {r} is not u1*u2 with '
                                           f'v = v_i mod u_i', dict(job=job, only=name))
            part.case(key=None, nontrivial=True, n=cnt)


def job_kummer(part, job, fg):
    """kummer1271 (Costello-Lauter coordinates) against the reference Cantor arithmetic over 2^127-1, and against
    a generic-Cantor type built on the same curve (cross-coordinate agreement)."""
    tier = job['tier']
    K = fg.HyperellipticCurve('kummer1271')
    p = 2**127 - 1
    f = [int(c) for c in K.f.value]
    ref = R.RefMumford(p, f, 2)
    n = K.order       # declared; validated below in the reference Cantor arithmetic
    for coords in (job['coords'],):
        if coords == 'extended':
            G = K
        else:
            G = type('Tkummer1271affine', (fg.HyperellipticCurveDivisor,), {'__slots__': ()})
            G.field, G.genus, G.curvename, G.f, G.gap = K.field, 2, 'kummer1271', K.f, K.gap
            G.identity = G(check=False)
            G.generator = G((K.generator.u, K.generator.v), check=False)
            G.order = K.order
        ad = HCAd(G, coords, ref, f'kummer1271/{coords}', f'kummer1271/{coords}')
        gv = K.generator.value
        gen = ((fe(gv[1]), fe(gv[0]), 1), tuple(R.ptrim([fe(gv[3]), fe(gv[2])])))
        part.case(key=None, nontrivial=True)
        if not isinstance(n, int) or not R.is_prime(n) or not ref.is_member(gen) or ref.mul(n, gen) != ref.identity:
            part.violation('C27:kummer1271:generator-order', f'generator is not a divisor of prime order {n} in the '
                           'reference Cantor arithmetic', dict(job=job, key='C27:kummer1271:generator-order'))
            return
        mult = {0: ref.identity}
        for k in range(1, 13):
            mult[k] = ref.op(mult[k - 1], gen)
            mult[-k] = ref.inv(mult[k])
        ad.mult, ad.gen, ad.n = mult, gen, n
        ad.expected_order = n
        ad.depth_limit = 2 if tier == 'quick' else 3

        def seeds(ad=ad, G=G):
            out = [(lambda: G.identity, ref.identity, 'G.identity'), (ad.default_ctor, ref.identity, 'G()'),
                   (lambda: G.generator, gen, 'G.generator')]
            for k in range(-4, 5):
                for v in range(ad.nvariants(mult[k])):
                    out.append((lambda k=k, v=v: ad.make(mult[k], v), mult[k], f'constructor variant {v} of {k}G'))
            return out

        def late_seeds(G=G):
            return [(lambda m=m: G.repeat(G.generator, m), ref.mul(m, gen), f'repeat(generator, {m})', 'repeat', f'n=ord{m - n:+d}')
                    for m in (n - 1, n, n + 1)]
        ad.seeds = seeds
        ad.late_seeds = late_seeds
        ad.alphabet = lambda: [ref.identity, gen, ref.inv(gen), mult[2]]
        ad.law_elements = lambda: [mult[k] for k in range(-4, 5)]
        cx = Ctx(part, ad, job)
        part.note('groups', 1)
        part.note('groups_by_family', {'HC-builtin': 1})
        states = guarded(cx, 150 if tier == 'quick' else 400, explore, cx, 100000)
        if states is None:
            continue
        if cx.failed:
            part.note('groups_gated_after_first_stage', [ad.name])
            continue
        guarded_laws(cx, states, tier)
        if cx.failed:
            continue
        guarded(cx, 200 if tier == 'quick' else 600, big_repeat, cx,
                [(G.generator, gen), (G.operation2(G.generator), mult[2]), (G.identity, ref.identity)],
                boundary_exponents(n, tier))


# ------------------------------------------------------------------------------ class-group constructor / reduction

def job_class_groups(part, job, fg):
    tier = job['tier']
    mats = R.sl2_alphabet(1 if tier == 'quick' else 2)
    for D in job['deltas']:
        name = f'Cl({D})'
        if job.get('only') and job['only'] != name:
            continue
        ad = ClAd(fg, D)
        run_small(part, ad, job, tier)
        if part.notes.get('hung_groups'):
            break
        # the constructor must reduce any equivalent form to the reduced representative
        cnt = 0
        for x in ad.elems:
            for M in mats:
                f = R.transform_form(x, M)
                cnt += 1
                try:
                    with Deadline(20):
                        got = tuple(int(c) for c in ad.G(f).value)
                except (Exception, CpuTimeout) as e:
                    got = f'{type(e).__name__}: {e}'
                if got != x:
                    a, b, c = f
                    cls = 'a=c' if x[0] == x[2] else 'b=a' if x[1] == x[0] else 'generic'
                    part.violation(f'C27:Cl:reduce:{cls}', f'{name}: constructor reduces {f} to {got}, the reduced equivalent '
                                   f'form is {x}', dict(job=job, only=name))
        part.case(key=None, nontrivial=True, n=cnt)
        part.note('forms_reduced', cnt)


# ------------------------------------------------------------------------------ encode / decode

def message_alphabet(mmax, dense):
    """all messages when the admissible range is small, else 0..31, 2^j-1, 2^j, 2^j+1, mmax-1, mmax"""
    if mmax < 0:
        return []
    if mmax <= dense:
        return list(range(mmax + 1))
    ms = set(range(32)) | {41, 42, mmax - 1, mmax, mmax // 2, mmax // 3}
    j = 5
    while 2**j <= mmax:
        ms.update(m for m in (2**j - 1, 2**j, 2**j + 1) if m <= mmax)
        j += 1 if j < 70 else 13
    return sorted(ms)


def report(part, key, what, job):
    part.violation(key, what, dict(job=job, key=key))


def encdec(part, job, key, name, G, messages, valid, size_class=None):
    """decode(encode(m)) == m; encode may fail with the documented ValueError."""
    failed = 0
    for m in messages:
        part.case(key=None, nontrivial=m > 0)
        try:
            with Deadline(10):
                failed += encdec_one(part, job, key, name, G, m, valid, size_class)
        except CpuTimeout as e:
            report(part, f'C27:{key}:encode-decode:hangs', f'{name}: encode/decode/operations on the encoding of {m}: {e}',
                           job)
            break
    part.note('encode_failed_documented', failed)
    part.note('messages', len(messages))
    part.note('messages_by_family', {key.split('/')[0].split(':')[0]: len(messages)})


def encdec_one(part, job, key, name, G, m, valid, size_class):
    if True:
        cls = size_class(m) if size_class else ''
        try:
            enc = G.encode(m)
        except ValueError as e:
            if 'encoding failed' in str(e):
                return 1
            enc = e
        except Exception as e:
            enc = e
        if isinstance(enc, Exception) or enc is None:
            report(part, f'C27:{key}:encode:raises', f'{name}: encode({m}) gives {enc!r}', job)
            return 0
        M, Z = enc
        why = valid(M) or valid(Z)
        if why:
            report(part, f'C27:{key}:encode:not-an-element', f'{name}: encode({m}) = ({short(M.value, 150)}, '
                           f'{short(Z.value, 150)}): {why}', job)
        else:
            # the encoded elements must be usable as group elements: inversion, operation, operation2, hashing
            # must not raise on them (the laws themselves are checked on all elements by the search jobs)
            try:
                G.operation(M, G.inversion(M)), G.operation2(Z), G.operation(M, Z), hash(M), hash(Z), M == Z
                why = None
            except Exception as e:
                why = f'{type(e).__name__}: {e}'
            if why:
                report(part, f'C27:{key}:encode:unusable-element', f'{name}: encode({m}) = ({short(M.value, 150)}, '
                               f'{short(Z.value, 150)}): inversion/operation/operation2/hash of the encoded elements '
                               f'raises {why}', job)
        try:
            got = G.decode(M, Z)
        except Exception as e:
            got = f'{type(e).__name__}: {e}'
        part.outcomes.add(got == m)
        if m == 42 and not part.samples:
            part.sample(dict(group=name, message=m, encoded=short(M.value, 100), Z=short(Z.value, 60), decoded=short(got, 40)))
        if got != m or isinstance(got, bool) or not isinstance(got, int):
            report(part, f'C27:{key}:decode' + (f':{cls}' if cls else ''),
                           f'{name}: decode(encode({m})) = {got!r}', job)
    return 0


def job_encdec(part, job, fg):
    fam, tier = job['family'], job['tier']
    dense = 600 if tier == 'quick' else 9000
    if fam == 'QR':
        for l in job['ls']:
            G = fg.QuadraticResidues(l=l)
            p = int(G.field.modulus)

            def valid(a, p=p, G=G):
                return None if isinstance(a, G) and pow(int(a.value.value), (p - 1) // 2, p) == 1 else 'not a quadratic residue'
            encdec(part, job, 'QR', f'QR(l={l}, p={p})', G, message_alphabet(p // G.gap - 1, dense), valid)
    elif fam == 'SG':
        groups = [fg.SchnorrGroup(p, q, g) for p, q, g in schnorr_params('quick')[::6]]
        groups += [fg.SchnorrGroup(l=24, n=12), fg.SchnorrGroup(l=64, n=31)]
        for G in groups:
            p, q = int(G.field.modulus), G.order

            def valid(a, p=p, q=q, G=G):
                return None if isinstance(a, G) and pow(int(a.value.value), q, p) == 1 else 'not in the subgroup'
            ms = list(range(min(q, 1024)))
            if len(ms) > dense:
                ms = sorted(set(ms[:64] + ms[::7] + ms[-64:]))
            encdec(part, job, 'SG', f'SG(p={p}, q={q})', G, ms, valid)
    elif fam == 'EC':
        curve = job['curve']
        kind, ref, gen, n, p = R.builtin_curve(curve)
        for coords in ('affine', 'projective', 'jacobian' if kind == 'weierstrass' else 'extended'):
            G = fg.EllipticCurve(curve, coords)
            ad = ECAd(G, 'W' if kind == 'weierstrass' else 'E', coords, ref, '', '', [])

            def valid(a, ad=ad, G=G):
                if not isinstance(a, G):
                    return 'wrong type'
                try:
                    ad.ref_of_raw(ad.raw(a))
                except Invalid as e:
                    return str(e)
            encdec(part, job, f'{curve}/{coords}', f'{curve}/{coords}', G, message_alphabet(p // G.gap - 1, 0), valid)
    elif fam == 'HC':
        specs = [('kummer1271', None, None, None), ('DGS', 2**31 - 1, 1, 'affine'), ('DGS', 2**31 - 1, 2, 'affine'),
                 ('DGS', 2**31 - 1, 2, 'extended'), ('DGS', 2**31 - 1, 3, 'affine'), ('DGS', 2**127 - 1, 2, 'affine'),
                 ('DGS', 2**19 - 1, 2, 'affine'), ('DGS', 2**19 - 1, 2, 'extended')]
        for cn, p, genus, coords in specs[job['lo']:job['hi']]:
            if cn == 'kummer1271':
                G = fg.HyperellipticCurve('kummer1271')
                p, genus, coords = 2**127 - 1, 2, 'extended'
            else:
                with Deadline(120):
                    G = fg.HyperellipticCurve(p=p, genus=genus, coordinates=coords)
            ref = R.RefMumford(p, [int(c) for c in G.f.value], genus)
            ad = HCAd(G, coords, ref, '', '')

            def valid(a, ad=ad, G=G):
                if not isinstance(a, G):
                    return 'wrong type'
                try:
                    ad.ref_of_raw(ad.raw(a))
                except Invalid as e:
                    return str(e)
            gap = G.gap
            mmax = p // gap - 1 if coords == 'affine' else p // (2 * gap) - 1

            def size_class(m):
                return 'm<2^53' if m < 2**53 else 'm>=2^53'
            encdec(part, job, f'HC/{coords}', f'HC({cn}, p={p}, genus={genus}, {coords})', G,
                   message_alphabet(mmax, dense if p < 2**20 else 0), valid, size_class)
    elif fam == 'Cl':
        for l in job['ls']:
            G = fg.ClassGroup(l=l)
            D = G.discriminant
            ref = R.RefForms(D)

            def valid(a, ref=ref, G=G):
                return None if isinstance(a, G) and ref.is_reduced(tuple(int(c) for c in a.value)) else \
                    'not a reduced primitive form of the discriminant'
            # admissible messages per the assert in encode(): (m+1)*gap <= isqrt(-D)/2 (float division there);
            # the left side is an integer, so this is m+1 <= floor(bound) // gap
            mmax = int(math.isqrt(-D) / 2) // G.gap - 1
            encdec(part, job, 'Cl', f'Cl(l={l}, D={D})', G, message_alphabet(mmax, dense), valid)


# ============================================================================== jobs

def jobs(tier, seed):
    q = tier == 'quick'
    js = []
    js.append(dict(kind='sym', tier=tier, ns=[0, 1, 2, 3, 4]))
    if not q:
        js.append(dict(kind='sym', tier=tier, ns=[5]))
    ps = odd_primes(3, 59 if q else 127)
    for i in range(2):
        js.append(dict(kind='qr', tier=tier, ps=ps[i::2]))
    sp = schnorr_params(tier)
    k = 2 if q else 4
    for i in range(k):
        js.append(dict(kind='sg', tier=tier, params=sp[i::k]))
    ds = R.class_group_discriminants(3, 500 if q else 2000)
    if not q:
        ds += R.class_group_discriminants(2**14 - 120, 2**14) + R.class_group_discriminants(2**16 - 60, 2**16)
    k = 4 if q else 10
    for i in range(k):
        js.append(dict(kind='cl', tier=tier, deltas=ds[i::k]))
    for p in ([5, 7, 11, 13] if q else [5, 7, 11, 13, 17, 19, 23, 29, 31]):
        parts = 1 if p < 11 else 3 if p < 17 else 6 if p < 29 else 10
        for i in range(parts):
            js.append(dict(kind='W', tier=tier, p=p, part=i, parts=parts))
            js.append(dict(kind='E', tier=tier, p=p, part=i, parts=parts))
    for p in ([5, 7] if q else [5, 7, 11, 13]):
        js.append(dict(kind='W', tier=tier, p=p, general_a=True))
    for curve in ('Ed25519', 'Ed448', 'secp256k1', 'BN256', 'BN256_twist'):
        for coords in ('affine', 'projective', 'jacobian' if curve[0] in 'sB' else 'extended'):
            js.append(dict(kind='builtin', tier=tier, curve=curve, coords=coords))
        js.append(dict(kind='cross', tier=tier, curve=curve))
        if curve != 'BN256_twist':
            js.append(dict(kind='encdec', tier=tier, family='EC', curve=curve))
    hs = hc_small_groups(tier)
    heavy = [h for h in hs if h[0] == 3 or (h[0] == 2 and h[1] >= 13)]
    light = [h for h in hs if h not in heavy]
    for i in range(3):
        js.append(dict(kind='hc', tier=tier, groups=light[i::3]))
    for h in heavy:
        js.append(dict(kind='hc', tier=tier, groups=[h]))
    js.append(dict(kind='kummer', tier=tier, coords='extended'))
    js.append(dict(kind='kummer', tier=tier, coords='affine'))
    js.append(dict(kind='encdec', tier=tier, family='QR', ls=[16, 20, 32, 64] + ([] if q else [128, 768])))
    js.append(dict(kind='encdec', tier=tier, family='SG'))
    js.append(dict(kind='encdec', tier=tier, family='HC', lo=0, hi=8))
    js.append(dict(kind='encdec', tier=tier, family='Cl', ls=[32, 36, 40, 64] + ([] if q else [48, 128, 256])))
    # longest first
    weight = {'builtin': 0, 'kummer': 0, 'hc': 1, 'E': 2, 'W': 2}
    js.sort(key=lambda j: (weight.get(j['kind'], 3), -j.get('p', 0)))
    for i, j in enumerate(js):
        j['index'] = i
    return js


TYPE_CONSTRUCTORS = ('SymmetricGroup', 'QuadraticResidues', '_QuadraticResidues', 'SchnorrGroup', '_SchnorrGroup',
                     'EllipticCurve', '_EllipticCurve', 'HyperellipticCurve', '_HyperellipticCurve', 'ClassGroup',
                     '_ClassGroup')


def run_job(job):
    import traceback
    part = Part()
    part.state_keys = set()
    try:
        dispatch(part, job)
    except Exception as e:
        # a group *type* constructor of fingroups failing (e.g. its own order assertion) is a finding, not a harness error
        frames = [fr for fr in traceback.extract_tb(e.__traceback__) if fr.filename.endswith('mpyc/fingroups.py')]
        if not frames or frames[0].name not in TYPE_CONSTRUCTORS:
            raise
        key = f'C27:{frames[0].name.lstrip("_")}:group-construction:raises'
        part.violation(key, f'{frames[0].name}() raised {type(e).__name__}: {e} at fingroups.py:{frames[-1].lineno} '
                       f'({frames[-1].line}) in job {short(job, 200)}', dict(job=job, key=key))
    # several jobs can report the same key; the parent keeps the report of the lowest job index (determinism)
    part.note('viol_candidates', [[v['key'], job.get('index', 0), v['what'], v['detail']] for v in part.violations])
    part.note('sample_candidates', [[(job.get('index', 0), i), smp, job['kind']] for i, smp in enumerate(part.samples)])
    part.samples = []
    return part


def dispatch(part, job):
    from mpyc import fingroups as fg
    kind, tier = job['kind'], job['tier']
    only = job.get('only')
    if kind == 'sym':
        for n in job['ns']:
            if not only or only == f'Sym({n})':
                run_small(part, SymAd(fg, n), job, tier)
    elif kind == 'qr':
        for p in job['ps']:
            if not only or only == f'QR({p})':
                run_small(part, UnitsAd(fg, 'QR', p), job, tier)
    elif kind == 'sg':
        for p, q, g in job['params']:
            if not only or only == f'SG({p},{q},{g})':
                run_small(part, UnitsAd(fg, 'SG', p, q, g), job, tier)
    elif kind == 'cl':
        job_class_groups(part, job, fg)
    elif kind in ('W', 'E'):
        job_small_curves(part, job, fg)
    elif kind == 'builtin':
        job_builtin(part, job, fg)
    elif kind == 'cross':
        job_cross(part, job, fg)
    elif kind == 'hc':
        job_hc_small(part, job, fg)
    elif kind == 'kummer':
        job_kummer(part, job, fg)
    elif kind == 'encdec':
        job_encdec(part, job, fg)


def coverage_extra(tier, seed, total):
    best = {}
    for key, idx, what, detail in total.notes.pop('viol_candidates', []):
        if key not in best or idx < best[key][0]:
            best[key] = (idx, what, detail)
    for v in total.violations:
        if v['key'] in best:
            _, v['what'], v['detail'] = best[v['key']]
    # evidence must not depend on the completion order of the jobs
    cands = sorted(total.notes.pop('sample_candidates', []), key=lambda c: c[0])
    chosen = []
    for kind in ('builtin', 'W', 'cl', 'hc', 'sym', 'encdec'):      # one written-out case per kind of job
        chosen += [c[1] for c in cands if c[2] == kind][:1]
    total.samples = chosen
    for k, v in list(total.notes.items()):
        if isinstance(v, dict):
            total.notes[k] = dict(sorted(v.items()))
        elif isinstance(v, list):
            total.notes[k] = sorted(v, key=repr)
    return None


def replay(case):
    """Re-runs the job of the recorded violation restricted to the failing group; keeps that violation key."""
    job = dict(case['job'])
    if case.get('only'):
        job['only'] = case['only']
    job.pop('index', None)
    part = run_job(job)
    part.notes.pop('viol_candidates', None)
    part.notes.pop('sample_candidates', None)
    if case.get('key'):
        part.violations = [v for v in part.violations if v['key'] == case['key']]
    return part
