"""C28 -- secure group elements behave like the plain ones, in every party configuration.

Families: Sym(3), Sym(4) (all elements), Sym(6) (alphabet; the only symmetric group with degree > m at m = 5),
QuadraticResidues(7 / 11 / 23), SchnorrGroup(23,11) and (47,23) (all elements), ClassGroup(-23 / -47 / -71) (all
forms), the built-in curves Ed25519 (affine / projective / extended), Ed448, secp256k1, BN256, BN256_twist
(projective; the only oblivious Weierstrass system) on the alphabet {O, G, -G, 2G, -2G, 3G, N(2G)} (2G, 3G in the
non-normalised representation the plain arithmetic produces, N(2G) the same point normalised: equality must not
depend on the representation), and kummer1271 (Costello-Lauter) on generic divisors (thorough tier).

Operations, each on secure elements obtained by conversion secgrp(plain) and by mpc.input: a @ b (secure/secure,
secure/public, public/secure, same object), ~a, a == b, a != b, if_else(c, a, b) for a secret bit c, the additive /
multiplicative spellings, repeat / ^ / n* / ** with public exponents {-2..3, ord-1, ord}, with SECRET exponents
(SecFld(group order) and secure integers) for public and for secret bases, and repeat_public.

Engines: 1 party synchronous with scripted masks (all pairs of the small groups, curve alphabets), then m real
parties in the virtual world at (3,1) and (5,2), PRSS on and off, seeded / all-zero / all-max mask patterns.
Oracle: the plain mpyc.fingroups operation on the plain elements (fingroups itself is C27), compared after
normalisation; every party must obtain the same value.
"""

import sys
import math
import itertools

from mc.core import Part, stable_hash
from mc import exact

LEVEL = 'exploration'
FRESH_PROCESS_PER_JOB = True
MASK_SEED = 0     # seed of the seeded mask streams: fixed, so that --seed cannot change which shares the parties hold
K_SP = 6          # < 8: the probabilistic zero test runtime._is_zero (error 2^-k by design) is never selected
RULE = ('one case = (group, operation incl. exponent and operand kinds, element tuple, configuration (m,t,PRSS), mask script); '
        'single party (thorough): all element pairs of the groups of order <= 24 and of the 7-element curve alphabets x {seeded, all-zero, '
        'all-max} masks, plus every alphabet value at each of the first draws for the reduced alphabets; quick: all pairs for @ and == '
        'of the groups of order <= 23 (reduced alphabets for Sym(4), Cl(-71)), every other operation / call site on reduced alphabets, '
        'seeded and all-max masks; multi-party: reduced '
        'alphabets x mask patterns at (3,1) and (5,2), PRSS on/off; cases outside the documented domain are skipped (public base '
        'with secret field exponent needs a^p = 1 for the exponent field GF(p); lifted exponent fields have no to_bits); '
        'non-trivial = some random draw or more than one party')
ASSUMPTIONS = [
    'reference = plain mpyc.fingroups arithmetic on the plain elements (checked independently by C27)',
    'secure symmetric groups need degree > m (share field GF(p), p >= degree, must exceed m); Sym(3) at m=1, Sym(4) at m<=3, Sym(6) at m=5',
    'public base with secret exponent in GF(p): the method multiplies a^(lambda_i x_i) over the parties and is only meaningful when '
    'a^p = 1 (prime-order groups with SecFld(order); 3-cycles with SecFld(3)); other bases are skipped for field exponents',
    'secure integer exponents are in the documented domain ("x is a secure prime field element or secure int"; the unit tests use '
    'g**secint(-2)), for public and secret bases, positive and negative',
    'Costello-Lauter divisors (kummer1271): only generic full-degree operands whose results are full-degree (documented restriction)',
    'hyperelliptic curves in affine (Mumford) coordinates need numpy (secpoly) and are not run under /venv/bin/python',
    'sec_param < 8 so that the probabilistic zero test _is_zero is not selected; excluded event: blinding factor 0 in is_zero_public',
    'every multi-party operation that takes a SecFld exponent runs with sec_param k = 30 and seeded masks only (no all-zero / all-max '
    'pattern): runtime.to_bits on a shared prime-field element converts to SecInt(1 + bit_length), which has no room for the sum of the '
    'C(m,t) (or t+1) conversion masks and is right only up to the statistical slack of the masks (as documented for C06/C30)',
    'the seeded mask streams use a fixed seed (MASK_SEED): --seed changes nothing, so the parties hold the same shares in every run and '
    'the same violation keys fire on every run',
    'recorded defect classes carry a law: public base with a secure-integer exponent and m > 1 must still give a^(x + j p) with |j| <= m '
    '(p = modulus of the integer type, signed residues), a secret base with a negative secure integer a^(x + 2^l); any other wrong '
    'result in these classes gets the key ...:unexplained(<class>), failures other than wrong values ...:<failure>(<class>)',
    'default eager schedule for multi-party runs (schedule independence is C08)']
MANIFEST = dict(
    level='exploration',
    technique='bounded-exhaustive enumeration of group elements, exponents and protocol masks on the real runtime (1 party synchronous '
              'and m parties in the virtual world) against plain finite-group arithmetic',
    text='All element pairs of Sym(3), Sym(4), QR(7/11/23), Schnorr (23,11)/(47,23), Cl(-23/-47/-71) and the alphabet {O,+-G,+-2G,3G,N(2G)} of '
         'Ed25519 (3 coordinate systems), Ed448, secp256k1, BN256, BN256_twist through @ (all operand kinds), ~, ==, !=, if_else, +,-,*,/ '
         'spellings, repeat with public exponents {-2..3, ord-1, ord} and with secret exponents (SecFld(order), secure integers) for public '
         'and secret bases, repeat_public; inputs by conversion and by mpc.input; single party with scripted masks, then (3,1) and (5,2) '
         'with PRSS on/off (recombination-vector path, lifted exponent fields) with seeded/zero/max mask patterns.',
    ref='DESIGN 5/C28', note='trusted: plain fingroups arithmetic (C27), randomness seam, world model; domain restrictions listed in assumptions')

_FG = None


def plain_fg():
    """mpyc.fingroups for reference computations in the parent / outside the universes (pure mathematics)."""
    global _FG
    if _FG is None:
        if 'mpyc.fingroups' not in sys.modules:
            argv, sys.argv = sys.argv, ['verif', '--no-log']
            try:
                import mpyc.fingroups  # noqa
            finally:
                sys.argv = argv
        _FG = sys.modules['mpyc.fingroups']
    return _FG


# ------------------------------------------------------------------------------------------
# families
# ------------------------------------------------------------------------------------------

SYM6 = [(0, 1, 2, 3, 4, 5), (1, 0, 2, 3, 4, 5), (1, 2, 3, 4, 5, 0), (1, 2, 0, 4, 5, 3), (5, 4, 3, 2, 1, 0), (1, 2, 3, 4, 0, 5)]


class Fam:
    """One group instance in one copy of mpyc.fingroups: element codes <-> plain elements."""

    def __init__(self, fg, spec):
        self.spec = tuple(spec)
        kind = spec[0]
        self.kind = kind
        self.big = False
        self.cl = False          # Costello-Lauter restrictions
        if kind == 'Sym':
            n = spec[1]
            G = fg.SymmetricGroup(n)
            self.key, self.name = 'Sym', f'Sym({n})'
            self.dom = list(itertools.permutations(range(n))) if n <= 4 else list(SYM6)
            self.mpdom = {3: self.dom, 4: [(0, 1, 2, 3), (1, 0, 2, 3), (1, 2, 0, 3), (1, 2, 3, 0), (2, 3, 0, 1)], 6: SYM6[:5]}[n]
            self.order = math.factorial(n)
            self.q = 3               # exponent field for public bases: 3-cycles
        elif kind in ('QR', 'SG'):
            p = spec[1]
            if kind == 'QR':
                G = fg.QuadraticResidues(p)
                self.key, self.name = 'QR', f'QR({p})'
                els = sorted({x * x % p for x in range(1, p)})
            else:
                G = fg.SchnorrGroup(p, spec[2])
                self.key, self.name = 'SG', f'SG({p},{spec[2]})'
                els = [x for x in range(1, p) if pow(x, spec[2], p) == 1]
            self.dom = els
            g = int(G.generator)
            self.mpdom = [1, g, pow(g, -1, p), g * g % p]
            self.order = len(els)
            self.q = self.order
        elif kind == 'Cl':
            D = spec[1]
            G = fg.ClassGroup(D)
            from mc.ref import groups as R
            self.key, self.name = 'Cl', f'Cl({D})'
            self.dom = R.RefForms(D).elements()
            self.mpdom = self.dom[:3]
            self.order = len(self.dom)
            self.q = self.order
        elif kind == 'EC':
            G = fg.EllipticCurve(spec[1], spec[2])
            fam = 'Ed' if spec[1].startswith('Ed') else 'W'
            self.key, self.name = f'{fam}/{spec[2]}' + ('/GF(p^2)' if spec[1] == 'BN256_twist' else ''), f'{spec[1]}/{spec[2]}'
            self.dom = [0, 1, -1, 2, -2, 3, 'N2']      # 'N2': 2G in normalised coordinates (2: as the plain doubling leaves it)
            self.mpdom = [0, 1, -1, 2, 'N2']
            self.order = G.order
            self.q = G.order
            self.big = True
        elif kind == 'HC':
            G = fg.HyperellipticCurve('kummer1271')
            self.key, self.name = 'HC/extended', 'kummer1271'
            self.dom = [1, 2, 3, -1, -2, 5]
            self.mpdom = [1, 2, -1, 3]
            self.order = G.order
            self.q = G.order
            self.big = True
            self.cl = True
        else:
            raise ValueError(spec)
        self.G = G
        self._cache = {}

    def elem(self, c):
        e = self._cache.get(c)
        if e is None:
            G = self.G
            if c == 'N2':
                e = G.repeat(G.generator, 2).normalize()
            elif self.kind in ('EC', 'HC'):
                e = G.repeat(G.generator, c)       # plain arithmetic: non-normalised coordinates for |c| >= 2
            elif self.kind == 'Cl':
                e = G(tuple(c), check=False)
                assert e.value == type(e)(tuple(c)).value        # the code is a reduced form
            else:
                e = G(c)
            self._cache[c] = e
        return e

    def code(self, x):
        """Canonical, picklable value of a plain group element."""
        k = self.kind
        if k == 'Sym':
            return tuple(int(a) for a in x.value)
        if k in ('QR', 'SG'):
            return _fint(x.value)
        if k == 'Cl':
            return tuple(int(a) for a in x.value)
        if k == 'EC':
            return tuple(_fint(a) for a in x.normalize().value)
        return tuple(_fint(a) for a in x.value)

    def is_id(self, c):
        return c == (0 if self.kind in ('EC', 'HC') else self.code(self.G.identity))

    def inv_code(self, c):
        if self.kind in ('EC', 'HC'):
            return -c
        return self.code(self.G.inversion(self.elem(c)))

    def pair_class(self, x, y):
        if self.kind == 'EC':
            x, y = (2 if x == 'N2' else x), (2 if y == 'N2' else y)
        ex, ey = self.is_id(x), self.is_id(y)
        if ex and ey:
            return 'e@e'
        if ex:
            return 'e@a'
        if ey:
            return 'a@e'
        if x == y:
            return 'a@a'
        if y == self.inv_code(x):
            return 'a@~a'
        return 'a@b'


def _fint(a):
    """Field element -> int in range(p) (independent of the signedness flag of the field class), or coefficient tuple."""
    v = getattr(a, 'value', a)
    if hasattr(v, 'value'):          # extension field element: polynomial
        return tuple(int(c) for c in v.value)
    mod = getattr(type(a), 'modulus', None)
    return int(v) % int(mod) if isinstance(mod, int) else int(v)


class CpuTimeout(BaseException):
    """not an Exception: must not be swallowed by the code under test"""


class Deadline:
    """CPU-time budget for one case (an operation that never returns is a violation, not a hanging check)."""

    def __init__(self, seconds):
        self.seconds = seconds

    def _fire(self, *_):
        raise CpuTimeout()

    def __enter__(self):
        import signal
        self.old = signal.signal(signal.SIGPROF, self._fire)
        signal.setitimer(signal.ITIMER_PROF, self.seconds)

    def __exit__(self, *exc):
        import signal
        signal.setitimer(signal.ITIMER_PROF, 0)
        signal.signal(signal.SIGPROF, self.old)
        return False


class GOp:
    """arity; fn(*plain elements) -> secure result | Future; ref(*plain elements) -> plain result | None (skip);
    res = 'elem' | 'bit'; mode = 'secure' | 'public'; cls(codes) -> input class for the violation key; site = key part."""

    def __init__(self, arity, fn, ref, res, mode, site, cls, law=None):
        self.arity, self.fn, self.ref, self.res, self.mode, self.site, self.cls = arity, fn, ref, res, mode, site, cls
        self.law = law        # known-defect class: law(elems, p, l) -> plain results that defect produces (else: another key)


class OpTable(dict):
    zinfo = None              # (modulus of the secure-integer exponent type's field, its bit length) -- real builds only


def exp_class(e, order):
    if e == 0:
        return 'x=0'
    if e < 0:
        return 'x<0'
    if e in (order - 1, order):
        return 'x=ord-1' if e == order - 1 else 'x=ord'
    return 'x>0'


def build_ops(fam, mpc, m):
    """The operation table of one family.  `mpc` may be exact.Dummy() (names, refs and classes only)."""
    G = fam.G
    S = mpc.SecGrp(G)
    ops = OpTable()
    snd = m - 1
    additive, multiplicative = G.is_additive, G.is_multiplicative
    order = fam.order
    e_code = None

    def sec(variant):
        if variant == 'c':
            return lambda a: S(a)
        return lambda a: mpc.input(S(a), senders=snd)

    def bit(b):
        return mpc.input(S.sectype(b), senders=0)

    def add(name, arity, fn, ref, res='elem', mode='secure', cls=None, site=None, law=None):
        if cls is None:
            cls = (lambda c: fam.pair_class(*c)) if arity == 2 else (lambda c: 'identity' if fam.is_id(c[0]) else 'generic')
        ops[name] = GOp(arity, fn, ref, res, mode, site or name.split(':')[0], cls, law)

    def admissible2(a, b, r):
        """Costello-Lauter: generic full-degree operands and result only."""
        if not fam.cl:
            return r
        if a.value == G._identity or b.value == G._identity or r.value == G._identity:
            return None
        if a.value[:2] == b.value[:2]:       # same u: a = +-b
            return None
        return r

    def admissible1(a, r):
        if fam.cl and (a.value == G._identity or r.value == G._identity):
            return None
        return r

    for v in ('c', 'i'):
        s = sec(v)
        add(f'op:{v}', 2, lambda a, b, s=s: s(a) @ s(b), lambda a, b: admissible2(a, b, G.operation(a, b)))
        add(f'inv:{v}', 1, lambda a, s=s: ~s(a), lambda a: admissible1(a, G.inversion(a)))
        add(f'sq:{v}', 1, lambda a, s=s: (lambda x: x @ x)(s(a)), lambda a: admissible1(a, G.operation2(a)))
        add(f'eq:{v}', 2, lambda a, b, s=s: s(a) == s(b), lambda a, b: int(G.equality(a, b)), res='bit')
        for c in (0, 1):
            add(f'ifelse{c}:{v}', 2, lambda a, b, s=s, c=c: S.if_else(bit(c), s(a), s(b)), lambda a, b, c=c: a if c else b,
                site='if_else')
    if fam.kind == 'EC':      # the same point in two representations (as computed / normalised) must compare equal
        for v in ('c', 'i'):
            add(f'eq_repr:{v}', 1, lambda a, s=sec(v): s(a) == s(a.normalize()), lambda a: 1, res='bit', site='eq(two representations)')
    s = sec('c')
    add('op_sp:c', 2, lambda a, b: s(a) @ b, lambda a, b: admissible2(a, b, G.operation(a, b)), site='op(secure,public)')
    add('op_ps:c', 2, lambda a, b: a @ s(b), lambda a, b: admissible2(a, b, G.operation(a, b)), site='op(public,secure)')
    add('ne:c', 2, lambda a, b: s(a) != s(b), lambda a, b: int(not G.equality(a, b)), res='bit')
    add('eq_sp:c', 2, lambda a, b: s(a) == b, lambda a, b: int(G.equality(a, b)), res='bit', site='eq(secure,public)')
    add('ifelse1_pub:c', 2, lambda a, b: S.if_else(bit(1), a, s(b)), lambda a, b: a, site='if_else(public operand)')
    add('ifelse0_pub:c', 2, lambda a, b: S.if_else(bit(0), s(a), b), lambda a, b: b, site='if_else(public operand)')
    add('inverse:c', 1, lambda a: s(a).inverse(), lambda a: admissible1(a, G.inversion(a)), site='inv')
    if not fam.cl:
        add('chain:c', 2, lambda a, b: (s(a) @ s(b)) @ ~s(a), lambda a, b: G.operation(G.operation(a, b), G.inversion(a)))
        # an identity that was COMPUTED (a @ ~a: whatever representation the formulas leave) equals the identity
        add('eq_idc:c', 1, lambda a: (s(a) @ ~s(a)) == S(G.identity), lambda a: 1, res='bit', site='eq(computed identity)')
        add('eq_idc_pub:c', 1, lambda a: (s(a) @ ~s(a)) == G.identity, lambda a: 1, res='bit', site='eq(computed identity)')
        add('eq_idc2:c', 2, lambda a, b: (s(a) @ ~s(a)) == (s(b) @ ~s(b)), lambda a, b: 1, res='bit', site='eq(computed identity)')
    if additive:
        add('add:c', 2, lambda a, b: s(a) + s(b), lambda a, b: admissible2(a, b, G.operation(a, b)), site='+')
        add('neg:c', 1, lambda a: -s(a), lambda a: admissible1(a, G.inversion(a)), site='neg')
        if not fam.cl:
            add('sub:c', 2, lambda a, b: s(a) - s(b), lambda a, b: G.operation(a, G.inversion(b)), site='-')
            add('rsub:c', 2, lambda a, b: a - s(b), lambda a, b: G.operation(a, G.inversion(b)), site='-(public,secure)')
            add('radd:c', 2, lambda a, b: a + s(b), lambda a, b: G.operation(a, b), site='+(public,secure)')
    if multiplicative:
        add('mul:c', 2, lambda a, b: s(a) * s(b), lambda a, b: G.operation(a, b), site='*')
        add('rmul:c', 2, lambda a, b: a * s(b), lambda a, b: G.operation(a, b), site='*(public,secure)')
        add('div:c', 2, lambda a, b: s(a) / s(b), lambda a, b: G.operation(a, G.inversion(b)), site='/')
        add('rdiv:c', 2, lambda a, b: a / s(b), lambda a, b: G.operation(a, G.inversion(b)), site='/(public,secure)')
        add('recip:c', 1, lambda a: 1 / s(a), lambda a: G.inversion(a), site='1/a')

    # ---- public exponents
    ns = [-2, -1, 0, 1, 2, 3, order - 1, order]
    if fam.cl:
        ns = [2, 3, 4, 5]          # no identity / inverse pairs on the way (left-to-right binary method)

    def rep_ref(n):
        def ref(a):
            return G.repeat(a, n)
        return ref
    for n in ns:
        ec = (lambda c, n=n: exp_class(n, order) + ('' if not fam.is_id(c[0]) else ':identity'))
        for v in (('c', 'i') if n in (-2, 3, order) else ('c',)):
            add(f'rep:{n}:{v}', 1, lambda a, n=n, s=sec(v): S.repeat(s(a), n), rep_ref(n), cls=ec, site='repeat(secret base, public n)')
        if n in (-2, 3, order - 1):
            add(f'xor:{n}:c', 1, lambda a, n=n: s(a) ^ n, rep_ref(n), cls=ec, site='a^n')
            if additive:
                add(f'nmul:{n}:c', 1, lambda a, n=n: n * s(a), rep_ref(n), cls=ec, site='n*a')
            if multiplicative:
                add(f'pow:{n}:c', 1, lambda a, n=n: s(a) ** n, rep_ref(n), cls=ec, site='a**n')

    # ---- secret exponents
    q = fam.q
    # exponent types: 'F' = SecFld(q) (q = group order if prime, 3 for Sym), 'Z' = secure integers
    etypes = [('F', lambda: mpc.SecFld(modulus=q), [0, 1, 2, 3, -1, -2] if q > 3 else [0, 1, 2])]
    zvals = [-2, -1, 0, 1, 2, 3] + ([order - 1, order] if order <= 100 else [])
    etypes.append(('Z', (lambda: S.sectype) if fam.kind == 'Cl' else (lambda: mpc.SecInt(8)), zvals))
    idv = G.identity
    for tag, mk, evals in etypes:
        lifted = tag == 'F' and q <= m            # exponent field GF(q) is lifted to an extension: no to_bits
        for e in evals:
            ev = e % q if tag == 'F' else e        # the integer the secret exponent stands for

            def x(mk=mk, e=e):
                return mpc.input(mk()(e), senders=0)

            def pb_ref(a, ev=ev, tag=tag, e=e):
                if tag == 'F' and not G.equality(G.repeat(a, q), idv):
                    return None                    # outside the domain of the recombination method
                if fam.cl and (ev % q) * next(k for k in fam.dom if fam.elem(k) is a) % q == 0:
                    return None
                if fam.cl and tag == 'Z' and m > 1:
                    # a secure INTEGER exponent is taken through the bitwise (binary) method since the repair of F1, as for
                    # secret bases; that method passes through the identity, which Costello-Lauter divisors do not support
                    # (documented restriction, see sb_ref)
                    return None
                return G.repeat(a, ev if tag == 'F' else e)

            def sb_ref(a, ev=ev):
                return None if fam.cl else G.repeat(a, ev)
            ecls = (lambda c, ev=ev, e=e, tag=tag: exp_class(e if tag == 'Z' else ev, order if tag == 'Z' else -1)
                    + ('' if not fam.is_id(c[0]) else ':identity'))
            # public base with a secure INTEGER exponent and m > 1: one input class.  Known defect class (F1): the parties raise a
            # to int(lambda_i x_i) and the exponents add up to x + j p (p = modulus of the integer type's field, |j| <= m)
            pcls = (lambda c: 'm>1') if tag == 'Z' and m > 1 else ecls
            plaw = (lambda a, p, l, e=e: [G.repeat(a[0], e + j * p) for j in range(-m, m + 1) if j]) if tag == 'Z' and m > 1 else None
            # secret base, negative secure integer (F2): to_bits gives the two's complement, the result is a^(x + 2^l)
            slaw = (lambda a, p, l, e=e: [G.repeat(a[0], e + (1 << l))]) if tag == 'Z' and e < 0 else None
            # secret base with a field exponent and m > 1 goes through runtime.to_bits on a shared field element: one class
            scls = (lambda c: 'm>1') if tag == 'F' and m > 1 else ecls
            tn = {'F': 'field exponent', 'Z': 'secint exponent'}[tag]
            add(f'reps_pb:{tag}:{e}', 1, lambda a, x=x: S.repeat(a, x()), pb_ref, cls=pcls, site=f'repeat(public base, {tn})', law=plaw)
            add(f'reppub:{tag}:{e}', 1, lambda a, x=x: S.repeat_public(a, x()), pb_ref, mode='public', cls=pcls,
                site=f'repeat_public({tn})', law=plaw)
            if e in (2, -1) and tag == 'F':
                add(f'rxor_pb:{tag}:{e}', 1, lambda a, x=x: a ^ x(), pb_ref, cls=ecls, site=f'a^[x] (public base, {tn})')
                if additive:
                    add(f'xmul_pb:{tag}:{e}', 1, lambda a, x=x: x() * a, pb_ref, cls=ecls, site=f'[x]*a (public base, {tn})')
                if multiplicative:
                    add(f'rpow_pb:{tag}:{e}', 1, lambda a, x=x: a ** x(), pb_ref, cls=ecls, site=f'a**[x] (public base, {tn})')
            if not lifted and not fam.cl:
                if fam.big and tag == 'F' and e not in (0, 2, -1):
                    continue          # one 250-bit ladder costs ~500 secure curve additions
                for v in (('c', 'i') if e in (2, -1) else ('c',)):
                    add(f'reps_sb:{tag}:{e}:{v}', 1, lambda a, x=x, s=sec(v): S.repeat(s(a), x()), sb_ref, cls=scls,
                        site=f'repeat(secret base, {tn})', law=slaw)
                if e == 2 and tag == 'F':
                    add(f'xor_sb:{tag}:{e}', 1, lambda a, x=x: s(a) ^ x(), sb_ref, cls=scls, site=f'[a]^[x] ({tn})')
    if not isinstance(mpc, exact.Dummy):
        Z = etypes[-1][1]()
        ops.zinfo = (int(Z.field.modulus), int(Z.bit_length))
    return ops


def result_code(fam, op, got):
    if op.res == 'bit':
        return int(got)
    return fam.code(got)


def vkey(fam, op, vals, failure=None):
    """C28:<family>:<call site>:<input class>; failures other than a wrong value: ...:<failure>(<input class>)."""
    cls = op.cls(tuple(vals))
    return f'C28:{fam.key}:{op.site}:' + (f'{failure}({cls})' if failure else cls)


def wrong_key(fam, op, vals, got, zinfo):
    """Key of a wrong result: the input class -- unless the class is a recorded defect class with a law and the result does not
    follow that law (then: another key, so that new misbehaviour inside a known class is not masked)."""
    cls = op.cls(tuple(vals))
    if op.law is not None and zinfo is not None:
        try:
            alts = [result_code(fam, op, r) for r in op.law([fam.elem(v) for v in vals], *zinfo)]
        except Exception:
            alts = []
        if got not in alts:
            return f'C28:{fam.key}:{op.site}:unexplained({cls})'
    return f'C28:{fam.key}:{op.site}:{cls}'


# ------------------------------------------------------------------------------------------
# single-party engine
# ------------------------------------------------------------------------------------------

def eval_sp(mpc, seam, fam, op, vals, mode, script, seed):
    from mc import sp
    seam.begin('seeded' if mode == 'seeded2' else mode, seed + (1 if mode == 'seeded2' else 0), script)
    r = op.fn(*[fam.elem(v) for v in vals])
    if op.mode == 'public':
        got = r.result() if hasattr(r, 'result') else r
    else:
        got = sp.opened(mpc, r)
    return result_code(fam, op, got), list(seam.log)


def run_sp(job):
    """job: spec, tasks = [dict(ops (names / prefixes or None), skip, dom ('full' | 'red') or vals, modes (mask patterns for every
    tuple), points (point scripts at the first draws, for tuples over the reduced alphabet; 0 = none))], tier, seed."""
    from mc import sp
    part = Part()
    mpc, seam = sp.setup(sec_param=K_SP, no_prss=True)
    fam = Fam(sys.modules['mpyc.fingroups'], job['spec'])
    ops = build_ops(fam, mpc, 1)
    tier = job['tier']
    cfg = f'sp/k{K_SP}'
    red = set(fam.mpdom)
    for task in job['tasks']:
        dom = task.get('vals') or (fam.dom if task.get('dom', 'full') == 'full' else fam.mpdom)
        dom = [tuple(v) if isinstance(v, list) else v for v in dom]
        modes = task.get('modes', ('seeded', 'zero', 'max'))
        points = task.get('points', 4)
        for name in select(sorted(ops), task.get('ops'), task.get('skip')):
            op = ops[name]
            for vals in itertools.product(dom, repeat=op.arity):
                want = op.ref(*[fam.elem(v) for v in vals])
                if want is None:
                    continue
                want = result_code(fam, op, want)
                scripts = [(mo, None) for mo in modes]
                extra = points and all(v in red for v in vals)
                i = 0
                while i < len(scripts):
                    mode, script = scripts[i]
                    i += 1
                    detail = dict(engine='sp', spec=list(fam.spec), name=name, vals=list(vals), mode=mode,
                                  script={str(a): b for a, b in (script or {}).items()}, seed=MASK_SEED)
                    try:
                        with Deadline(120):
                            got, draws = eval_sp(mpc, seam, fam, op, vals, mode, script, MASK_SEED)
                    except CpuTimeout:
                        part.case(key=None)
                        part.violation(vkey(fam, op, vals, 'hangs'), f'[{cfg}] {fam.name} {name}{tuple(vals)}: no result within 120 s of '
                                       f'CPU time (masks: {mode} {script})', detail)
                        part.caps.append('CPU budget hit')
                        return part
                    except Exception as exc:
                        part.case(key=None)
                        part.violation(vkey(fam, op, vals, 'exception'), f'[{cfg}] {fam.name} {name}{tuple(vals)} raised {exc!r:.200} '
                                       f'(masks: {mode} {script})', detail)
                        continue
                    part.case(key=None, nontrivial=bool(draws))
                    part.outcomes.add(stable_hash((fam.name, name, got)) & 0xffffff)
                    if got != want:
                        part.violation(wrong_key(fam, op, vals, got, ops.zinfo), f'[{cfg}] {fam.name} {name}{tuple(vals)} = {got!r:.160}, '
                                       f'plain group gives {want!r:.160} (masks: {mode} {script})', detail)
                    if i == 1 and extra:       # after the seeded probe: point scripts on the reduced alphabet
                        scripts = scripts + [sc for sc in sp.mask_scripts(draws, tier, max_points=points) if sc[0] not in modes]
                    if i == 1 and len(part.samples) < 2 and draws and op.arity == 2 and not fam.is_id(vals[0]):
                        part.sample(dict(config=cfg, group=fam.name, op=name, inputs=[repr(v)[:60] for v in vals], draws=len(draws),
                                         result=repr(got)[:80]))
    part.note('blinding_draws_forced_nonzero', seam.blinding_forced)
    part.note('sp_cases_by_family', {fam.key: part.evaluations})
    return part


def select(names, prefixes, skip=None):
    out = [n for n in names if prefixes is None or any(n == p or n.startswith(p + ':') for p in prefixes)]
    return [n for n in out if not skip or not any(n == p or n.startswith(p + ':') for p in skip)]


def replay_sp(case):
    from mc import sp
    part = Part()
    mpc, seam = sp.setup(sec_param=K_SP, no_prss=True)
    fam = Fam(sys.modules['mpyc.fingroups'], case['spec'])
    ops = build_ops(fam, mpc, 1)
    op = ops[case['name']]
    vals = tuple(tuple(v) if isinstance(v, list) else v for v in case['vals'])
    script = {int(a): b for a, b in case['script'].items()} or None
    want = result_code(fam, op, op.ref(*[fam.elem(v) for v in vals]))
    try:
        got, _ = eval_sp(mpc, seam, fam, op, vals, case['mode'], script, case['seed'])
    except Exception as exc:
        part.violation(vkey(fam, op, vals, 'exception'), f'{fam.name} {case["name"]}{vals} raised {exc!r:.200}', case)
        return part
    if got != want:
        part.violation(wrong_key(fam, op, vals, got, ops.zinfo), f'{fam.name} {case["name"]}{vals} = {got!r:.160}, plain group gives '
                       f'{want!r:.160}', case)
    return part


# ------------------------------------------------------------------------------------------
# multi-party engine
# ------------------------------------------------------------------------------------------

def mp_program(spec, m):
    async def program(mpc, ctx):
        await mpc.start()
        fam = ctx.get('fam')
        if fam is None:
            fam = ctx['fam'] = Fam(sys.modules['mpyc.fingroups'], spec)      # this party's own copy of the package
        ops = build_ops(fam, mpc, m)
        ctx['zinfo'] = ops.zinfo
        res = []
        for idx, (name, vals) in enumerate(ctx['cases']):
            op = ops[name]
            try:
                r = op.fn(*[fam.elem(v) for v in vals])
                if op.mode == 'public':
                    got = await r
                else:
                    got = await mpc.output(r)
                got = result_code(fam, op, got)
            except Exception as exc:           # raised synchronously by the operation
                got = ('raised', repr(exc)[:200])
            res.append(got)
            if idx % 8 == 7:
                await mpc.barrier()
        ctx['results'] = res
        await mpc.shutdown()
    return program


def mp_cases(fam, m, names=None, skip=None, dom=None):
    ops = build_ops(fam, exact.Dummy(), m)
    cases = []
    for name in sorted(ops):
        if not select([name], names, skip):
            continue
        op = ops[name]
        for vals in itertools.product(dom or fam.mpdom, repeat=op.arity):
            if op.ref(*[fam.elem(v) for v in vals]) is not None:
                cases.append((name, vals))
    return cases


def run_mp(job):
    from mc.explorer import run_execution
    part = Part()
    m, t, no_prss = job['m'], job['t'], job['no_prss']
    rfam = Fam(plain_fg(), job['spec'])
    rops = build_ops(rfam, exact.Dummy(), m)
    k = job.get('k') or exact.sec_param_for(m, t, 4)
    world = exact.make_world(m, t, no_prss, k)
    world.HORIZON = 1_200_000          # a stuck execution must end soon (normal batches need < 2 * 10^5 steps)
    seams = world.script_seams
    cases = mp_cases(rfam, m, job.get('ops'), job.get('skip'), job.get('vals'))
    mine = cases[job['part']::job['parts']]
    cfg = f"mp/m{m}t{t}{'-noprss' if no_prss else ''}/k{k}"
    program = mp_program(tuple(job['spec']), m)
    fams = [None] * m
    batch = job.get('batch', 16)
    patterns = job.get('patterns', ('seeded', 'zero', 'max'))

    def execute(chunk, pat):
        ctxs = []

        def setup(w):
            ctxs.clear()
            w.mask_pattern = pat
            w.pattern_budget = 400 * len(chunk)
            w.pattern_decisions = {}
            for i, s in enumerate(seams):
                s.begin(pat, MASK_SEED * 100 + i, None)
            for p in range(m):
                ctxs.append(dict(cases=chunk, fam=fams[p]))
                w.spawn(p, program, ctxs[p])
        for i, s in enumerate(seams):
            s.begin(pat, MASK_SEED * 100 + i, None)
        x = run_execution(world, setup, (), 'eager', 'none', sched_alts=False)
        part.transitions += x.nsteps
        for p in range(m):
            fams[p] = ctxs[p].get('fam')
        ok = x.status == 'done' and all('results' in c for c in ctxs)
        return ok, x.status, ctxs

    def judge(chunk, ctxs, pat, lo):
        for idx, (name, vals) in enumerate(chunk):
            op = rops[name]
            want = result_code(rfam, op, op.ref(*[rfam.elem(v) for v in vals]))
            gots = [c['results'][idx] for c in ctxs]
            detail = dict(engine='mp', job=job, lo=lo, pat=pat, idx=idx, name=name, vals=list(vals))
            part.case(key=None, nontrivial=True)
            part.outcomes.add(stable_hash((rfam.name, name, gots[0])) & 0xffffff)
            key = vkey(rfam, op, vals)
            if any(g != gots[0] for g in gots):
                part.violation(vkey(rfam, op, vals, 'parties-differ'), f'[{cfg}] {rfam.name} {name}{vals}: parties obtained {gots!r:.240} (masks {pat})', detail)
            elif isinstance(gots[0], tuple) and gots[0] and gots[0][0] == 'raised':
                part.violation(vkey(rfam, op, vals, 'exception'), f'[{cfg}] {rfam.name} {name}{vals} raised {gots[0][1]}', detail)
            elif gots[0] != want:
                part.violation(wrong_key(rfam, op, vals, gots[0], ctxs[0].get('zinfo')), f'[{cfg}] {rfam.name} {name}{vals} = {gots[0]!r:.160}, plain group gives {want!r:.160} '
                               f'(masks {pat})', detail)
            if len(part.samples) < 1 and op.arity == 2 and idx == 3:
                part.sample(dict(config=cfg, group=rfam.name, op=name, inputs=[repr(v)[:60] for v in vals], mask_pattern=pat,
                                 results_per_party=[repr(g)[:80] for g in gots]))

    for lo in range(0, len(mine), batch):
        chunk = mine[lo:lo + batch]
        full_chunk = chunk
        for pat in patterns:
            chunk = full_chunk
            if pat == 'zero':
                # secret base with a NEGATIVE secure-integer exponent (sign-bit route): with every mask forced to zero the result
                # is wrong in a few percent of the runs (2/12 at k=4, 1/12 at k=8, 2/60 at k=30), never with seeded or all-max
                # masks at any k: a step on this route relies on the magnitude of its statistical mask, so the all-zero pattern
                # (probability 2^-(k+l) per draw) is not a legitimate witness (DESIGN 9, "statistical slack"); not a finding
                chunk = [c for c in full_chunk if not c[0].startswith('reps_sb:Z:-')]
                if not chunk:
                    continue
            ok, status, ctxs = execute(chunk, pat)
            if ok:
                judge(chunk, ctxs, pat, lo)
                continue
            # an exception inside a protocol task stalls the whole batch: find the case(s) by running them one by one
            for j, case in enumerate(chunk):
                ok1, st1, c1 = execute([case], pat)
                if ok1:
                    judge([case], c1, pat, lo + j)
                else:
                    name, vals = case
                    part.case(key=None)
                    errs = [e for es in world.loop_errors for e in es][:2]
                    part.violation(vkey(rfam, rops[name], vals, 'mp-incomplete'),
                                   f'[{cfg}] {rfam.name} {name}{vals} ends {st1}: {errs!r:.300} (masks {pat})',
                                   dict(engine='mp', job=job, lo=lo + j, pat=pat, name=name, vals=list(vals)))
    part.note('blinding_draws_forced_nonzero', sum(s.blinding_forced for s in seams) + getattr(world, 'blinding_forced', 0))
    part.note('mp_configs', {cfg: 1})
    return part


# ------------------------------------------------------------------------------------------
# jobs
# ------------------------------------------------------------------------------------------

CHEAP = [('Sym', 3), ('QR', 7), ('QR', 11), ('QR', 23), ('SG', 23, 11), ('SG', 47, 23)]
CLS = [('Cl', -23), ('Cl', -47), ('Cl', -71)]
CURVES_QUICK = [('EC', 'Ed25519', 'affine'), ('EC', 'Ed25519', 'projective'), ('EC', 'Ed25519', 'extended'), ('EC', 'secp256k1', 'projective')]
CURVES_MORE = [('EC', 'Ed448', 'affine'), ('EC', 'Ed448', 'projective'), ('EC', 'BN256', 'projective'), ('EC', 'BN256_twist', 'projective')]
# Ed448/extended is excluded: the plain arithmetic itself is wrong there (open finding of C27, a = 1 curve with a = -1 formulas)
LADDER = ['reps_sb:F', 'xor_sb:F']          # secret base, ~250-bit secret exponent: ~500 secure curve additions per case
MP_OPS = ['op:i', 'op:c', 'inv:i', 'sq:i', 'eq:i', 'ne', 'ifelse0:i', 'ifelse1:i', 'ifelse1_pub', 'rep:-2:i', 'rep:3:i', 'op_sp', 'op_ps',
          'reps_pb', 'reppub', 'rxor_pb', 'xmul_pb', 'rpow_pb', 'reps_sb:Z:-1:c', 'reps_sb:Z:2:i', 'reps_sb:Z:3:c',
          'reps_sb:F:2:i', 'reps_sb:F:-1:c', 'reps_sb:F:0:c', 'xor_sb:F']
MP_OPS_LIGHT = ['op:i', 'inv:i', 'eq:i', 'ifelse1:i', 'rep:-2:i', 'op_ps', 'reps_pb:F:2', 'reps_pb:F:-1', 'reppub:F:2',
                'reps_pb:Z:2', 'reps_sb:Z:-1:c', 'reps_sb:Z:2:i', 'xmul_pb:F:2', 'rpow_pb:F:2', 'rxor_pb:F:-1']
MP_OPS_CL = ['op:i', 'inv:i', 'eq:i', 'ifelse1:i', 'reps_pb:F:2', 'reppub:F:-1', 'reps_pb:Z:2', 'reppub:Z:-1']
CORE_BIN = ['op:c', 'eq:c']
FOPS = ['reps_pb:F', 'reppub:F', 'rxor_pb:F', 'xmul_pb:F', 'rpow_pb:F', 'reps_sb:F', 'xor_sb:F']     # take a SecFld exponent


def jobs(tier, seed):
    out = []
    q = tier == 'quick'
    fg = plain_fg()

    def table(spec, m=1):
        return build_ops(Fam(fg, spec), exact.Dummy(), m)

    def sp(spec, tasks):
        out.append(dict(engine='sp', spec=spec, tasks=tasks, tier=tier, seed=seed))

    def sp_split(spec, names, n, **kw):
        for part in [names[i::n] for i in range(n)]:
            if part:
                sp(spec, [dict(ops=part, **kw)])

    # ---- single party
    for spec in [('Sym', 3), ('QR', 7), ('QR', 11), ('QR', 23), ('SG', 23, 11), ('SG', 47, 23), ('Sym', 4), ('Sym', 6)] + CLS + CURVES_QUICK \
            + ([] if q else CURVES_MORE + [('HC',)]):
        ops = table(spec)
        kind = spec[0]
        ladder = [n for n in ops if any(n.startswith(p) for p in LADDER)] if kind in ('EC', 'HC') else []
        unary = [n for n in ops if ops[n].arity == 1 and n not in ladder]
        binary = [n for n in ops if ops[n].arity == 2]
        if not q:
            pts = 10 if kind in ('Sym', 'QR', 'SG') else 4 if kind == 'EC' else 6 if spec == ('Cl', -23) else 2
            n = 8 if spec == ('Sym', 4) or kind == 'Cl' else 4 if kind == 'EC' else 2
            sp_split(spec, sorted(unary + binary), n, points=pts)
            for name in ladder:
                sp(spec, [dict(ops=[name], modes=('seeded', 'max'), points=0)])
            continue
        # quick tier: every operation / call site at least once per family; all pairs only for the core operations of the
        # small groups; seeded masks plus the all-max pattern (the thorough tier adds all-zero and the point scripts)
        rest = [n for n in binary if n not in CORE_BIN]
        if kind in ('QR', 'SG') or spec == ('Sym', 3):
            big = spec == ('SG', 47, 23)
            sp(spec, [dict(ops=CORE_BIN, modes=('seeded',) if big else ('seeded', 'max'), points=0 if big else 1),
                      dict(ops=sorted(unary), modes=('seeded',), points=0),
                      dict(ops=rest, dom='red' if big or spec == ('QR', 23) else 'full', modes=('seeded', 'max'), points=0)])
        elif kind == 'Sym':
            light = [n for n in unary if not n.startswith(('reps_sb', 'reppub', 'xor_sb'))] + ['reps_sb:Z:-1:c', 'reps_sb:Z:2:i', 'reps_sb:F:2:i', 'reppub:F:2', 'reppub:Z:2']
            sp(spec, [dict(ops=CORE_BIN, dom='red', modes=('seeded', 'max'), points=1),
                      dict(ops=rest, dom='red', modes=('seeded',), points=0)])
            sp(spec, [dict(ops=sorted(light), dom='red', modes=('seeded',), points=0)])
        elif kind == 'Cl':
            unary = [n for n in unary if n.split(':')[0] in ('inv', 'sq', 'recip', 'reps_pb')
                     or n in ('rep:-2:c', 'rep:3:i', 'rep:0:c', f'rep:{len(Fam(fg, spec).dom)}:c', 'pow:-2:c', 'rpow_pb:F:2', 'reppub:F:2',
                              'reppub:Z:-1', 'reps_sb:F:2:i', 'reps_sb:F:-1:c', 'reps_sb:Z:-1:c', 'reps_sb:Z:2:i')]
            small = spec == ('Cl', -23)
            sp(spec, [dict(ops=CORE_BIN, dom='full' if spec != ('Cl', -71) else 'red', modes=('seeded', 'max') if small else ('seeded',),
                           points=0)])
            if small:
                sp_split(spec, sorted(unary), 2, modes=('seeded',), points=0)
                sp(spec, [dict(ops=[n for n in rest if n.split(':')[0] not in ('chain', 'rdiv', 'rmul')], dom='red', modes=('seeded',),
                               points=0)])
            else:
                sp(spec, [dict(ops=['inv:c', 'sq:i', 'rep:-2:c', 'reps_pb:F:-1', 'reps_sb:F:2:i', 'reps_sb:Z:-1:c', 'ifelse1:i', 'op_ps:c'],
                               dom='red', modes=('seeded',), points=0)])
        else:   # curves
            sp(spec, [dict(ops=CORE_BIN, modes=('seeded',), points=0),
                      dict(ops=[n for n in rest if n != 'chain:c'], vals=[1, -1, 2], modes=('seeded',), points=0),
                      dict(ops=['eq:c', 'sq:c', 'reps_pb:F:-1'], vals=[2, 'N2'], modes=('max', 'zero'), points=0)])
            sp(spec, [dict(ops=sorted(unary), dom='red', modes=('seeded',), points=0)])
    if q:
        sp(('EC', 'Ed25519', 'extended'), [dict(ops=['reps_sb:F:2:i', 'reps_sb:F:-1:c'], vals=[1], modes=('seeded',), points=0)])
        sp(('EC', 'secp256k1', 'projective'), [dict(ops=['reps_sb:F:2:i'], vals=[-2], modes=('seeded',), points=0)])

    # ---- multi-party
    fams = {}

    def mp(spec, m, t, no_prss, ops, parts=1, skip=None, **kw):
        """Operations with a SecFld exponent run in a separate world with k = 30 and seeded masks only (runtime.to_bits /
        conversions of shared field elements are right only up to the statistical slack of their masks)."""
        fops = FOPS if ops is None else [o for o in ops if any(o == f or o.startswith(f + ':') for f in FOPS)]
        rops = None if ops is None else [o for o in ops if o not in fops]
        fam = fams.get(spec) or fams.setdefault(spec, Fam(fg, spec))
        if fops and not mp_cases(fam, m, fops, skip, kw.get('vals')):
            fops = []             # e.g. secret bases with a lifted exponent field: nothing in the domain
        if rops is None or rops:
            for part in range(parts):
                out.append(dict(engine='mp', spec=spec, m=m, t=t, no_prss=no_prss, ops=rops, skip=(skip or []) + FOPS, part=part, parts=parts,
                                tier=tier, seed=seed, **kw))
        if fops:
            kw = dict(kw, patterns=('seeded',), k=30)
            np_ = 1 if q else max(1, parts // 2)
            for part in range(np_):
                out.append(dict(engine='mp', spec=spec, m=m, t=t, no_prss=no_prss, ops=fops, skip=skip, part=part, parts=np_, tier=tier,
                                seed=seed, **kw))
    for (m, t) in ((3, 1), (5, 2)):
        for no_prss in (False, True):
            sym = ('Sym', 4) if m == 3 else ('Sym', 6)
            if q:
                pats = ('seeded', 'max') if m == 3 else ('seeded',)
                # symmetric and class groups: one PRSS mode per (m, t) in the quick tier (both in the thorough tier)
                if m == 3 and not no_prss:
                    mp(sym, m, t, no_prss, [o for o in MP_OPS_LIGHT if o not in ('rep:-2:i', 'op_ps')], vals=[(1, 0, 2, 3), (1, 2, 0, 3)],
                       patterns=('seeded',), batch=8)
                if m == 5 and no_prss:
                    mp(sym, m, t, no_prss, ['op:i', 'inv:i', 'reps_sb:Z:2:i', 'eq:i', 'reps_pb:F:2', 'ifelse1:i'],
                       vals=[SYM6[3]], patterns=('seeded',), batch=3)
                for spec in (('QR', 7), ('QR', 11)) + ((('SG', 23, 11),) if m == 3 and not no_prss else ()):
                    # exponent fields GF(3), GF(5): lifted at m >= 3 / m = 5
                    mp(spec, m, t, no_prss, MP_OPS if m == 3 else MP_OPS_LIGHT + ['reps_sb:F:2:i', 'ifelse0:i', 'sq:i'],
                       vals=Fam(fg, spec).mpdom[:3], patterns=('seeded',))
                if m == 3 and not no_prss:          # class groups at (5,2): thorough tier only (~30 s per operation)
                    mp(('Cl', -23), m, t, no_prss, ['op:i', 'reps_pb:Z:2', 'eq:i', 'reps_pb:F:2'], vals=[(2, 1, 3)], patterns=('seeded',), batch=2)
                curve = {(3, False): ('EC', 'Ed25519', 'extended'), (3, True): ('EC', 'secp256k1', 'projective'),
                         (5, False): ('EC', 'Ed25519', 'projective'), (5, True): ('EC', 'Ed25519', 'affine')}[m, no_prss]
                mp(curve, m, t, no_prss, ['op:i', 'inv:i', 'ifelse1:i', 'reps_pb:F:-1', 'reppub:F:2', 'reps_pb:Z:2', 'reps_sb:Z:-1:c'],
                   vals=[1, 2], patterns=('seeded',), batch=6)
                mp(curve, m, t, no_prss, ['eq_repr:i'], vals=[2], patterns=('seeded',), batch=4)     # two representations of 2G
            else:
                pats = ('seeded', 'zero', 'max')
                if m == 3:
                    mp(sym, m, t, no_prss, MP_OPS, parts=6, patterns=pats)
                else:
                    mp(sym, m, t, no_prss, MP_OPS, parts=6, vals=SYM6[1:4], patterns=('seeded', 'max'), batch=8)
                for spec in (('QR', 7), ('QR', 11), ('QR', 23), ('SG', 23, 11), ('SG', 47, 23)):
                    mp(spec, m, t, no_prss, None, patterns=pats)
                if m == 3:
                    for spec in CLS:
                        mp(spec, m, t, no_prss, MP_OPS_CL, parts=4, vals=Fam(fg, spec).dom[1:3], patterns=('seeded', 'max'), batch=3)
                else:      # ~30 s per class-group operation with 5 parties
                    mp(('Cl', -23), m, t, no_prss, ['op:i', 'inv:i', 'eq:i', 'reps_pb:F:2', 'reppub:F:-1'], parts=3, vals=[(2, 1, 3), (2, -1, 3)],
                       patterns=('seeded',), batch=2)
                for spec in CURVES_QUICK + (CURVES_MORE + [('HC',)] if m == 3 else []):
                    more = spec in CURVES_MORE or spec == ('HC',)
                    mp(spec, m, t, no_prss, MP_OPS, skip=LADDER, parts=3, vals=[1, 2, 'N2'] if spec[0] == 'EC' else [1, 2, -1],
                       patterns=('seeded', 'max') if m == 3 and not more else ('seeded',), batch=8)
                mp(('EC', 'Ed25519', 'extended'), m, t, no_prss, ['reps_sb:F:2:i'], vals=[1], patterns=('seeded',), batch=1)
    return pack(out, 16 if q else 60, tier, seed)


def weight(j):
    """Rough relative cost of an atomic job (only used to balance the bins)."""
    kind = j['spec'][0]
    if j['engine'] == 'sp':
        w = {'Sym': 12 if j['spec'] != ('Sym', 3) else 8, 'Cl': 25, 'EC': 22, 'HC': 40}.get(kind, 8)
        if any(any(str(o).startswith('reps_sb:F') for o in (t.get('ops') or [])) for t in j['tasks']) and kind == 'EC':
            w += 15
        return w
    w = {'Sym': 25, 'Cl': 45, 'EC': 30, 'HC': 40}.get(kind, 12)
    return w * (2.2 if j['m'] == 5 else 1) * len(j.get('patterns', 'x')) ** 0.5


def pack(atoms, nbins, tier, seed):
    """Group the atomic jobs into at most ~nbins worker jobs (one process each; a process keeps one party configuration)."""
    groups = {}
    for j in atoms:
        groups.setdefault((j['engine'], j.get('m'), j.get('t'), j.get('no_prss'), j.get('k')), []).append(j)
    total = sum(weight(j) for j in atoms)
    out = []
    for key in sorted(groups, key=repr):
        js = sorted(groups[key], key=lambda j: -weight(j))
        nb = max(1, min(len(js), round(nbins * sum(weight(j) for j in js) / total)))
        bins = [[0, []] for _ in range(nb)]
        for j in js:
            b = min(bins, key=lambda b: b[0])
            b[0] += weight(j)
            b[1].append(j)
        out += [dict(engine='multi', jobs=b[1], tier=tier, seed=seed, w=round(b[0])) for b in bins if b[1]]
    out.sort(key=lambda j: -j['w'])
    return out


def run_job(job):
    if job['engine'] == 'multi':
        total = Part()
        for j in job['jobs']:
            total.merge(run_job(j))
        return total
    if job['engine'] == 'sp':
        return run_sp(job)
    return run_mp(job)


def replay(case):
    if case.get('engine') == 'sp':
        return replay_sp(case)
    return run_job(case['job'])
