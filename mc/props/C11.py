"""C11 -- shares of every secure value form a consistent degree-t sharing.  See mc/sharing.py."""

from mc import sharing

LEVEL = 'exploration'
RULE = ('one case = one recorded secure value (C11) / one dealing (C14) in one execution (program, input pair, m, t, PRSS mode, schedule); '
        'all input pairs of the declared alphabet are enumerated; non-trivial = t >= 1')
ASSUMPTIONS = ['prime fields only (secint, secfxp, prime secfld)', 'world model of mc/world.py; seeded randomness seam',
               'default eager/lazy schedules (+ all single deviations in thorough at (3,1))']
MANIFEST = dict(level='exploration', technique='bounded-exhaustive input enumeration on real multi-party executions with share probes, a random_split monitor and an independent Lagrange oracle',
                text="Probe programs (arithmetic, comparisons, selection, products, lsb/mod, bit decomposition, resharing, PRSS/dealt randomness, random bits, fixed-point products/truncation, conversions) record each party's share of every intermediate secure value for all input pairs over the range alphabet {-8,-1,0,1,7}^2 in (2,0),(3,1),(5,2) (thorough: also (1,0),(4,1)), PRSS on/off, eager and lazy schedules (thorough: every single scheduling deviation at (3,1)); oracle: independent Lagrange interpolation: the m shares lie on a polynomial of degree <= t whose constant term is the plain reference value (or the value opened in the same run, for random/rounded values).", ref='DESIGN 5/C11', note='trusted: world model, probe via mpc.gather, independent interpolation mod p')


def jobs(tier, seed):
    return sharing.plan('C11', tier, seed)


run_job = sharing.run_job
replay = sharing.replay
