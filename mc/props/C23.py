"""C23 -- polynomials over GF(p) form a ring with a correct division algorithm.

Bounded-exhaustive: every pair (and, for the ring laws, every triple) of polynomials of bounded degree over
small primes, and every pair over a structured boundary alphabet of coefficients for p in {11, 101, 2^31-1},
is pushed through the real gfpx operators (+, -, *, divmod, //, %, gcd, gcdext, invert, powmod, **, shifts,
conversions, evaluation, comparisons, ...).  Oracle: schoolbook coefficient-list arithmetic written in
mc/ref/polys.py (no use of gfpx), whose division/Bezout/inverse results are asserted against the laws of the
statement on every call, plus a definition-level gcd oracle (brute-force divisor sets).
For p = 2 both representations are run (gfpx.BinaryPolynomial = GFpX(2), and the generic list
representation = a direct subclass of gfpx.Polynomial with p = 2) and compared with the reference and with
each other.
"""

import json
import signal

from mc.core import Part
from mc.ref import polys as R

LEVEL = 'exploration'
RULE = ('one case = (representation, p, operand tuple, operation group): pairs (a, b) run + - * divmod // % '
        'gcd gcdext invert, comparisons; powmod cases (a, b, n) for every n in the exponent window; triples '
        '(a, b, c) run associativity/distributivity; single polynomials run conversions, shifts, evaluation, '
        'monic/reverse/truncate/deriv, **, scalar and reflected operators; all combinations of the declared '
        'domains are enumerated, none twice; non-trivial = all operands non-zero')
ASSUMPTIONS = ['reference arithmetic in mc/ref/polys.py (schoolbook; its divmod, gcdext and inverse assert the '
               'defining law on every call; its Euclid gcd is compared with brute-force divisor sets in the gcddef jobs)',
               'Python int arithmetic',
               'the generic list representation at p=2 is instantiated as a direct subclass of gfpx.Polynomial with '
               'p=2 (GFpX(2) always returns BinaryPolynomial)',
               'results are read from the documented representation (attribute value: coefficient list / int bitmask)']

BIG = [11, 101, 2**31 - 1]

MANIFEST = dict(
    level='exploration',
    technique='bounded-exhaustive enumeration of operand pairs/triples against schoolbook reference arithmetic',
    text='Quick (thorough): all ordered pairs of polynomials of degree <= 6 (8) over GF(2) in both representations, <= 4 (5) '
         'over GF(3), <= 2 (3) over GF(5) and GF(7), quick also every a of degree <= 3 against every b of degree 3 with '
         'coefficients in {0,1,p-1} (thorough GF(5): also degree 4 x degree <= 2, both orders); for p in {11,101,2^31-1} all pairs '
         'of degree <= 2 over the coefficient alphabet {0,1,2,(p-1)/2,(p+1)/2,p-2,p-1} against {0,1,(p+1)/2,p-1} (thorough: full '
         'alphabet on both sides, plus degree 3 against degree <= 2 and degree 3 against degree 3 on the 4-letter alphabet). '
         'Per pair: +,-,* and the six comparisons equal the reference; divmod, //, % equal the reference quotient/remainder '
         '(a = q b + r and deg r < deg b asserted on every reference call), ZeroDivisionError for b = 0; gcd equals monic '
         'Euclid; gcdext returns that gcd with s a + t b = gcd; invert equals the reduced inverse or raises when gcd != 1; operands '
         'are not mutated. gcd is also compared with the definition (brute-force divisor sets: the monic common divisor that every '
         'common divisor divides) for all pairs of degree <= 5 (6) over GF(2), <= 3 over GF(3), <= 2 (3) over GF(5), <= 2 over '
         'GF(7). powmod(a, n, b) equals n-fold multiplication modulo b (of the inverse for n < 0, error if none) for every n in '
         '-4..17 on all pairs of degree <= 5 (6) / 3 / 2 over GF(2) / GF(3) / GF(5), GF(7) (quick GF(7): b over {0,1,6}) and on the '
         'alphabets for the large primes. Associativity, distributivity and the value of (a b) c for all triples of degree <= 3 '
         'over GF(2), <= 2 (3) over GF(3), <= 2 over GF(5), GF(7) (quick: c, for GF(7) also b, over {0,1,p-1}). Per polynomial: '
         'int/list/tuple/str conversions, indexing, iteration, shifts, evaluation at every residue, monic, reverse, truncate, deriv, '
         '**, a*a, scalar, reflected, coerced, class-method and augmented operators. For p = 2 the integer and the list '
         'representation are both run on every case, compared with the reference and with each other.',
    ref='DESIGN 5/C23',
    note='trusted: the schoolbook reference mc/ref/polys.py (self-checking against the laws of the statement); finite declared '
         'domain; large primes only through the boundary alphabet; the list representation at p = 2 is a driver-made subclass of '
         'gfpx.Polynomial; a zero modulus is only exercised where an error is raised by design (divmod, //, %, invert). Recorded '
         'known class C23:call:x-multiple-of-p (integer representation, even x, constant term 1): the fallback law "returns 0" is '
         'enforced there, any other evaluation error is C23:call:wrong. powmod results that are congruent but not reduced keep '
         'their own (no longer expected) keys.')


# -- harness helpers: deterministic examples, hang guard -----------------------------------

class CPart(Part):
    """Part that also remembers, per violation key, the smallest failing example (so that the reported
    example does not depend on the order in which worker processes finish)."""

    def sample(self, s):
        pool = self.notes.setdefault('sample_pool', [])
        if len(pool) < 6:
            pool.append(s)
            self.samples.append(s)

    def violation(self, key, what, detail):
        super().violation(key, what, detail)
        size = sum(len(v) for v in detail.values() if isinstance(v, list)) + abs(detail.get('n', 0) if isinstance(detail.get('n', 0), int) else 0)
        rank = [detail.get('p', 0), size, json.dumps(detail, sort_keys=True, default=str)]
        ex = self.notes.setdefault('examples', [])
        for e in ex:
            if e[0] == key:
                if rank < e[1]:
                    e[1:] = [rank, what, detail]
                return
        ex.append([key, rank, what, detail])


def coverage_extra(tier, seed, total):
    best = {}
    for key, rank, what, detail in total.notes.pop('examples', []):
        if key not in best or rank < best[key][0]:
            best[key] = (rank, what, detail)
    for v in total.violations:
        if v['key'] in best:
            _, v['what'], v['detail'] = best[v['key']]
    pool = total.notes.pop('sample_pool', [])
    total.samples = sorted(pool, key=lambda x: json.dumps(x, sort_keys=True, default=str))[:6]
    return {}


class Hang(Exception):
    """Raised inside a call of the code under test that used more than one full watchdog period of CPU time."""


class Abort(BaseException):
    pass


_wd = {'id': 0, 'on': False, 'seen': -1, 'hangs': 0}
WD_PERIOD = 4.0     # seconds of CPU time of this process; a single polynomial operation takes microseconds


def _on_tick(signum, frame):
    if _wd['on'] and _wd['id'] == _wd['seen']:
        _wd['hangs'] += 1
        _wd['seen'] = -1
        if _wd['hangs'] > 3:
            raise Abort()
        raise Hang(f'call still running after {WD_PERIOD:.0f}-{2 * WD_PERIOD:.0f} s of CPU time')
    _wd['seen'] = _wd['id'] if _wd['on'] else -1


def watchdog(on):
    if on:
        _wd.update(id=0, on=False, seen=-1, hangs=0)
        signal.signal(signal.SIGVTALRM, _on_tick)
        signal.setitimer(signal.ITIMER_VIRTUAL, WD_PERIOD, WD_PERIOD)
    else:
        signal.setitimer(signal.ITIMER_VIRTUAL, 0)


def guarded(f):
    """Run one call of the code under test under the hang guard."""
    _wd['id'] += 1
    _wd['on'] = True
    try:
        return f()
    finally:
        _wd['on'] = False


# -- classes under test --------------------------------------------------------------------

_generic2 = None


def poly_class(kind, p):
    global _generic2
    from mpyc import gfpx
    if kind == 'binary':
        assert p == 2
        cls = gfpx.GFpX(2)
        assert cls is gfpx.BinaryPolynomial
        return cls
    if p == 2:
        if _generic2 is None:
            _generic2 = type('GF(2)[x]list', (gfpx.Polynomial,), {'__slots__': ()})
            _generic2.p = 2
        return _generic2
    cls = gfpx.GFpX(p)
    assert not issubclass(cls, gfpx.BinaryPolynomial)
    return cls


def kinds_for(p):
    return ['binary', 'generic'] if p == 2 else ['generic']


class Ctx:
    def __init__(self, kind, p):
        self.kind, self.p = kind, p
        self.K = poly_class(kind, p)
        self.binary = kind == 'binary'

    def make(self, a):
        return self.K(list(a))

    def raw(self, a):
        """Expected content of attribute value."""
        return R.to_int(a, 2) if self.binary else list(a)

    def val(self, x):
        """Coefficient tuple of an implementation polynomial read from its representation;
        ('bad', ...) when the object is not a well-formed polynomial of the class."""
        if type(x) is not self.K:
            return ('bad', 'type ' + type(x).__name__)
        v = x.value
        if self.binary:
            if type(v) is not int or v < 0:
                return ('bad', repr(v))
            return R.from_int(v, 2)
        if type(v) is not list:
            return ('bad', repr(v))
        t = tuple(v)
        p = self.p
        if t and t[-1] == 0 or any(type(c) is not int or not 0 <= c < p for c in t):
            return ('bad', repr(v))
        return t

    def canon(self, x):
        if isinstance(x, tuple):
            return tuple(self.canon(y) for y in x)
        if isinstance(x, (bool, int, str, bytes)) or x is None:
            return x
        return self.val(x)

    def ev(self, f):
        try:
            x = guarded(f)
        except Exception as exc:
            return ('exc', type(exc).__name__)
        return self.canon(x)


def is_exc(r):
    return isinstance(r, tuple) and r[:1] == ('exc',)


def show(r):
    if isinstance(r, tuple) and (not r or isinstance(r[0], int)):
        return R.terms(r)
    if isinstance(r, tuple) and not is_exc(r) and r[:1] != ('bad',):
        return '(' + ', '.join(show(x) for x in r) + ')'
    return repr(r)


def degclass(a, b):
    return 'deg-a<deg-b' if len(a) < len(b) else 'deg-a=deg-b' if len(a) == len(b) else 'deg-a>deg-b'


# -- domains -------------------------------------------------------------------------------

def alphabet(p, size=7):
    if size == 7:
        return sorted({0, 1, 2, (p - 1) // 2, (p + 1) // 2, p - 2, p - 1})
    if size == 4:
        return sorted({0, 1, (p + 1) // 2, p - 1})
    return sorted({0, 1, p - 1})


_domcache = {}


def dom(spec, p):
    """spec = ('all', maxdeg) | ('alpha', size, maxdeg) | ('exact', size_or_0, deg)."""
    key = (tuple(spec), p)
    if key not in _domcache:
        if spec[0] == 'all':
            d = R.polys_upto(p, spec[1])
        elif spec[0] == 'alpha':
            d = R.polys_over(alphabet(p, spec[1]), spec[2])
        else:   # exact degree
            full = R.polys_upto(p, spec[2]) if not spec[1] else R.polys_over(alphabet(p, spec[1]), spec[2])
            d = [a for a in full if len(a) == spec[2] + 1]
        _domcache[key] = d
    return _domcache[key]


# -- pair check ----------------------------------------------------------------------------

def check_pair(part, cx, a, b, A=None, B=None):
    """All binary operations on (a, b). Returns the canonical results (for cross-representation comparison)."""
    p, ev, K = cx.p, cx.ev, cx.K
    if A is None:
        A, B = cx.make(a), cx.make(b)
    detail = dict(what='pair', kind=cx.kind, p=p, a=list(a), b=list(b))
    out = []

    def chk(key, got, exp):
        out.append((key, got, got == exp))
        if got != exp:
            part.violation(f'C23:{key}', f'{key.split(":")[0]}: a={R.terms(a)}, b={R.terms(b)} over GF({p}) [{cx.kind}]: '
                           f'got {show(got)}, expected {show(exp)}', detail)

    part.case(nontrivial=bool(a) and bool(b))
    chk('add', ev(lambda: A + B), R.add(a, b, p))
    chk('sub', ev(lambda: A - B), R.sub(a, b, p))
    chk('mul', ev(lambda: A * B), R.mul(a, b, p))
    lt = R.less(a, b)
    eq = a == b
    cmpgot = ev(lambda: (bool(A < B), bool(A <= B), bool(A > B), bool(A >= B), bool(A == B), bool(A != B),
                         hash(A) == hash(B) or not eq))
    chk('compare', cmpgot, (lt, lt or eq, not lt and not eq, not lt, eq, not eq, True))
    dc = degclass(a, b)
    if b:
        qr = R.divmod_(a, b, p)
        chk(f'divmod:{dc}', ev(lambda: divmod(A, B)), qr)
        chk(f'floordiv:{dc}', ev(lambda: A // B), qr[0])
        chk(f'mod:{dc}', ev(lambda: A % B), qr[1])
    else:
        zde = ('exc', 'ZeroDivisionError')
        chk('divmod:b=0', ev(lambda: divmod(A, B)), zde)
        chk('floordiv:b=0', ev(lambda: A // B), zde)
        chk('mod:b=0', ev(lambda: A % B), zde)
        chk('invert:b=0', ev(lambda: K.invert(A, B)), zde)
    g, s, t = R.gcdext(a, b, p)
    gg = ev(lambda: K.gcd(A, B))
    out.append(('gcd', gg, gg == g))
    if gg != g:
        nm = isinstance(gg, tuple) and gg and not is_exc(gg) and gg[:1] != ('bad',) and R.monic(gg, p) == g
        part.violation('C23:gcd:not-monic' if nm else 'C23:gcd:wrong', f'gcd: a={R.terms(a)}, b={R.terms(b)} over GF({p}) [{cx.kind}]: '
                       f'got {show(gg)}, expected {show(g)}', detail)
    ge = ev(lambda: K.gcdext(A, B))
    ok = (isinstance(ge, tuple) and len(ge) == 3 and not is_exc(ge) and all(isinstance(x, tuple) and x[:1] != ('bad',) for x in ge))
    out.append(('gcdext', ge, ok and ge[0] == g and R.add(R.mul(ge[1], a, p), R.mul(ge[2], b, p), p) == g))
    if not ok or ge[0] != g:
        part.violation('C23:gcdext:gcd', f'gcdext: a={R.terms(a)}, b={R.terms(b)} over GF({p}) [{cx.kind}]: got {show(ge)}, '
                       f'expected gcd {show(g)}', detail)
    elif R.add(R.mul(ge[1], a, p), R.mul(ge[2], b, p), p) != g:
        part.violation('C23:gcdext:bezout', f'gcdext: a={R.terms(a)}, b={R.terms(b)} over GF({p}) [{cx.kind}]: s={show(ge[1])}, '
                       f't={show(ge[2])} give s a + t b = {show(R.add(R.mul(ge[1], a, p), R.mul(ge[2], b, p), p))} != gcd {show(g)}',
                       detail)
    if b:
        iv = ev(lambda: K.invert(A, B))
        if g == (1,):
            want = R.mod(s, b, p)       # the reduced inverse (s a = 1 mod b asserted by the reference)
            out.append(('invert', iv, iv == want))
            if iv != want:
                if isinstance(iv, tuple) and not is_exc(iv) and iv[:1] != ('bad',) and \
                        R.mod(R.mul(iv, a, p), b, p) == R.mod((1,), b, p):
                    key = 'C23:invert:not-reduced'
                else:
                    key = 'C23:invert:wrong'
                part.violation(key, f'invert: a={R.terms(a)}, b={R.terms(b)} over GF({p}) [{cx.kind}]: got {show(iv)}, '
                               f'expected {show(want)}', detail)
        else:
            out.append(('invert:no-inverse', iv, is_exc(iv)))
        if g != (1,) and not is_exc(iv):
            part.violation('C23:invert:no-inverse-accepted', f'invert: a={R.terms(a)}, b={R.terms(b)} over GF({p}) [{cx.kind}]: '
                           f'gcd is {show(g)} but invert returned {show(iv)}', detail)
        part.outcomes.add(('inv', g == (1,), is_exc(iv)))
    if cx.raw(a) != A.value or cx.raw(b) != B.value:
        part.violation('C23:operand-mutated', f'operands changed by the operations: a={R.terms(a)}, b={R.terms(b)} over GF({p}) '
                       f'[{cx.kind}] now {A.value!r}, {B.value!r}', detail)
    part.outcomes.add(('pair', cx.kind, len(a), len(b), len(g)))
    return out


def cross(part, res, what, detail, text):
    """Direct comparison of the two representations for p = 2. Results that already differ from the
    reference are reported under their own key; here only differences between results that both passed
    the (possibly lenient: exception type, Bezout coefficients) reference check are reported."""
    if len(res) != 2:
        return
    n = 0
    for (k1, g1, ok1), (k2, g2, ok2) in zip(res[0], res[1]):
        n += 1
        if k1 != k2 or (g1 != g2 and ok1 and ok2):
            part.violation(f'C23:binary-vs-generic:{k1}', f'representations disagree on {k1} for {text} over GF(2): '
                           f'binary {show(g1)} vs list {show(g2)}', detail)
    if len(res[0]) != len(res[1]):
        part.violation(f'C23:binary-vs-generic:{what}', f'different number of results for {text}', detail)
    part.note('binary_vs_generic_results_compared', n)


def run_pairs(part, job):
    p = job['p']
    As = dom(job['A'], p)[job['start']::job['step']]
    Bs = dom(job['B'], p)
    both = job.get('both', False)
    ctxs = [Ctx(k, p) for k in kinds_for(p)]
    Bobjs = [[cx.make(b) for b in Bs] for cx in ctxs]
    n = 0
    for a in As:
        Aobjs = [cx.make(a) for cx in ctxs]
        for j, b in enumerate(Bs):
            orders = [(a, b, 0)]
            if both and a != b and not (in_dom(a, job['B'], p) and in_dom(b, job['A'], p)):
                orders.append((b, a, 1))
            for x, y, sw in orders:
                res = []
                for i, cx in enumerate(ctxs):
                    X, Y = (Aobjs[i], Bobjs[i][j]) if not sw else (Bobjs[i][j], Aobjs[i])
                    res.append(check_pair(part, cx, x, y, X, Y))
                n += 1
                cross(part, res, 'pair', dict(what='pair', kind='both', p=2, a=list(x), b=list(y)), f'a={R.terms(x)}, b={R.terms(y)}')
                if len(part.samples) < 1 and len(x) >= 3 and len(y) == 2 and y[0]:
                    part.sample(dict(p=p, a=R.terms(x), b=R.terms(y), divmod=[R.terms(z) for z in R.divmod_(x, y, p)],
                                     gcd=R.terms(R.gcd(x, y, p))))
    part.note('pairs', {f'p={p}': n})


def in_dom(a, spec, p):
    """Membership test for the domain specs (used to avoid running an ordered pair twice)."""
    if spec[0] == 'all':
        return len(a) <= spec[1] + 1
    letters = set(alphabet(p, spec[1])) if spec[1] else None
    inl = letters is None or all(c in letters for c in a)
    if spec[0] == 'alpha':
        return len(a) <= spec[2] + 1 and inl
    return len(a) == spec[2] + 1 and inl


# -- powmod check --------------------------------------------------------------------------

def check_powmod(part, cx, a, b, exps, A=None, B=None):
    """powmod(a, n, b) for every n in exps against n-fold multiplication modulo b; b != 0."""
    p, K = cx.p, cx.K
    if A is None:
        A, B = cx.make(a), cx.make(b)
    hi = max(max(exps), 0)
    lo = max(-min(exps), 0)
    pw = R.powers_mod(a, hi, b, p)
    inv = R.inverse(a, b, p)
    ipw = R.powers_mod(inv, lo, b, p) if inv is not None else None
    one = (1,)
    out = []
    for n in exps:
        detail = dict(what='powmod', kind=cx.kind, p=p, a=list(a), b=list(b), n=n)
        got = cx.ev(lambda: K.powmod(A, n, B))
        part.case(nontrivial=bool(a) and len(b) >= 2 and n not in (0, 1))
        if n < 0 and inv is None:
            out.append((f'powmod:n={n}', got, is_exc(got)))
            if not is_exc(got):
                part.violation('C23:powmod:negative-exponent:no-inverse-accepted', f'powmod(a={R.terms(a)}, {n}, b={R.terms(b)}) over '
                               f'GF({p}) [{cx.kind}] = {show(got)} although gcd(a, b) != 1', detail)
            continue
        want = pw[n] if n >= 0 else ipw[-n]
        out.append((f'powmod:n={n}', got, got == want))
        if got == want:
            continue
        ispoly = isinstance(got, tuple) and not is_exc(got) and got[:1] != ('bad',)
        congruent = ispoly and R.mod(R.sub(got, want, p), b, p) == ()
        if congruent and n == 1 and got == a:
            key = 'C23:powmod:n=1:result-not-reduced'
        elif congruent and n == 0 and got == one and len(b) == 1:
            key = 'C23:powmod:n=0:constant-modulus:result-not-reduced'
        elif congruent:
            key = 'C23:powmod:result-not-reduced'
        else:
            key = 'C23:powmod:wrong' if n >= 0 else 'C23:powmod:negative-exponent:wrong'
        part.note('deviations_by_key', {key: 1})
        part.violation(key, f'powmod(a={R.terms(a)}, {n}, b={R.terms(b)}) over GF({p}) [{cx.kind}] = {show(got)}, '
                       f'{abs(n)}-fold multiplication{" of the inverse" if n < 0 else ""} modulo b gives {show(want)}', detail)
    part.outcomes.add(('pow', cx.kind, len(a), len(b), inv is None))
    if cx.raw(a) != A.value or cx.raw(b) != B.value:
        part.violation('C23:operand-mutated', f'operands changed by powmod: a={R.terms(a)}, b={R.terms(b)} over GF({p}) [{cx.kind}]',
                       dict(what='powmod', kind=cx.kind, p=p, a=list(a), b=list(b), n=list(exps)))
    return out


def run_powmod(part, job):
    p = job['p']
    As = dom(job['A'], p)[job['start']::job['step']]
    Bs = [b for b in dom(job['B'], p) if b]
    exps = list(range(job['lo'], job['hi'] + 1))
    ctxs = [Ctx(k, p) for k in kinds_for(p)]
    Bobjs = [[cx.make(b) for b in Bs] for cx in ctxs]
    n = 0
    for a in As:
        Aobjs = [cx.make(a) for cx in ctxs]
        for j, b in enumerate(Bs):
            res = [check_powmod(part, cx, a, b, exps, Aobjs[i], Bobjs[i][j]) for i, cx in enumerate(ctxs)]
            n += len(exps)
            cross(part, res, 'powmod', dict(what='powmod', kind='both', p=2, a=list(a), b=list(b), n=exps), f'a={R.terms(a)}, b={R.terms(b)}')
    part.note('powmod_cases', {f'p={p}': n})


# -- triples -------------------------------------------------------------------------------

def triple_row(part, cx, p, a, b, A, B, Cs, Cobj, AC_row, BCs, BpCs):
    val = cx.val
    _wd['id'] += 1      # hang guard: one (a, b) row of triples counts as one call
    _wd['on'] = True
    AB = A * B
    ApB = A + B
    ab = R.mul(a, b, p)
    for k, c in enumerate(Cs):
        C = Cobj[k]
        ABC = AB * C
        AC = AC_row[k]
        bad = None
        if ABC.value != (A * BCs[k]).value:
            bad = 'mul-associative'
        elif val(ABC) != R.mul(ab, c, p):
            bad = 'mul-value'
        elif (ApB + C).value != (A + BpCs[k]).value:
            bad = 'add-associative'
        elif (A * BpCs[k]).value != (AB + AC).value:
            bad = 'left-distributive'
        elif (ApB * C).value != (AC + BCs[k]).value:
            bad = 'right-distributive'
        if bad:
            part.violation(f'C23:ring-law:{bad}', f'{bad} fails for a={R.terms(a)}, b={R.terms(b)}, c={R.terms(c)} over '
                           f'GF({p}) [{cx.kind}]', dict(what='triple', kind=cx.kind, p=p, a=list(a), b=list(b), c=list(c)))
    _wd['on'] = False
    return len(Cs)


def run_triples(part, job):
    """Ring laws on all triples (a, b, c) in A x B x C, implementation operators only, plus the value of
    (a b) c against the reference (operands of degree up to twice the bound)."""
    p = job['p']
    Bs = dom(job.get('B', job['A']), p)
    Cs = dom(job['C'], p)
    As = dom(job['A'], p)[job['start']::job['step']]
    n = 0
    for cx in [Ctx(k, p) for k in kinds_for(p)]:
        Aobj = [cx.make(a) for a in As]
        Cobj = [cx.make(c) for c in Cs]
        ACs = [[A * C for C in Cobj] for A in Aobj]
        for b in Bs:
            B = cx.make(b)
            BCs = [B * C for C in Cobj]
            BpCs = [B + C for C in Cobj]
            for i, a in enumerate(As):
                try:
                    n += triple_row(part, cx, p, a, b, Aobj[i], B, Cs, Cobj, ACs[i], BCs, BpCs)
                except Exception as exc:
                    _wd['on'] = False
                    part.violation('C23:ring-law:exception', f'{type(exc).__name__}: {exc} in the ring laws for a={R.terms(a)}, b={R.terms(b)}, '
                                   f'some c, over GF({p}) [{cx.kind}]', dict(what='triple', kind=cx.kind, p=p, a=list(a), b=list(b), c=[]))
            part.outcomes.add(('triple', cx.kind, len(b)))
    part.case(nontrivial=True, n=n)
    part.note('triples', {f'p={p}': n})


def replay_triple(part, case):
    p = case['p']
    cx = Ctx(case['kind'], p)
    a, b, c = tuple(case['a']), tuple(case['b']), tuple(case['c'])
    if not case['c'] and 'exception' in case.get('note', 'exception'):
        try:    # recorded for a whole row: re-run the row over the boundary alphabet
            Cs = dom(('alpha', 3, 2), p)
            Cobj = [cx.make(x) for x in Cs]
            A, B = cx.make(a), cx.make(b)
            triple_row(part, cx, p, a, b, A, B, Cs, Cobj, [A * C for C in Cobj], [B * C for C in Cobj], [B + C for C in Cobj])
        except Exception as exc:
            _wd['on'] = False
            part.violation('C23:ring-law:exception', f'{type(exc).__name__}: {exc}', case)
    A, B, C = cx.make(a), cx.make(b), cx.make(c)
    val = cx.val
    laws = {
        'mul-associative': val((A * B) * C) == val(A * (B * C)),
        'mul-value': val((A * B) * C) == R.mul(R.mul(a, b, p), c, p),
        'add-associative': val((A + B) + C) == val(A + (B + C)),
        'left-distributive': val(A * (B + C)) == val(A * B + A * C),
        'right-distributive': val((A + B) * C) == val(A * C + B * C),
    }
    for name, ok in laws.items():
        if not ok:
            part.violation(f'C23:ring-law:{name}', f'{name} fails for a={R.terms(a)}, b={R.terms(b)}, c={R.terms(c)} over GF({p})', case)


# -- definition-level gcd ------------------------------------------------------------------

def run_gcddef(part, job):
    """gcd(a, b) against the definition: the monic common divisor that every common divisor divides
    (divisor sets by brute-force trial division by every monic polynomial)."""
    p = job['p']
    D = dom(job['A'], p)
    divs = {a: frozenset(R.monic_divisors(a, p)) for a in D if a}
    As = D[job['start']::job['step']]
    n = 0
    for cx in [Ctx(k, p) for k in kinds_for(p)]:
        objs = {a: cx.make(a) for a in D}
        for a in As:
            for b in D:
                n += 1
                if not a and not b:
                    g = ()
                else:
                    cd = divs[b] if not a else divs[a] if not b else divs[a] & divs[b]
                    g = max(cd, key=len)
                    if not cd <= divs[g]:
                        raise AssertionError('no greatest common divisor?')
                if R.gcd(a, b, p) != g:
                    raise AssertionError(f'reference Euclid disagrees with the definition: {a} {b} {p}')
                got = cx.ev(lambda: cx.K.gcd(objs[a], objs[b]))
                part.outcomes.add(('gcddef', cx.kind, len(g)))
                if got != g:
                    why = 'not-monic' if isinstance(got, tuple) and got and not is_exc(got) and got[:1] != ('bad',) and \
                        R.monic(got, p) == g else 'wrong'
                    part.violation(f'C23:gcd:definition:{why}', f'gcd(a={R.terms(a)}, b={R.terms(b)}) over GF({p}) [{cx.kind}] = {show(got)}; '
                                   f'the monic common divisor divisible by all {len(cd) if a or b else "-"} common divisors is {show(g)}',
                                   dict(what='pair', kind=cx.kind, p=p, a=list(a), b=list(b)))
    part.case(nontrivial=True, n=n)
    part.note('gcd_definition_pairs', {f'p={p}': n})


# -- unary / conversion / scalar checks ------------------------------------------------------

FIXED = [(), (1,), (0, 1), (1, 1), (1, 0, 1)]


def check_unary(part, cx, a):
    p, K, ev = cx.p, cx.K, cx.ev
    A = cx.make(a)
    code = R.to_int(a, p)
    detail = dict(what='unary', kind=cx.kind, p=p, a=list(a))
    out = []

    def chk(key, got, exp, fmt=show, op=None):
        out.append((op or key, got, got == exp))      # op: name independent of the classification of a mismatch
        part.case(nontrivial=bool(a))
        if got != exp:
            part.violation(f'C23:{key}', f'a={R.terms(a)} over GF({p}) [{cx.kind}]: got {fmt(got)}, expected {fmt(exp)}', detail)

    # conversions and accessors
    chk('from_int', ev(lambda: K(code)), a)
    chk('from_int:negative', ev(lambda: K(-code)), R.neg(a, p))
    chk('from_tuple', ev(lambda: K(tuple(a))), a)
    chk('from_poly', ev(lambda: K(A)), a)
    chk('from_terms:repr', ev(lambda: K(repr(A))), a)
    chk('from_terms', ev(lambda: K.from_terms(R.terms(a))), a)
    chk('from_terms:spaces', ev(lambda: K(R.terms(a).replace('+', ' + '))), a)
    chk('to_terms', ev(lambda: K(K.to_terms(code))), a)
    chk('int', ev(lambda: int(A)), code)
    chk('degree', ev(lambda: A.degree()), len(a) - 1)
    chk('iter', ev(lambda: tuple(A)), a, repr)
    chk('getitem', ev(lambda: tuple(A[i] for i in range(len(a) + 2))), a + (0, 0), repr)
    if not a:
        chk('getitem:zero[-1]', ev(lambda: A[-1]), 0)
    chk('bool', ev(lambda: bool(A)), bool(a))
    nb = max((code.bit_length() + 7) // 8, 1)
    chk('to_bytes', ev(lambda: (A.to_bytes(nb, 'little'), A.to_bytes(nb + 1, 'big'))),
        (code.to_bytes(nb, 'little'), code.to_bytes(nb + 1, 'big')))
    chk('eq:int', ev(lambda: (A == code, A != code, A == code + 1)), (True, False, False))
    chk('eq:list', ev(lambda: (A == list(a), A != list(a))), (True, False))
    # unary operators
    chk('neg', ev(lambda: -A), R.neg(a, p))
    chk('pos', ev(lambda: +A), a)
    for n in range(5):
        chk('lshift', ev(lambda: A << n), R.shift(a, n))
        chk('rshift', ev(lambda: A >> n), a[n:])
    chk('lshift:classmethod', ev(lambda: K.lshift(code, 2)), R.shift(a, 2))
    chk('rshift:classmethod', ev(lambda: K.rshift(list(a), 1)), a[1:])
    xs = sorted(set(range(-p - 1, 2 * p + 2))) if p <= 7 else sorted({-p - 1, -p, -2, -1, p, p + 1, 2 * p - 1} | set(alphabet(p)))
    for x in xs:
        # recorded known class: the integer representation returns 0 at even x although the constant term is 1;
        # inside that class the fallback law is "returns 0"; everything else is an ordinary violation
        got, exp = ev(lambda: A(x)), R.evaluate(a, x % p, p)
        known = cx.binary and x % 2 == 0 and bool(a) and a[0] == 1 and got == 0 and type(got) is int
        chk('call:x-multiple-of-p' if known else 'call:wrong', got, exp, lambda r: f'a({x}) = {r!r}', op='call')
    chk('monic', ev(lambda: A.monic()), R.monic(a, p))
    chk('monic:lc_pinv', ev(lambda: A.monic(lc_pinv=True)), (R.monic(a, p), R.inv_mod(a[-1], p) if a else 0))
    chk('reverse', ev(lambda: A.reverse()), R.reverse(a))
    for d in range(-1, len(a) + 2):
        # class: truncation to degree d leaves a zero top coefficient (reverse must still use d+1 coefficients)
        sub = ':truncated-with-leading-zero' if 0 <= d < len(a) - 1 and a[d] == 0 else ''
        chk('reverse:d' + sub, ev(lambda: A.reverse(d)), R.reverse(a, d), lambda r: f'reverse({d}) = {show(r)}')
    for n in range(len(a) + 2):
        chk('truncate', ev(lambda: A.truncate(n)), R.trim(a[:n]))
    ms = {0, 1, 2, 3, 4, p, p + 1}
    if p <= 101:
        ms.add(p - 1)
    for m in sorted(ms):
        chk('deriv' if m < p else 'deriv:m>=p', ev(lambda: A.deriv(m)), R.deriv(a, m, p))
    chk('deriv:default', ev(lambda: A.deriv()), R.deriv(a, 1, p))
    # powers
    sq = R.mul(a, a, p)
    chk('mul:same-object', ev(lambda: A * A), sq)
    top = 6 if len(a) <= 4 else 3
    pw = (1,)
    for n in range(top + 1):
        chk('pow', ev(lambda: A ** n), pw)
        pw = R.mul(pw, a, p)
    chk('pow:negative', ev(lambda: A ** -1), ('exc', 'ValueError'))
    # scalar / reflected operators: ints are coerced through their base-p digits
    for n in sorted({0, 1, 2, p - 1, p, p + 1, p * p + 2, 2 * p * p * p + p + 1}):
        c = R.from_int(n, p)
        chk('scalar:add', ev(lambda: (n + A, A + n)), (R.add(c, a, p),) * 2)
        chk('scalar:sub', ev(lambda: (n - A, A - n)), (R.sub(c, a, p), R.sub(a, c, p)))
        chk('scalar:mul', ev(lambda: (n * A, A * n)), (R.mul(c, a, p),) * 2)
        if a:
            qr = R.divmod_(c, a, p)
            chk('reflected:divmod', ev(lambda: (divmod(n, A), n // A, n % A)), (qr, qr[0], qr[1]))
        else:
            chk('reflected:divmod:zero', ev(lambda: n // A), ('exc', 'ZeroDivisionError'))
            chk('reflected:mod:zero', ev(lambda: n % A), ('exc', 'ZeroDivisionError'))
        if c:
            qr = R.divmod_(a, c, p)
            chk('scalar:divmod', ev(lambda: (divmod(A, n), A // n, A % n)), (qr, qr[0], qr[1]))
    # other operand given as list / string / int; class-method forms; augmented assignment
    for b in FIXED:
        B = cx.make(b)
        bcode = R.to_int(b, p)
        s, d, m = R.add(a, b, p), R.sub(a, b, p), R.mul(a, b, p)
        chk('coerce:list', ev(lambda: (A + list(b), list(b) - A, A * list(b))), (s, R.neg(d, p), m))
        chk('coerce:str', ev(lambda: (A + R.terms(b), A * R.terms(b))), (s, m))
        chk('classmethod:ring', ev(lambda: (K.add(code, list(b)), K.sub(list(a), bcode), K.mul(A, R.terms(b)))), (s, d, m))

        def aug():
            X = A
            X += B
            Y = A
            Y -= B
            Z = A
            Z *= B
            S = A
            S <<= 2
            T = A
            T >>= 1
            return X, Y, Z, S, T
        chk('augmented', ev(aug), (s, d, m, R.shift(a, 2), a[1:]))
        if b:
            qr = R.divmod_(a, b, p)

            def augdiv():
                X = A
                X //= B
                Y = A
                Y %= B
                return X, Y
            chk('augmented:div', ev(augdiv), qr)
            chk('classmethod:divmod', ev(lambda: (K.divmod(code, list(b)), K.mod(list(a), bcode))), (qr, qr[1]))
            g, _, _ = R.gcdext(a, b, p)
            chk('classmethod:gcd:coerced', ev(lambda: (K.gcd(code, bcode), K.gcd(list(b), list(a)))), (g, g))
        else:
            chk('classmethod:divmod:b=0', ev(lambda: K.divmod(code, [])), ('exc', 'ZeroDivisionError'))
            chk('classmethod:mod:b=0', ev(lambda: K.mod(code, 0)), ('exc', 'ZeroDivisionError'))
    if cx.raw(a) != A.value:
        part.violation('C23:operand-mutated', f'polynomial a={R.terms(a)} over GF({p}) [{cx.kind}] changed to {A.value!r}', detail)
    part.outcomes.add(('unary', cx.kind, len(a)))
    return out


def run_unary(part, job):
    p = job['p']
    As = dom(job['A'], p)[job['start']::job['step']]
    ctxs = [Ctx(k, p) for k in kinds_for(p)]
    for a in As:
        res = [check_unary(part, cx, a) for cx in ctxs]
        cross(part, res, 'unary', dict(what='unary', kind='both', p=2, a=list(a)), f'a={R.terms(a)}')
    part.note('polynomials_unary', {f'p={p}': len(As)})


# -- jobs ----------------------------------------------------------------------------------

def plan(tier):
    """Job templates (each is later cut into slices of the A domain)."""
    q = tier == 'quick'
    out = []
    P = lambda **kw: out.append(dict(what='pairs', **kw))
    # pairs: small primes
    P(p=2, A=('all', 6 if q else 8), B=('all', 6 if q else 8))
    P(p=3, A=('all', 4 if q else 5), B=('all', 4 if q else 5))
    if q:
        for p in (5, 7):
            P(p=p, A=('all', 2), B=('all', 2))
        # degree 3: all a, coefficients of b in {0, 1, p-1} (thorough: all pairs)
        P(p=5, A=('all', 3), B=('exact', 3, 3), both=True)
        P(p=7, A=('exact', 0, 3), B=('exact', 3, 3))
        P(p=7, A=('exact', 3, 3), B=('exact', 4, 3))
    else:
        P(p=5, A=('all', 3), B=('all', 3))
        P(p=5, A=('exact', 0, 4), B=('all', 2), both=True)
        P(p=7, A=('all', 3), B=('all', 3))
    for p in BIG:
        if q:
            P(p=p, A=('alpha', 7, 2), B=('alpha', 4, 2), both=True)
        else:
            P(p=p, A=('alpha', 7, 2), B=('alpha', 7, 2))
            P(p=p, A=('exact', 7, 3), B=('alpha', 4, 2), both=True)
            P(p=p, A=('exact', 4, 3), B=('exact', 4, 3))
    # powmod
    W = lambda **kw: out.append(dict(dict(what='powmod', lo=-7, hi=17), **kw))
    W(p=2, A=('all', 5 if q else 6), B=('all', 5 if q else 6))
    W(p=3, A=('all', 3), B=('all', 3))
    if q:
        W(p=5, A=('all', 2), B=('all', 2), lo=-5, hi=12)
        W(p=7, A=('all', 2), B=('alpha', 3, 2))
        W(p=7, A=('all', 1), B=('all', 2), lo=-5, hi=9)
    else:
        W(p=5, A=('all', 2), B=('all', 2))
        W(p=7, A=('all', 2), B=('all', 2))
        W(p=5, A=('all', 3), B=('exact', 0, 3), lo=-5, hi=9)
    for p in BIG:
        W(p=p, A=('alpha', 4 if q else 7, 2), B=('alpha', 4, 2))
    # triples
    T = lambda **kw: out.append(dict(what='triples', **kw))
    T(p=2, A=('all', 3), C=('all', 3))
    T(p=3, A=('all', 2 if q else 3), C=('all', 2 if q else 3))
    if q:
        T(p=5, A=('all', 2), C=('alpha', 3, 2))
        T(p=7, A=('all', 2), B=('alpha', 3, 2), C=('alpha', 3, 2))
    else:
        T(p=5, A=('all', 2), C=('all', 2))
        T(p=7, A=('all', 2), C=('all', 2))
    for p in BIG:
        T(p=p, A=('alpha', 4, 1) if q else ('alpha', 7, 1), C=('alpha', 7, 2))
    # gcd by definition
    G = lambda **kw: out.append(dict(what='gcddef', **kw))
    G(p=2, A=('all', 5 if q else 6))
    G(p=3, A=('all', 3))
    G(p=5, A=('all', 2 if q else 3))
    G(p=7, A=('all', 2))
    # unary
    U = lambda **kw: out.append(dict(what='unary', **kw))
    U(p=2, A=('all', 7 if q else 9))
    U(p=3, A=('all', 4 if q else 5))
    U(p=5, A=('all', 3))
    U(p=7, A=('all', 2 if q else 3))
    for p in BIG:
        U(p=p, A=('alpha', 7, 2 if q else 3))
    return out


def weight(tpl):
    """Rough cost estimate (core-seconds) used only to balance the jobs."""
    p = tpl['p']
    k = len(kinds_for(p))
    nA = len(dom(tpl['A'], p))
    w = tpl['what']
    if w == 'pairs':
        return k * nA * len(dom(tpl['B'], p)) * (2 if tpl.get('both') else 1) * 1.3e-4
    if w == 'powmod':
        return k * nA * len(dom(tpl['B'], p)) * (tpl['hi'] - tpl['lo'] + 1) * 2.5e-5
    if w == 'triples':
        return k * nA * len(dom(tpl.get('B', tpl['A']), p)) * len(dom(tpl['C'], p)) * 2.0e-5
    if w == 'gcddef':
        return k * nA * nA * 1.2e-5 + 0.3
    return k * nA * 1.2e-3


NBINS = 48


def jobs(tier, seed):
    """Cut every template into slices of bounded estimated cost, then pack the slices into at most NBINS
    jobs (longest-processing-time first; deterministic)."""
    tpls = plan(tier)
    total = sum(weight(t) for t in tpls)
    cap = max(total / (2.5 * NBINS), 0.2)
    pieces = []
    for idx, tpl in enumerate(tpls):
        w = weight(tpl)
        k = max(1, min(int(w / cap) + 1, len(dom(tpl['A'], tpl['p']))))
        for i in range(k):
            pieces.append((w / k, idx, i, dict(tpl, start=i, step=k)))
    pieces.sort(key=lambda t: (-t[0], t[1], t[2]))
    bins = [[0.0, []] for _ in range(min(NBINS, len(pieces)))]
    for w, _, _, job in pieces:
        b = min(bins, key=lambda x: x[0])
        b[0] += w
        b[1].append(job)
    return [dict(subs=b[1], est=round(b[0], 1)) for b in bins if b[1]]


RUNNERS = dict(pairs=run_pairs, powmod=run_powmod, triples=run_triples, gcddef=run_gcddef, unary=run_unary)


def run_job(job):
    part = CPart()
    watchdog(True)
    try:
        for sub in job.get('subs', [job]):
            RUNNERS[sub['what']](part, sub)
    except Abort:
        part.caps.append('job aborted: more than 3 calls of the code under test hung')
    finally:
        watchdog(False)
    return part


def replay(case):
    part = CPart()
    watchdog(True)
    try:
        _replay(part, case)
    except Abort:
        pass
    finally:
        watchdog(False)
    part.notes.pop('examples', None)
    part.notes.pop('sample_pool', None)
    return part


def _replay(part, case):
    p = case['p']
    kinds = kinds_for(p) if case['kind'] == 'both' else [case['kind']]
    a = tuple(case['a'])
    res = []
    for kind in kinds:
        cx = Ctx(kind, p)
        if case['what'] == 'pair':
            b = tuple(case['b'])
            res.append(check_pair(part, cx, a, b))
            if len(a) <= 5 and len(b) <= 5 and p <= 7 and (a or b):
                divs = {x: frozenset(R.monic_divisors(x, p)) for x in (a, b) if x}
                cd = divs[b] if not a else divs[a] if not b else divs[a] & divs[b]
                g = max(cd, key=len)
                got = cx.ev(lambda: cx.K.gcd(cx.make(a), cx.make(b)))
                if got != g:
                    part.violation('C23:gcd:definition:wrong', f'gcd(a={R.terms(a)}, b={R.terms(b)}) = {show(got)}, definition gives {show(g)}', case)
        elif case['what'] == 'powmod':
            n = case['n']
            res.append(check_powmod(part, cx, a, tuple(case['b']), n if isinstance(n, list) else [n]))
        elif case['what'] == 'unary':
            res.append(check_unary(part, cx, a))
        elif case['what'] == 'triple':
            replay_triple(part, case)
    cross(part, res, case['what'], case, f'a={R.terms(a)}' + (f', b={R.terms(tuple(case["b"]))}' if 'b' in case else ''))
    return part
