"""C19 -- parties outside the receivers learn nothing from an output.  See mc/routing.py."""

from mc import routing

LEVEL = 'exploration'
RULE = ('one case = one operation (kind, sender/receiver sets or graph, payload kind / secure type, threshold, raw) in one '
        'configuration (m, t, PRSS mode, default schedule); the declared operation set is enumerated completely; '
        'non-trivial = some party is not a receiver (or an input case)')
ASSUMPTIONS = ['operations run one at a time, separated by top-level barriers; default eager/lazy schedules (schedule independence is C08)',
               'a graph given as dict has every party as key', 'world model of mc/world.py, seeded randomness']
MANIFEST = dict(level='exploration',
                technique='bounded-exhaustive enumeration of sender/receiver sets and graphs on real multi-party executions in the virtual world',
                text='Same operation set as C07. Each operation is bracketed by barriers and send-log marks, so the messages each party sends for that operation are known exactly: every one must go to a designated receiver (of that sender, for graphs); for secure floats to a subset only messages sent by _distribute/_reshare (fresh sharings, see C14) may reach non-receivers. Wire frames are cross-checked against the monitored sends.', ref='DESIGN 5/C19',
                note='trusted: world model; send monitor on Runtime._send_message cross-checked against independently parsed wire frames')


def jobs(tier, seed):
    return routing.plan('C19', tier, seed)


run_job = routing.run_job
replay = routing.replay
