"""C04 -- secure finite-field arithmetic equals field arithmetic.

All elements (pairs) of GF(2), 3, 5, 7, 11, GF(4), GF(8), GF(9), GF(16), GF(27), boundary
alphabets of GF(2^8) and GF(509): + - * / ** == !=, and in characteristic 2 the bitwise
& | ^ ~; bit decomposition / recomposition for prime and binary fields.  Single party with
scripted masks, then m parties in the virtual world including the lifted cases m >= q.
Oracle: independent reference field arithmetic (mc/ref/fields.py, coefficient lists modulo the
field's modulus, brute-force inverses); every output must be an element of the requested field.
"""

import itertools

from mc.core import Part
from mc import exact

LEVEL = 'exploration'
FRESH_PROCESS_PER_JOB = True
RULE = ('one case = (field, operation, element tuple, configuration, mask script); all elements (pairs) of the small fields, '
        'boundary alphabets for GF(2^8) and GF(509); single-party: mask scripts as in C01; multi-party: all (m<=5, t, PRSS) incl. '
        'lifted fields (m >= q) on reduced alphabets; non-trivial = some random draw or more than one party')
ASSUMPTIONS = ['extension fields need order > m (the code asserts ext_deg == 1 when lifting): respected',
               'excluded event: blinding factor 0 in is_zero_public (forced non-zero by the seam)',
               'default eager schedule for multi-party runs']
MANIFEST = dict(
    level='exploration',
    technique='bounded-exhaustive enumeration of field elements and protocol masks on the real runtime against an independent reference field implementation',
    text='Every element pair of 10 small fields (prime, binary, odd extension) and boundary alphabets of GF(2^8), GF(509) through '
         '+,-,*,/,**,==,!= and (char 2) &,|,^,~, to_bits/from_bits; outputs must lie in the requested field also when the sharing field '
         'is a lifted extension (m >= q); single party with all mask scripts, multi-party for all (m<=5,t,PRSS on/off).',
    ref='DESIGN 5/C04', note='trusted: mc/ref/fields.py reference arithmetic, randomness seam, world model')

ORDERS = [2, 3, 4, 5, 7, 8, 9, 11, 16, 27, 256, 509]
_fields = {}


def plain_field(q):
    """The field the user asks for with SecFld(order=q) (from mpyc.finfields, pure mathematics)."""
    import sys
    if 'mpyc.finfields' not in sys.modules:
        argv, sys.argv = sys.argv, ['verif', '--no-log']
        try:
            import mpyc.finfields  # noqa
        finally:
            sys.argv = argv
    ff = sys.modules['mpyc.finfields']
    from mc.ref import fields as rf
    if q not in _fields:
        p = next(p for p in (2, 3, 5, 7, 11, 509) if _is_power(q, p))
        d = _log(q, p)
        F = ff.GF(p) if d == 1 else ff.GF(ff.find_irreducible(p, d))
        _fields[q] = (F, rf.Adapter(F))
    return _fields[q]


def _is_power(q, p):
    while q % p == 0:
        q //= p
    return q == 1


def _log(q, p):
    d = 0
    while q > 1:
        q //= p
        d += 1
    return d


def domain(q):
    if q <= 27:
        return list(range(q))
    if q == 256:
        return [0, 1, 2, 3, 0x1b, 0x53, 0x80, 0xca, 0xfe, 0xff]
    return [0, 1, 2, 254, 255, 256, 507, 508]


def elem_code(want_q):
    """Comparison: got must be an element of the requested field (order want_q) with the expected code(s)."""
    def cmp(got, want):
        def one(g, w):
            T = type(g)
            return getattr(T, 'order', None) == want_q and int(g) == w
        if isinstance(want, list):
            return isinstance(got, list) and len(got) == len(want) and all(one(g, w) for g, w in zip(got, want))
        return one(got, want)
    return cmp


def build(mpc, orders=None, mp_lifted=()):
    ops = {}
    for q in (orders or ORDERS):
        F, ad = plain_field(q)
        R = ad.ref
        T = mpc.SecFld(q)
        dom = domain(q)
        mpd = dom if q <= 5 else [dom[0], dom[1], dom[len(dom) // 2], dom[-1]]
        make = (lambda T: (lambda c: T(T.field(c)) if not isinstance(T, exact.Dummy) else c))(T)
        if not isinstance(mpc, exact.Dummy):
            # elements are created from their integer code in the *requested* field
            Fq = T.subfield if getattr(T, 'subfield', None) is not None else T.field
            make = (lambda T, Fq: (lambda c: T(Fq(c))))(T, Fq)
        cmp = elem_code(q)

        def op(name, arity, fn, ref, q=q, make=make, dom=dom, mpd=mpd, cmp=cmp, full=0):
            ops[f'{q}:{name}'] = exact.Op(arity, fn, ref, cmp, make=make, domain=dom, mp_domain=mpd, full=full, maxpts=4)
        op('add', 2, lambda a, b: a + b, lambda v, R=R: R.add(*v))
        op('sub', 2, lambda a, b: a - b, lambda v, R=R: R.sub(*v))
        op('mul', 2, lambda a, b: a * b, lambda v, R=R: R.mul(*v))
        op('div', 2, lambda a, b: a / b, lambda v, R=R: R.div(*v) if v[1] else None)
        op('neg', 1, lambda a: -a, lambda v, R=R: R.neg(v[0]))
        op('rdiv_pub', 1, lambda a: 1 / a, lambda v, R=R: R.inv(v[0]) if v[0] else None)
        op('mul_pub', 1, lambda a, q=q: a * (q - 1), lambda v, R=R, q=q: R.mul(v[0], R.from_int(q - 1)))
        # public integers outside range(q) are reduced like field elements made from them (matters for lifted fields)
        op('add_int_big', 1, lambda a, q=q: a + (q + 1), lambda v, R=R, q=q: R.add(v[0], R.from_int(q + 1)))
        op('sub_int_neg', 1, lambda a: a - (-1), lambda v, R=R: R.sub(v[0], R.from_int(-1)))
        op('eq_int_big', 1, lambda a, q=q: a == (2 * q + 1), lambda v, R=R, q=q: int(v[0] == R.from_int(2 * q + 1)))
        op('ctor_int_big', 1, lambda a, T=T, q=q: a * T(q + 2) if not isinstance(T, exact.Dummy) else None,
           lambda v, R=R, q=q: R.mul(v[0], R.from_int(q + 2)))
        for e in ((-2, -1, 0, 1, 2, 3, q - 1, q) if q <= 27 else (-1, 0, 2, 3, 254)):
            op(f'pow{e}', 1, lambda a, e=e: a ** e, lambda v, R=R, e=e: R.pow(v[0], e) if (e >= 0 or v[0]) else None)
        op('eq', 2, lambda a, b: a == b, lambda v: int(v[0] == v[1]))
        op('ne', 2, lambda a, b: a != b, lambda v: int(v[0] != v[1]))
        op('is_zero_public', 1, lambda a: mpc.is_zero_public(a), lambda v: v[0] == 0)
        ops[f'{q}:is_zero_public'].kind = 'public'
        op('mul_chain', 2, lambda a, b: (a * b + a) * b, lambda v, R=R: R.mul(R.add(R.mul(*v), v[0]), v[1]))
        if ad.p == 2:
            op('and', 2, lambda a, b: a & b, lambda v: v[0] & v[1])
            op('or', 2, lambda a, b: a | b, lambda v: v[0] | v[1])
            op('xor', 2, lambda a, b: a ^ b, lambda v: v[0] ^ v[1])
            op('invert', 1, lambda a: ~a, lambda v, q=q: v[0] ^ (q - 1))
        lifted = not isinstance(mpc, exact.Dummy) and getattr(T, 'subfield', None) is not None
        if (ad.d == 1 or ad.p == 2) and not lifted and not (mp_lifted and q in mp_lifted):
            nbits = (q - 1).bit_length()
            op('to_bits', 1, lambda a: mpc.to_bits(a), lambda v, nbits=nbits: [(v[0] >> i) & 1 for i in range(nbits)], full=256)
            op('from_to_bits', 1, lambda a: mpc.from_bits(mpc.to_bits(a)), lambda v: v[0])
    return ops


def jobs(tier, seed):
    out = []
    names = sorted(build(exact.Dummy()))
    for k in ((4,) if tier == 'quick' else (4, 10)):
        for q in ORDERS:
            mine = [n for n in names if n.startswith(f'{q}:')]
            nparts = 1 if q < 9 else 3
            for i in range(nparts):
                out.append(dict(engine='sp', k=k, ops=mine[i::nparts], tier=tier, seed=seed))
    cfgs = exact.QUICK_CFGS if tier == 'quick' else None
    for m in range(1, 6):
        for t in range(0, (m - 1) // 2 + 1):
            for no_prss in (False, True):
                if tier == 'quick' and (m, t, no_prss) not in ((3, 1, False), (3, 1, True), (4, 1, True), (5, 2, False)):
                    continue
                # prime fields of any size (lifted when m >= q), extension fields only with order > m
                orders = [q for q in ORDERS if q in (2, 3, 5, 7, 11, 509) or q > m]
                if tier == 'quick':
                    orders = [q for q in orders if q in ((2, 3, 5, 8, 9) if m <= 3 else (2, 3, 7))]
                for q in orders:
                    out.append(dict(engine='mp', m=m, t=t, no_prss=no_prss, part=0, parts=1, tier=tier, seed=seed, q=q, k=8))
    out.sort(key=lambda j: -(j.get('m', 0)))
    return out


def run_job(job):
    if job['engine'] == 'sp':
        return exact.run_sp('C04', job, build)
    q = job['q']
    lifted = (q,) if (job['t'] > 0 and job['m'] >= q) else ()      # to_bits is not offered on lifted fields (TypeError)
    return exact.run_mp('C04', job, lambda mpc: build(mpc, [q], mp_lifted=lifted), batch=30, patterns=('seeded', 'max'))


def replay(case):
    if case.get('engine') == 'sp':
        return exact.replay_sp('C04', case, build)
    return run_job(case['job'])
