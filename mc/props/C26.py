"""C26 -- generated field primes meet their size, Blum and root-of-unity constraints.

Bounded-exhaustive enumeration of finfields.find_prime_root(l, blum, n) and of the field choice of
sectypes.SecInt / SecFxp (through _pfield) over declared finite domains.  Oracle: an independent
primality decision (mc/ref/numth.py: trial division + Miller-Rabin to fixed bases, which is a proof
below psi_13), bit lengths, residues mod 4, and the multiplicative order of w obtained by repeated
multiplication.  The witnesses that mpyc's own (stub) is_prime draws are fixed through the same
random.randint seam as in C25, so every run is deterministic.
"""

import os
import sys

from mc.core import Part
from mc.ref import numth as R

LEVEL = 'exploration'
RULE = ('one case = one call find_prime_root(l, blum, n), or one secure type SecInt(l, p, n) / SecFxp(l, f, p, n) '
        'created under one (parties, threshold, sec_param) configuration; all combinations of the declared '
        'domains are enumerated once; non-trivial = a prime/field is actually produced (not a refusal)')
ASSUMPTIONS = [
    'l = 1 is excluded: no prime has bit length 1, so "exactly l bits when n <= 2" cannot be asked',
    'calls refused by an assert in find_prime_root (blum=False together with n > 2, or n > 1 with l <= 2) are '
    'preconditions, not judged',
    'the order demanded of w is the returned n (the code documents that a non-prime n is replaced by the next prime '
    'and the docstring promises "prime order at least n"); the returned n must be >= the requested n, and equal '
    'to it when the requested n is 1 (l >= 3), 2 or an odd prime',
    'primality oracle: trial division + strong-probable-prime tests to the 13 prime bases 2..41, a proof for '
    'p < 3317044064679887385961981 (all l <= 81); for 82 <= l <= 96 (thorough tier only) additionally the 12 prime '
    'bases 43..97 are used and a "prime" verdict is then not a proof (a "composite" verdict always is)',
    'mpyc.gmpy.is_prime draws witnesses only via random.randint, rebound to a deterministic 13-base seam',
    'with threshold 0 the code deliberately does not require more field elements than parties; that configuration '
    'is only exercised with 1 party',
]
MANIFEST = dict(
    level='exploration',
    technique='bounded-exhaustive enumeration against independent primality (fixed-base Miller-Rabin/trial division), '
              'bit-length, residue and brute-force multiplicative-order checks',
    text='find_prime_root for all 2 <= l <= 64 (96 thorough) x blum in {True, False} x n in {1,2,3,4,5,6,7,9,11,13,17,'
         '31,257} (thorough: 35 orders up to 65537): p prime, bit length >= l (= l for n <= 2), p = 3 mod 4 when blum, 0 < w < p of order exactly the '
         'returned n >= requested n. SecInt(l, n) and SecFxp(l, f, n) for all l <= 16, f <= 16 (20 thorough), n in {1,2,3,7} '
         'under sec_param k in {0..8, 30} (thorough also 12, 16, 20) and (parties, threshold) in {(1,0), (3,1), (12,5)}: prime modulus > 2^(l+f+k+1) and '
         '> parties, root of order nth; user-supplied moduli at the boundary 2^(l+f+k+1) (largest prime below: '
         'ValueError; smallest prime above: accepted unless <= parties; composite: rejected).',
    ref='DESIGN 5/C26',
    note='trusted: Python int arithmetic and pow; primality is a proof only below psi_13 ~ 2^81.4; witness seam as in C25')

NS = (1, 2, 3, 4, 5, 6, 7, 9, 11, 13, 17, 31, 257)
NS_THOROUGH = NS + (8, 10, 12, 15, 16, 19, 23, 25, 29, 37, 41, 43, 47, 53, 59, 61, 97, 100, 127, 256, 8191, 65537)
EXTRA_BASES = (43, 47, 53, 59, 61, 67, 71, 73, 79, 83, 89, 97)
KS = (0, 1, 2, 3, 4, 5, 6, 7, 8, 30)
KS_THOROUGH = KS + (12, 16, 20)
CONFIGS = ((1, 0), (3, 1), (12, 5))


def ref_is_prime(x):
    if x < 2:
        return False
    if x < R.MR_LIMIT:
        if x < 1 << 20:
            return R.trial_is_prime(x)
        return R.is_prime_det(x)
    for p in R.MR_BASES + EXTRA_BASES:
        if x % p == 0:
            return False
    return all(R.strong_probable_prime(x, a) for a in R.MR_BASES + EXTRA_BASES)


def load_gmpy():
    os.environ['MPYC_NOGMPY'] = '1'
    import mpyc.gmpy as g
    if g.version() == 'MPyC stubs' and not isinstance(getattr(g, 'random', None), R.WitnessSeam):
        g.random = R.WitnessSeam()
    return g


def call(f, *args, **kw):
    try:
        return 'ok', f(*args, **kw)
    except (Exception, AssertionError) as e:       # noqa
        return 'exc', type(e).__name__


def check_root(part, key, what, d, p, n, w):
    """w must be in (0, p) and have multiplicative order exactly n modulo p."""
    if not (isinstance(w, int) and 0 < w < p):
        part.violation(key + ':range', f'{what}: w={w} not in (0, p)', d)
        return
    o = R.small_order(w, p, max(n, 1))
    if o != n:
        cls = 'proper-divisor' if o is not None else 'not-an-nth-root'
        part.violation(f'{key}:order:{cls}', f'{what}: w={w} has order {o if o else "> " + str(n)} mod {p}, expected {n}', d)


def ck_fpr(part, ff, l, blum, n):
    d = dict(fn='fpr', l=l, blum=blum, n=n)
    st, got = call(ff.find_prime_root, l, blum, n)
    what = f'find_prime_root({l},{blum},{n}) -> {got}'
    if st == 'exc':
        refusal = got == 'AssertionError' and ((not blum and n > 2) or (l <= 2 and not blum and n != 1))
        part.outcomes.add(('refused', got))
        if not refusal:
            part.violation('C26:find_prime_root:raises', what, d)
        return False
    if not (isinstance(got, tuple) and len(got) == 3 and all(type(v) is int for v in got)):
        part.violation('C26:find_prime_root:result-type', what + ' (expected a triple of Python ints)', d)
        return True
    p, n1, w = got
    branch = 'l<=2' if l <= 2 else 'n<=2' if n <= 2 else 'n>2'
    part.outcomes.add((branch, blum, p % 4, n1 == n, p.bit_length() - l if p.bit_length() - l < 3 else 3))
    if not ref_is_prime(p):
        part.violation(f'C26:find_prime_root:not-prime:{branch}', what + ': p is composite', d)
        return True
    if p.bit_length() < l:
        part.violation(f'C26:find_prime_root:too-short:{branch}', what + f': bit length {p.bit_length()} < {l}', d)
    if n <= 2 and p.bit_length() != l:
        part.violation(f'C26:find_prime_root:not-exactly-l-bits:{branch}', what + f': bit length {p.bit_length()} != {l}', d)
    if blum and p % 4 != 3:
        part.violation(f'C26:find_prime_root:not-blum:{branch}', what + f': p % 4 = {p % 4}', d)
    if n1 < n:
        part.violation(f'C26:find_prime_root:order-below-requested:{branch}',
                       what + f': returned order {n1} < requested {n} (docstring: order at least n)', d)
    elif n1 != n and (n == 2 or (n > 2 and R.trial_is_prime(n)) or (n == 1 and l > 2)):
        part.violation(f'C26:find_prime_root:order-changed:{branch}', what + f': returned n={n1} for requested n={n}', d)
    elif n1 > 2 and not R.trial_is_prime(n1):
        part.violation(f'C26:find_prime_root:order-not-prime:{branch}', what + f': returned n={n1} is not prime', d)
    if n1 == 1 and w != 1:
        part.violation(f'C26:find_prime_root:root:n=1', what + ': w must be 1', d)
    check_root(part, f'C26:find_prime_root:root:{branch}', what, d, p, n1, w)
    return True


# ------------------------------------------------------------------------------------------ secure types

def new_runtime(m, t, k):
    """A fresh Runtime for m parties (this one is party 0; nothing is connected) via the public setup()."""
    import mpyc.runtime as rtmod        # (the import itself runs setup() once and strips sys.argv)
    old = sys.argv
    sys.argv = ['verif', '--no-log', '--no-prss', f'-M{m}', '-I0', f'-T{t}', f'-K{k}']
    try:
        rt = rtmod.setup()
    finally:
        sys.argv = old
    from mpyc import sectypes
    assert sectypes.runtime is rt and len(rt.parties) == m and rt.threshold == t and rt.options.sec_param == k
    sectypes._SecInt.cache_clear()
    sectypes._SecFxp.cache_clear()
    return rt, sectypes


def ck_type(part, sectypes, cfg, kind, l, f, p, n, p_kind):
    """Create SecInt(l, p, n) / SecFxp(l, f, p, n) under cfg = (m, t, k); p_kind describes a user-supplied p:
    None | 'below' (prime, too small) | 'above' (prime, large enough) | 'composite' (large enough, not prime)."""
    m, t, k = cfg
    d = dict(fn='type', m=m, t=t, k=k, kind=kind, l=l, f=f, p=p, n=n, p_kind=p_kind)
    if kind == 'int':
        st, got = call(sectypes.SecInt, l, p=p, n=n)
        ff_ = 0
    else:
        st, got = call(sectypes.SecFxp, l, f, p=p, n=n)
        ff_ = f
    what = f'Sec{kind.capitalize()}(l={l}' + (f', f={f}' if kind == 'fxp' else '') + f', p={p}, n={n}) with m={m}, t={t}, k={k}'
    bound = 1 << (l + ff_ + k + 1)
    site = f'C26:Sec{kind.capitalize()}'
    if st == 'exc':
        part.outcomes.add(('type-refused', got, p_kind))
        if p_kind is None and got == 'AssertionError' and t > 0 and (bound >> 0) <= m:
            # the generated prime may be as small as 2^(l+f+k+1)+3 <= parties: the code's assert refuses the type
            part.note('generated_prime_refused_for_parties', 1)
        elif p_kind is None or (p_kind == 'above' and not (t > 0 and p <= m)):
            part.violation(f'{site}:raises' + (':user-prime' if p_kind else ''), f'{what} raised {got}', d)
        elif p_kind in ('below', 'composite') and got != 'ValueError':
            part.violation(f'{site}:user-modulus:wrong-exception', f'{what} raised {got}, expected ValueError', d)
        return False
    fld = got.field
    q = fld.modulus
    part.outcomes.add(('type', p_kind, q.bit_length() - (l + ff_ + k + 2) if q.bit_length() - (l + ff_ + k + 2) < 3 else 3))
    if p_kind == 'below':
        part.violation(f'{site}:user-prime-too-small-accepted', f'{what}: accepted although p <= 2^(l+f+k+1) = {bound}', d)
        return True
    if p_kind == 'composite':
        part.violation(f'{site}:user-composite-accepted', f'{what}: composite modulus accepted', d)
        return True
    if p is not None and q != p:
        part.violation(f'{site}:user-prime-ignored', f'{what}: field modulus {q}', d)
    if fld.order != q or not ref_is_prime(q):
        part.violation(f'{site}:modulus-not-prime', f'{what}: field modulus {q} (order {fld.order}) is not a prime', d)
        return True
    if q <= bound:
        part.violation(f'{site}:field-too-small', f'{what}: modulus {q} <= 2^(l+f+k+1) = {bound}', d)
    if t > 0 and q <= m:
        part.violation(f'{site}:field-not-larger-than-parties', f'{what}: modulus {q} <= {m} parties', d)
    if got.bit_length != l or (kind == 'fxp' and got.frac_length != f):
        part.violation(f'{site}:type-parameters', f'{what}: bit_length={got.bit_length}', d)
    if p is None:
        if q % 4 != 3:
            part.violation(f'{site}:not-blum', f'{what}: modulus {q} % 4 = {q % 4} (find_prime_root default blum=True)', d)
        if fld.nth < n:
            part.violation(f'{site}:nth-below-requested', f'{what}: field.nth = {fld.nth}', d)
    check_root(part, f'{site}:root', what + f' modulus {q} nth {fld.nth}', d, q, fld.nth, fld.root)
    return True


def user_moduli(l, f, k):
    b = 1 << (l + f + k + 1)
    below = R.prev_prime_det(b)                  # bit length l+f+k+1: too small
    above = R.next_prime_det(b)                  # smallest admissible prime
    comp = b + 1
    while ref_is_prime(comp):
        comp += 2                                # odd composite with enough bits
    return (('below', below), ('above', above), ('composite', comp))


# ------------------------------------------------------------------------------------------ jobs

def jobs(tier, seed):
    top = 64 if tier == 'quick' else 96
    ls = list(range(2, top + 1))
    k = 12
    quick = tier == 'quick'
    js = [dict(kind='fpr', ls=ls[i::k], ns=NS if quick else NS_THOROUGH) for i in range(k)]
    for m, t in CONFIGS:
        for kk in (KS if quick else KS_THOROUGH):
            js.append(dict(kind='types', m=m, t=t, k=kk, lmax=16 if quick else 20))     # moduli stay below 2^73
    return js


def run_job(job):
    load_gmpy()
    part = Part()
    if job['kind'] == 'fpr':
        import mpyc.finfields as ff
        for l in job['ls']:
            for blum in (True, False):
                for n in job['ns']:
                    nt = ck_fpr(part, ff, l, blum, n)
                    part.case(nontrivial=nt)
                    if nt and l in (16, 17) and blum and n in (2, 7):
                        part.sample(dict(call=f'find_prime_root({l},{blum},{n})', result=list(ff.find_prime_root(l, blum, n))))
        part.note('fpr_cases', part.evaluations)
        return part
    m, t, k = job['m'], job['t'], job['k']
    rt, sectypes = new_runtime(m, t, k)
    cfg = (m, t, k)
    for l in range(1, job['lmax'] + 1):
        for n in (2, 1, 3, 7):
            nt = ck_type(part, sectypes, cfg, 'int', l, 0, None, n, None)
            part.case(nontrivial=nt)
            for f in range(0, job['lmax'] + 1):
                nt = ck_type(part, sectypes, cfg, 'fxp', l, f, None, n, None)
                part.case(nontrivial=nt)
        for f in range(0, job['lmax'] + 1):
            for p_kind, p in user_moduli(l, f, k):
                if f == 0:
                    nt = ck_type(part, sectypes, cfg, 'int', l, 0, p, 2, p_kind)
                    part.case(nontrivial=nt)
                nt = ck_type(part, sectypes, cfg, 'fxp', l, f, p, 2, p_kind)
                part.case(nontrivial=nt)
    # small user-supplied primes against the number of parties: every prime up to 4m+40 with the smallest types
    for p in range(2, 4 * m + 40):
        if not R.trial_is_prime(p):
            continue
        for l, f in ((1, 0), (2, 0), (1, 1), (3, 2)):
            p_kind = 'below' if p.bit_length() <= l + f + k + 1 else 'above'
            nt = ck_type(part, sectypes, cfg, 'fxp' if f else 'int', l, f, p, 2, p_kind)
            part.case(nontrivial=nt)
    if (m, t, k) == (3, 1, 30):
        T = sectypes.SecFxp(8, 4)
        part.sample(dict(type='SecFxp(8,4)', m=m, t=t, k=k, modulus=T.field.modulus, bits=T.field.modulus.bit_length()))
    part.note('type_cases', part.evaluations)
    part.note('configs', [f'm={m},t={t},k={k}'])
    return part


def coverage_extra(tier, seed, total):
    # independent of the order in which jobs finish
    return {'samples': sorted(total.samples, key=repr), 'configs': sorted(total.notes.get('configs', []))}


def replay(case):
    load_gmpy()
    part = Part()
    if case['fn'] == 'fpr':
        import mpyc.finfields as ff
        ck_fpr(part, ff, case['l'], case['blum'], case['n'])
    else:
        rt, sectypes = new_runtime(case['m'], case['t'], case['k'])
        ck_type(part, sectypes, (case['m'], case['t'], case['k']), case['kind'], case['l'], case['f'], case['p'],
                case['n'], case['p_kind'])
    return part
