"""C17 -- the PRF is deterministic and its outputs lie in range.

Bounded-exhaustive enumeration of thresha.PRF over a declared finite domain of keys, bounds,
inputs, counts and shapes; oracle = an independent SHAKE-128 recomputation (written here
from the documented construction) plus the structural laws of the statement.
"""

import hashlib
import itertools

from mc.core import Part

LEVEL = 'exploration'
RULE = ('one case = (key, bound, input, n-or-shape); all combinations of the declared domains are '
        'enumerated; non-trivial = bound > 1 and at least one value requested')
ASSUMPTIONS = ['hashlib.shake_128 is correct (used by both the code and the reference)',
               'array shapes are only exercised when numpy is importable by mpyc (not in /venv)']

KEYS = [bytes(16), b'\xff' * 16, bytes(range(16)), b'k', b'']
INPUTS = [b'', b'\x00', (1).to_bytes(8, 'little', signed=True), (-1).to_bytes(8, 'little', signed=True),
          (2**62 + 12345).to_bytes(8, 'little', signed=True)]
COUNTS = [None, 0, 1, 2, 5]


def bounds(tier):
    top = 130 if tier == 'quick' else 300
    bs = set(range(1, top + 1))
    for j in range(1, 131 if tier == 'quick' else 200):
        bs.update((2**j - 1, 2**j, 2**j + 1))
    bs.discard(0)
    return sorted(bs)


def ref_prf(key, bound, s, n):
    """Reference: n values; l = ceil(bits(bound-1)/8) bytes each (+len(key) if bound is no power of 2),
    little endian, reduced mod bound; one SHAKE-128 stream over key||s."""
    l = ((bound - 1).bit_length() + 7) // 8
    if bound & (bound - 1):
        l += len(key)
    if l == 0:
        return [0] * n
    dk = hashlib.shake_128(key + s).digest(n * l)
    return [int.from_bytes(dk[i * l:(i + 1) * l], 'little') % bound for i in range(n)]


def jobs(tier, seed):
    bs = bounds(tier)
    k = 16
    return [dict(tier=tier, bounds=bs[i::k]) for i in range(k)]


def run_job(job):
    from mpyc import thresha
    from mpyc.numpy import np
    part = Part()
    shapes = [(), (0,), (3,), (2, 3)] if np else []
    for bound in job['bounds']:
        for key in KEYS:
            prf = thresha.PRF(key, bound)
            prf2 = thresha.PRF(key, bound)
            for s in INPUTS:
                longest = ref_prf(key, bound, s, 6)
                for n in COUNTS:
                    got = prf(s, n)
                    again = prf2(s, n)
                    case = dict(key=key.hex(), bound=bound, s=s.hex(), n=n)
                    part.case(key=None, nontrivial=bound > 1 and n != 0)
                    part.outcomes.add(hash(repr(got)) & 0xffff)
                    if len(part.samples) < 2 and bound > 2 and n == 2:
                        part.sample(dict(case=case, values=got))
                    if got != again:
                        part.violation('C17:nondeterministic', f'PRF differs between calls {case}', case)
                        continue
                    vals = [got] if n is None else list(got)
                    want_n = 1 if n is None else n
                    if n is not None and not isinstance(got, list):
                        part.violation('C17:type', f'list expected for n={n}, got {type(got).__name__} {case}', case)
                        continue
                    if len(vals) != want_n:
                        part.violation('C17:count', f'{len(vals)} values for n={n} {case}', case)
                        continue
                    if any(not (isinstance(v, int) and 0 <= v < bound) for v in vals):
                        part.violation('C17:range', f'value outside range({bound}): {vals} {case}', case)
                        continue
                    if vals != longest[:want_n]:
                        part.violation('C17:value', f'{vals} != reference {longest[:want_n]} (also breaks '
                                       f'scalar/list prefix consistency) {case}', case)
                for shape in shapes:
                    got = prf(s, shape)
                    cnt = 1
                    for d in shape:
                        cnt *= d
                    case = dict(key=key.hex(), bound=bound, s=s.hex(), shape=list(shape))
                    part.case(key=None, nontrivial=bound > 1 and cnt > 0)
                    flat = [int(v) for v in got.reshape(-1)] if hasattr(got, 'reshape') else None
                    if flat is None or tuple(got.shape) != shape or flat != ref_prf(key, bound, s, cnt):
                        part.violation('C17:shape', f'array output inconsistent with scalar stream {case}', case)
    return part


def replay(case):
    from mpyc import thresha
    part = Part()
    key, s = bytes.fromhex(case['key']), bytes.fromhex(case['s'])
    n = case.get('n')
    got = thresha.PRF(key, case['bound'])(s, n)
    vals = [got] if n is None else list(got)
    if vals != ref_prf(key, case['bound'], s, len(vals)) or len(vals) != (1 if n is None else n):
        part.violation('C17:value', f'{vals} != reference', case)
    return part
