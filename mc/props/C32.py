"""C32 -- mpctools.reduce / mpctools.accumulate agree with functools / itertools.

Bounded-exhaustive enumeration over ALL input lengths 0..N with the FREE MONOID as the
associative operation.  An element is (tuple of leaf labels, depth); f concatenates the label
tuples (and sets depth = 1 + max of the argument depths, and counts its applications).  If the
label tuple of a result is the in-order concatenation of the label tuples of the inputs, the
result is right for EVERY associative f, commutative or not, because every monoid is a
homomorphic image of the free monoid.  The depth component yields the depth of the tree of
applications, the counter their number.
"""

import functools
import itertools
import operator

from mc.core import Part

LEVEL = 'exploration'
RULE = ('one case = (function reduce|accumulate, method, length n, initial absent|leaf|None, container '
        'list|tuple|generator|iterator); every combination is enumerated for ALL n in 0..130 (thorough 0..520). '
        'The operation is the free monoid (concatenation of label tuples, non-commutative): equality of the '
        'label tuples with those of functools.reduce / itertools.accumulate decides the property for EVERY '
        'associative f. Depth/number of applications are measured by the same f. Additional small families: '
        'concrete non-commutative monoids (strings, 2x2 matrices mod 7, permutations of 5 points, '
        'left-zero/right-zero bands) and secure integers/fixed-point numbers in the 1-party runtime '
        '(operator.add/mul, default f). non-trivial = at least 2 elements to combine')
ASSUMPTIONS = ['functools.reduce and itertools.accumulate (CPython) are the reference',
               'depth bounds: reduce = ceil(log2 n) (binary tree of n leaves, "logarithmic depth"); '
               'Sklansky = ceil(log2 n) ("depth is minimized"); Brent-Kung <= max(2k-2, k) with k = ceil(log2 n) '
               '(source comment gives depth max(2k-2,k) and 2n-2-k applications for n = 2^k; the bound for other n '
               'is that of the next power of two); Sklansky (n/2)k applications for n = 2^k (source comment); '
               'default method: the weaker of the two bounds ("a default heuristic is followed")',
               'n counts the initial value when one is given',
               'accumulate(initial=None): the mpctools docstring (None is a value that leads off) takes precedence '
               'over itertools (None = absent)']

MANIFEST = dict(
    level='exploration',
    technique='bounded-exhaustive enumeration over all lengths with the free monoid as universal associative operation',
    text='mpctools.reduce and mpctools.accumulate (Brent-Kung, Sklansky, default method under PRSS and --no-prss) for '
         'ALL lengths 0..130 (thorough 0..520), with/without initial (also initial=None), inputs as list, tuple, '
         'generator, iterator. Operation = free monoid on labelled leaves, so in-order equality with '
         'functools.reduce/itertools.accumulate holds for every associative, also non-commutative, f; depth and '
         'number of applications of f measured on the same runs against the documented logarithmic bounds. Plus '
         'concrete non-commutative monoids and secure types in the 1-party runtime.',
    ref='DESIGN 5/C32',
    note='trusted: CPython functools/itertools; finite length bound N; depth bounds for lengths that are no power of '
         'two are the documented power-of-two bounds applied to the next power of two')

METHODS = [None, 'Brent-Kung', 'Sklansky']
CONTAINERS = ['list', 'tuple', 'generator', 'iterator']
INITIALS = ['absent', 'leaf', 'None']


# -- free monoid ---------------------------------------------------------------------------

class Monoid:
    """f over (labels, depth); None is accepted as a leaf labelled 'None' (initial=None)."""

    def __init__(self):
        self.calls = 0

    @staticmethod
    def norm(a):
        return (('None',), 0) if a is None else a

    def __call__(self, a, b):
        self.calls += 1
        a, b = self.norm(a), self.norm(b)
        return (a[0] + b[0], 1 + max(a[1], b[1]))


def plain_concat(a, b):
    a, b = Monoid.norm(a), Monoid.norm(b)
    return (a[0] + b[0], 0)


def clog2(n):
    return (n - 1).bit_length() if n > 0 else 0


def make_input(n, container):
    xs = [((i,), 0) for i in range(n)]
    if container == 'list':
        return xs, xs
    if container == 'tuple':
        return tuple(xs), None
    if container == 'generator':
        return (x for x in xs), None
    return iter(xs), None


def initial_kw(initial):
    if initial == 'absent':
        return {}
    if initial == 'leaf':
        return {'initial': (('init',), 0)}
    return {'initial': None}


def depth_bound(fn, method, n):
    """(lo, hi) allowed for the maximum depth over n >= 1 combined elements."""
    k = clog2(n)
    bk = max(2 * k - 2, k)
    if fn == 'reduce' or method == 'Sklansky':
        return k, k
    if method == 'Brent-Kung':
        return k, bk
    return k, bk  # default heuristic: either method


def check_case(part, mpctools, fn, method, n, initial, container, no_prss):
    case = dict(fn=fn, method=method, n=n, initial=initial, container=container, no_prss=no_prss)
    kw = initial_kw(initial)
    total = n + (initial != 'absent')
    part.case(key=None, nontrivial=total >= 2)
    f = Monoid()
    x, orig = make_input(n, container)
    snapshot = list(orig) if orig is not None else None
    cls = f'{fn}:{method or "default"}'
    if fn == 'reduce':
        ref_x, _ = make_input(n, 'list')
        try:
            want = functools.reduce(plain_concat, ref_x, *kw.values())
        except TypeError:
            want = 'TypeError'
        try:
            got = mpctools.reduce(f, x, **kw)
        except Exception as exc:
            got = type(exc).__name__
            if want == 'TypeError':
                # functools defines no result here: only record what mpctools does
                part.note('reduce_empty_no_initial', {got: 1})
                part.outcomes.add(('empty', got))
                return
            part.violation(f'C32:{cls}:raises', f'{got} raised for {case}', case)
            return
        if want == 'TypeError':
            part.note('reduce_empty_no_initial', {'returns ' + repr(got)[:40]: 1})
            return
        got, want = Monoid.norm(got), Monoid.norm(want)
        if got[0] != want[0]:
            part.violation(f'C32:{cls}:value', f'free-monoid result {got[0]!r:.120} != functools.reduce '
                           f'{want[0]!r:.120} for {case}', case)
            return
        depth, calls = got[1], f.calls
        part.outcomes.add((fn, total, depth, calls))
        lo, hi = depth_bound(fn, method, total)
        if not lo <= depth <= hi:
            part.violation(f'C32:{cls}:depth', f'depth {depth} outside [{lo},{hi}] for {case}', case)
        if calls != total - 1:
            part.violation(f'C32:{cls}:applications', f'{calls} applications of f, a binary tree over {total} '
                           f'items has {total - 1}: {case}', case)
    else:
        ref_x, _ = make_input(n, 'list')
        if initial == 'None':
            # itertools reads initial=None as "no initial"; mpctools documents "If initial is provided
            # (possibly equal to None), the accumulation leads off with this initial value"
            want = list(itertools.accumulate(itertools.chain([None], ref_x), plain_concat))
            want[0] = Monoid.norm(want[0])
        else:
            want = list(itertools.accumulate(ref_x, plain_concat, **kw))
        mkw = dict(kw)
        if method is not None:
            mkw['method'] = method
        try:
            res = mpctools.accumulate(x, f, **mkw)
            is_iter = iter(res) is res and hasattr(res, '__next__')
            got = [Monoid.norm(a) for a in res]
        except Exception as exc:
            part.violation(f'C32:{cls}:raises', f'{type(exc).__name__} raised for {case}', case)
            return
        if not is_iter:
            part.violation(f'C32:{cls}:not-iterator', f'result is no iterator for {case}', case)
        if len(got) != len(want):
            part.violation(f'C32:{cls}:length', f'{len(got)} results, itertools.accumulate gives {len(want)} '
                           f'for {case}', case)
            return
        for j, (g, w) in enumerate(zip(got, want)):
            if g[0] != w[0]:
                part.violation(f'C32:{cls}:value', f'prefix {j}: free-monoid result {g[0]!r:.100} != '
                               f'itertools.accumulate {w[0]!r:.100} for {case}', case)
                return
        depth = max((g[1] for g in got), default=0)
        calls = f.calls
        part.outcomes.add((fn, method, no_prss, total, depth, calls))
        part.note_max(f'max_depth_{method or "default"}', depth)
        if total >= 1:
            lo, hi = depth_bound(fn, method, total)
            if not lo <= depth <= hi:
                part.violation(f'C32:{cls}:depth', f'max depth {depth} outside [{lo},{hi}] for {case}', case)
            k = clog2(total)
            if any(g[1] < clog2(j + 1) for j, g in enumerate(got)):
                raise AssertionError('depth accounting broken')  # impossible for a binary tree
            if total == 1 << k:   # documented exact numbers for powers of two
                if method == 'Brent-Kung' and (calls != 2 * total - 2 - k or depth != max(2 * k - 2, k)):
                    part.violation('C32:accumulate:Brent-Kung:documented-complexity',
                                   f'n=2^{k}: {calls} applications, depth {depth}; documented '
                                   f'{2 * total - 2 - k} and {max(2 * k - 2, k)}: {case}', case)
                if method == 'Sklansky' and calls != (total // 2) * k:
                    part.violation('C32:accumulate:Sklansky:documented-complexity',
                                   f'n=2^{k}: {calls} applications; documented {(total // 2) * k}: {case}', case)
            if method == 'Brent-Kung' and calls > max(2 * total - 2, 0):
                part.violation('C32:accumulate:Brent-Kung:applications',
                               f'{calls} applications > 2n-2 = {2 * total - 2}: {case}', case)
            if calls < total - 1:
                raise AssertionError('fewer applications than a tree needs')
    if snapshot is not None and (len(orig) != len(snapshot) or any(a is not b for a, b in zip(orig, snapshot))):
        part.violation(f'C32:{cls}:input-mutated', f'the caller\'s list was modified: {case}', case)
    if len(part.samples) < 3 and n == 5 and container == 'generator' and initial == 'leaf':
        part.sample(dict(case=case, result=repr(got)[:300]))


# -- concrete monoids ------------------------------------------------------------------------

def _matmul(a, b):
    return ((a[0] * b[0] + a[1] * b[2]) % 7, (a[0] * b[1] + a[1] * b[3]) % 7,
            (a[2] * b[0] + a[3] * b[2]) % 7, (a[2] * b[1] + a[3] * b[3]) % 7)


def _compose(a, b):
    return tuple(a[i] for i in b)


CONCRETE = {
    'str-concat': (operator.add, lambda i: chr(97 + i % 26) * (1 + i % 2), 'Z'),
    'mat2x2-mod7': (_matmul, lambda i: (1 + i % 3, i % 7, (2 * i) % 5, 1 + i % 2), (2, 1, 1, 1)),
    'perm5': (_compose, lambda i: tuple((j * (1 + i % 4) + i) % 5 for j in range(5)), (1, 0, 2, 4, 3)),
    'left-zero': (lambda a, b: a, lambda i: i, -1),
    'right-zero': (lambda a, b: b, lambda i: i, -1),
    'max': (max, lambda i: (i * 37) % 23, 11),
    'int-add': (operator.add, lambda i: i * i - 7, 1000),
}


def concrete_cases(part, mpctools, lengths):
    for name, (f, elt, init) in CONCRETE.items():
        for n in lengths:
            xs = [elt(i) for i in range(n)]
            for kw in ({}, {'initial': init}):
                case = dict(fn='concrete', monoid=name, n=n, initial=bool(kw))
                part.case(key=None, nontrivial=n + len(kw) >= 2)
                if xs or kw:
                    want = functools.reduce(f, xs, *kw.values())
                    got = mpctools.reduce(f, iter(xs), **kw)
                    if got != want:
                        part.violation(f'C32:reduce:concrete:{name}', f'{got!r:.80} != functools.reduce '
                                       f'{want!r:.80} for {case}', case)
                want = list(itertools.accumulate(xs, f, **kw))
                for method in METHODS:
                    mkw = dict(kw, **({'method': method} if method else {}))
                    got = list(mpctools.accumulate(iter(xs), f, **mkw))
                    part.outcomes.add((name, n, bool(kw), hash(repr(got)) & 0xff))
                    if got != want:
                        part.violation(f'C32:accumulate:{method or "default"}:concrete:{name}',
                                       f'{got!r:.80} != itertools.accumulate {want!r:.80} for {case}', case)


def secure_cases(part, lengths):
    """Secure types in the 1-party runtime (synchronous), incl. the default f=operator.add."""
    from mpyc.runtime import mpc
    from mpyc import mpctools
    secint = mpc.SecInt(48)
    secfxp = mpc.SecFxp(32, 8)
    for n in lengths:
        vals = [(1, 2, -1, 1, 3)[i % 5] for i in range(n)]          # products stay small
        for tname, sectype, conv in (('SecInt', secint, int), ('SecFxp', secfxp, float)):
            for opname, op in (('add', operator.add), ('mul', operator.mul), ('default', None)):
                for kw in ({}, {'initial': 2}):
                    case = dict(fn='secure', type=tname, op=opname, n=n, initial=bool(kw))
                    part.case(key=None, nontrivial=n + len(kw) >= 2)
                    skw = {k: sectype(v) for k, v in kw.items()}
                    pyop = op or operator.add
                    want = [conv(v) for v in itertools.accumulate(vals, pyop, **kw)]
                    for method in METHODS:
                        mkw = dict(skw, **({'method': method} if method else {}))
                        xs = (sectype(v) for v in vals)
                        res = mpctools.accumulate(xs, **mkw) if op is None else mpctools.accumulate(xs, op, **mkw)
                        got = mpc.run(mpc.output(list(res)))
                        part.outcomes.add((tname, opname, n, bool(kw), hash(repr(got)) & 0xff))
                        if got != want:
                            part.violation(f'C32:accumulate:{method or "default"}:secure:{tname}',
                                           f'{got!r:.80} != itertools.accumulate {want!r:.80} for {case}', case)
                    if (vals or kw) and op is not None:
                        want_r = conv(functools.reduce(pyop, vals, *kw.values()))
                        got_r = mpc.run(mpc.output(mpctools.reduce(op, [sectype(v) for v in vals], **skw)))
                        if got_r != want_r:
                            part.violation(f'C32:reduce:secure:{tname}', f'{got_r!r} != functools.reduce '
                                           f'{want_r!r} for {case}', case)
                        if len(part.samples) < 5 and n == 6 and opname == 'mul' and kw:
                            part.sample(dict(case=case, reduce=got_r))


# -- driver ----------------------------------------------------------------------------------

def top(tier):
    return 130 if tier == "quick" else 520


def jobs(tier, seed):
    N = top(tier)
    k = 14
    js = []
    for no_prss in (False, True):
        for i in range(k):
            # under --no-prss only the default method behaves differently: run that alone
            js.append(dict(kind='free', lengths=list(range(N + 1))[i::k], no_prss=no_prss))
    js.append(dict(kind='concrete', lengths=list(range(0, 20 if tier == 'quick' else 40))))
    js.append(dict(kind='secure', lengths=list(range(0, 10 if tier == 'quick' else 18))))
    return js


def configure(no_prss):
    import sys
    from mpyc import runtime as rtmod
    from mpyc import mpctools
    sys.argv = ['verif', '--no-log'] + (['--no-prss'] if no_prss else [])
    rt = rtmod.setup()
    rtmod.mpc = rt
    if mpctools.runtime is not rt or bool(rt.options.no_prss) != no_prss:
        raise AssertionError('setup() did not configure mpctools.runtime as expected')
    return mpctools


def run_job(job):
    part = Part()
    if job['kind'] == 'free':
        mpctools = configure(job['no_prss'])
        for n in job['lengths']:
            for initial in INITIALS:
                for container in CONTAINERS:
                    if not job['no_prss']:
                        check_case(part, mpctools, 'reduce', None, n, initial, container, False)
                        for method in METHODS:
                            check_case(part, mpctools, 'accumulate', method, n, initial, container, False)
                    else:
                        check_case(part, mpctools, 'accumulate', None, n, initial, container, True)
        # an unknown method name is refused (recorded, not part of the property)
        try:
            list(mpctools.accumulate([1, 2], operator.add, method='sklansky'))
            part.note('unknown_method', {'accepted': 1})
        except Exception as exc:
            part.note('unknown_method', {type(exc).__name__: 1})
    elif job['kind'] == 'concrete':
        mpctools = configure(False)
        concrete_cases(part, mpctools, job['lengths'])
    else:
        configure(False)
        secure_cases(part, job['lengths'])
    return part


def replay(case):
    part = Part()
    if case['fn'] in ('reduce', 'accumulate'):
        mpctools = configure(bool(case.get('no_prss')))
        check_case(part, mpctools, case['fn'], case['method'], case['n'], case['initial'], case['container'],
                   bool(case.get('no_prss')))
    elif case['fn'] == 'concrete':
        mpctools = configure(False)
        concrete_cases(part, mpctools, [case['n']])
    else:
        configure(False)
        secure_cases(part, [case['n']])
    return part
