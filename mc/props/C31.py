"""C31 -- secure lists behave like Python lists under any operation history.

Explicit-state search: state = opened contents of the seclist; transitions = the operation
alphabet of mpyc.seclists.seclist with public, secret-number, unit-vector and secindex indices;
reference model = a plain Python list.  Three engines:

 * bfs  : breadth-first over operation histories from all lists over {0,1,2} of length 0..3, with
          de-duplication on the opened state; every state that is expanded is rebuilt from its
          opened contents and the COMPLETE alphabet (all admissible small arguments) is applied
          to it, on the real single-party synchronous runtime, and compared with the model;
 * live : ALL histories of depth <= 3 over a reduced alphabet, chained on the same live object
          (nothing is rebuilt between the operations), to catch stale-state bugs;
 * mp   : depth-2 histories over a reduced alphabet on 3 real parties (t=1, PRSS on/off) in the
          virtual world, on genuinely shared inputs; all parties must obtain the model's results.
"""

import operator
import itertools

from mc.core import Part, stable_hash

LEVEL = 'model_checking'
FRESH_PROCESS_PER_JOB = True
RULE = ('state = (element type, opened contents); initial states = all lists over {0,1,2} of length 0..3; transition = one '
        'operation of the alphabet [get/set/del/insert/pop with public int (incl. negative and out-of-range), secret number, '
        'unit-vector and secindex(offset) index at every position; append, extend, +, radd, *, rmul, +=, *= (incl. aliasing '
        'with itself), remove, count, contains, in, find, index, sort (reverse, key), reverse, copy, clear, public slices '
        'get/set/del, six comparisons with plain lists / seclists / reflected] applied to the real seclist and to a Python '
        'list; breadth-first to depth 3 (thorough 4) over lists of length <= cap (5 quick, 6 thorough for SecInt and, thorough, SecFld; one '
        'less for the other element types) with de-duplication on '
        'the opened state; the search closes (no new state) after 1 resp. 2 layers, i.e. ALL lists over {0,1,2} up to the cap are reached and '
        'every one of them is expanded. A state is rebuilt as seclist(contents): sound because a seclist IS a Python list of secure '
        'numbers plus the class-level sectype -- it has no other field (see seclist.__init__), and the live engine '
        'separately chains every depth<=3 history over a reduced alphabet on ONE object without rebuilding. BFS layers are '
        'computed in the model; since every transition from every expanded state is checked against the model, the '
        'implementation reaches exactly the same states unless a violation is reported. non-trivial = the operation '
        'involves a secure computation (secret index, comparison, search, sort)')
ASSUMPTIONS = ['secret indices are in range (documented precondition: 0 <= i < len(x), 0 <= i <= len(x) for insert)',
               'value alphabet {0,1,2}; element types SecInt(6), SecFxp(8,2) with integral values, SecFxp(8,2) with the '
               'fractional values {0, 0.75, 1.5} (mixed integral flags), SecFld(11) (no order comparisons / sort there)',
               'lists longer than the cap are not produced (operations that would exceed it are outside the domain)',
               '`v in x` is documented to raise NotImplementedError (use contains()); index()/remove() of an absent value '
               'raise ValueError as documented (checked on the synchronous single-party runtime only: with several parties '
               'the exception surfaces inside a task)',
               'find() of an absent value gives -1 (docstring); in SecFld(11) this is the field element -1',
               'exactness of the underlying secure arithmetic under extreme masks is C01; here masks are seeded, plus the all-zero / '
               'all-max patterns for the SecInt operations that draw randomness on lists of length <= 3 (thorough: <= 4)',
               'multi-party runs use the default eager schedule']
MANIFEST = dict(
    level=LEVEL,
    technique='explicit-state breadth-first search over operation histories of the real seclist against a Python list model, '
              'plus exhaustive live-object histories and 3-party executions',
    text='All lists over {0,1,2} up to the length cap are reached and expanded with the complete seclist alphabet (every index '
         'kind at every position, all small arguments); after every transition the opened contents, the public length, the '
         'type of the result, the result of every query and the exception class for out-of-range public indices equal '
         'Python list behaviour (find/index/remove/in as documented). Off-by-one in a unit-vector length, a step function, '
         'a shifted position, a wrong comparison or a stale object are hit deterministically.',
    ref='DESIGN 5/C31', note='trusted: Python list as the model, randomness seam, world model; masks seeded/zero/max only')

V = (0, 1, 2)
TNAMES = ('int', 'fxp', 'fxph', 'fld')
SCALE = {'int': 1, 'fxp': 1, 'fxph': 0.75, 'fld': 1}
FLD_P = 11
CMPS = ('lt', 'le', 'eq', 'ne', 'gt', 'ge')
SECRET = ('num', 'uv', 'si0', 'sio')          # secret index kinds (sio = secindex with offset = position)


def small_lists(maxlen):
    out = []
    for n in range(maxlen + 1):
        out.extend(itertools.product(V, repeat=n))
    return out


YS2 = [list(t) for t in small_lists(2)]
YS_SLICE = [[], [1], [2, 0]]


# ------------------------------------------------------------------------------------------
# reference model: a Python list
# ------------------------------------------------------------------------------------------

def model(state, op):
    """Apply op to a copy of state. Returns (new_state, result) | ('raises', name).
    result is a plain value; for list-valued results a list."""
    x = list(state)
    name = op[0]
    try:
        if name == 'len':
            return x, len(x)
        if name == 'get':
            return x, x[op[2]]
        if name == 'set':
            x[op[2]] = op[3]
            return x, None
        if name == 'del':
            del x[op[2]]
            return x, None
        if name == 'ins':
            x.insert(op[2], op[3])
            return x, None
        if name == 'pop0':
            r = x.pop()
            return x, r
        if name == 'pop':
            r = x.pop(op[2])
            return x, r
        if name == 'append':
            x.append(op[1])
            return x, None
        if name in ('extend', 'iadd'):
            x.extend(list(op[1]))
            return x, None
        if name == 'imul':
            x *= op[1]
            return x, None
        if name == 'add':
            return x + list(op[1]), None
        if name == 'radd':
            return list(op[1]) + x, None
        if name in ('mul', 'rmul'):
            return x * op[1], None
        if name == 'remove':
            x.remove(op[1])
            return x, None
        if name == 'count':
            return x, x.count(op[1])
        if name == 'contains':
            return x, int(op[1] in x)
        if name == 'in':
            return ('raises', 'NotImplementedError')       # documented: use contains()
        if name == 'find':
            return x, (x.index(op[1]) if op[1] in x else -1)
        if name == 'index':
            return x, x.index(op[1])
        if name == 'sort':
            x.sort(reverse=op[1], key=(lambda a: -a) if op[2] == 'neg' else None)
            return x, None
        if name == 'reverse':
            x.reverse()
            return x, None
        if name == 'copy':
            return x.copy(), None
        if name == 'clear':
            x.clear()
            return x, None
        if name == 'sget':
            return x, x[slice(op[1], op[2], op[3])]
        if name == 'sset':
            x[slice(op[1], op[2], None)] = list(op[3])
            return x, None
        if name == 'sdel':
            del x[slice(op[1], op[2], op[3])]
            return x, None
        if name == 'cmp':
            f = getattr(operator, op[1])
            if op[3] == 'rlist':
                return x, int(f(list(op[2]), x))
            return x, int(f(x, list(op[2])))
    except (IndexError, ValueError) as exc:
        return ('raises', type(exc).__name__)
    raise KeyError(op)


MUTATING = ('set', 'del', 'ins', 'pop0', 'pop', 'append', 'extend', 'iadd', 'imul', 'remove', 'sort', 'reverse', 'clear', 'sset', 'sdel')
NEWOBJ = ('add', 'radd', 'mul', 'rmul', 'copy')       # the result object becomes the state


def secure_work(op):
    n = op[0]
    if n in ('get', 'set', 'del', 'ins', 'pop'):
        return op[1] != 'pub'
    return n in ('remove', 'count', 'contains', 'find', 'index', 'sort', 'cmp')


def alphabet(state, cap, tname, tier):
    """All operations (with all admissible small arguments) for a state."""
    n = len(state)
    ops = [('len',)]
    for i in range(-n - 1, n + 1):
        ops.append(('get', 'pub', i))
        ops.append(('del', 'pub', i))
        ops.append(('pop', 'pub', i))
        for v in V:
            ops.append(('set', 'pub', i, v, 'p' if (i + v) % 2 else 's'))
    for k in SECRET:
        for i in range(n):
            if k == 'sio' and i == 0:
                continue                       # same as si0
            ops.append(('get', k, i))
            ops.append(('del', k, i))
            ops.append(('pop', k, i))
            for v in V:
                ops.append(('set', k, i, v, 'p'))
                if k == 'num' or tier == 'thorough':
                    ops.append(('set', k, i, v, 's'))
    ops.append(('pop0',))
    if n < cap:
        for v in V:
            for i in range(-n - 2, n + 3):
                ops.append(('ins', 'pub', i, v, 'p' if (i + v) % 2 else 's'))
            for k in SECRET:
                for i in range(n + 1):
                    if k == 'sio' and i == 0:
                        continue
                    ops.append(('ins', k, i, v, 'p'))
                    if k == 'uv' or tier == 'thorough':
                        ops.append(('ins', k, i, v, 's'))
            ops.append(('append', v, 'p'))
            ops.append(('append', v, 's'))
    for ys in YS2:
        if n + len(ys) <= cap:
            for yf in ('list', 'tuple', 'seclist'):
                ops.append(('extend', ys, yf))
            ops.append(('iadd', ys, 'list'))
            ops.append(('iadd', ys, 'seclist'))
            ops.append(('add', ys, 'list'))
            ops.append(('add', ys, 'seclist'))
            ops.append(('radd', ys))
    if 2 * n <= cap:
        for nm in ('extend', 'iadd', 'add'):
            ops.append((nm, list(state), 'self'))
    for k in (-1, 0, 1, 2, 3):
        if n * max(k, 0) <= cap:
            ops.append(('imul', k))
            ops.append(('mul', k))
            ops.append(('rmul', k))
    for v in V + (3,):
        for vf in ('p', 's'):
            ops.append(('remove', v, vf))
            ops.append(('count', v, vf))
            ops.append(('contains', v, vf))
            ops.append(('find', v, vf))
            ops.append(('index', v, vf))
        ops.append(('in', v))
    if tname != 'fld':
        ops += [('sort', False, None), ('sort', True, None), ('sort', False, 'neg'), ('sort', True, 'neg')]
    ops += [('reverse',), ('copy',), ('clear',)]
    bounds = [None] + list(range(-2, n + 2))
    for a in bounds:
        for b in bounds:
            ops.append(('sget', a, b, None))
            ops.append(('sdel', a, b, None))
            for ys in YS_SLICE:
                m = list(state)
                m[slice(a, b)] = ys
                if len(m) <= cap:
                    ops.append(('sset', a, b, ys, ('list', 'seclist', 'tuple')[(len(ys) + (a or 0)) % 3]))
    for st in (2, -1, -2):
        ops.append(('sget', None, None, st))
        ops.append(('sget', 1, None, st))
        ops.append(('sdel', None, None, st))
    # comparisons: partners = all short lists, and the neighbours of the state itself
    partners = [list(t) for t in small_lists(2)]
    s = list(state)
    near = [s, s[:-1], s[1:]] + [s + [v] for v in V]
    for j in range(n):
        for v in V:
            if v != s[j]:
                near.append(s[:j] + [v] + s[j + 1:])
    for p in near:
        if p not in partners:
            partners.append(p)
    cmps = CMPS if tname != 'fld' else ('eq', 'ne')
    for c in cmps:
        ops.append(('cmp', c, s, 'self'))
        for j, p in enumerate(partners):
            ops.append(('cmp', c, p, 'seclist'))
            if tier == 'thorough' or (j + len(c)) % 2 == 0 or len(p) == 0:
                ops.append(('cmp', c, p, 'list'))
            if tier == 'thorough' or (j + len(c)) % 2 == 1 or len(p) == 0:
                ops.append(('cmp', c, p, 'rlist'))
    return ops


def successors(state, cap):
    """Model-only successor states (for the BFS layering)."""
    out = set()
    for op in alphabet(state, cap, 'int', 'quick'):
        if op[0] in MUTATING or op[0] in NEWOBJ:
            r = model(state, op)
            if r[0] != 'raises':
                out.add(tuple(r[0]))
    return out


def bfs_layers(cap, depth):
    """depth of every state reachable within `depth` steps from the initial states."""
    seen = {s: 0 for s in small_lists(3)}
    frontier = list(seen)
    for d in range(1, depth + 1):
        nxt = []
        for s in frontier:
            for s2 in successors(s, cap):
                if s2 not in seen:
                    seen[s2] = d
                    nxt.append(s2)
        frontier = nxt
        if not frontier:
            break
    return seen


# ------------------------------------------------------------------------------------------
# the real thing
# ------------------------------------------------------------------------------------------

class Env:
    def __init__(self, mpc, tname, sec=None):
        self.mpc, self.tname = mpc, tname
        if tname == 'int':
            self.T = mpc.SecInt(6)
        elif tname in ('fxp', 'fxph'):
            self.T = mpc.SecFxp(8, 2)
        else:
            self.T = mpc.SecFld(FLD_P)
        self.seclist = mpc.seclist
        self.secindex = mpc.seclist.__init__.__globals__['secindex']
        self.scale = SCALE[tname]
        self.sec = sec or self.T            # plain number -> secure number
        self.args = []                      # (argument object, its plain content when made): must be unchanged afterwards

    def conc(self, v):
        return v * self.scale if self.scale != 1 else v

    def val(self, v, vf):
        c = self.conc(v)
        return self.sec(c) if vf == 's' else c

    def index(self, kind, i, length):
        if kind == 'pub':
            return i
        if kind == 'num':
            return self.sec(i)
        uv = [self.sec(int(j == i)) for j in range(length)]
        if kind == 'uv':
            self.args.append((uv, list(uv), [int(j == i) for j in range(length)]))
            return uv
        off = 0 if kind == 'si0' else i
        return self.secindex(uv[off:], offset=off)

    def seq(self, ys, yf, x=None):
        if yf == 'self':
            return x
        if yf == 'list':
            r = [self.conc(v) for v in ys]
            self.args.append((r, list(r), None))
            return r
        if yf == 'tuple':
            return tuple(self.conc(v) for v in ys)
        return self.seclist([self.sec(self.conc(v)) for v in ys], self.T)

    def build(self, state):
        return self.seclist([self.conc(v) for v in state], self.T)


class _Names:
    """What judge() needs of an Env when the real objects live inside the parties."""

    def __init__(self, tname):
        self.tname = tname


def apply_real(E, x, op):
    """Apply op to seclist x.  Returns (x_after, raw result, result kind) with kind in
    'none' | 'elem' | 'num' | 'plain' | 'list' | 'await'."""
    name = op[0]
    n = len(x)
    if name == 'len':
        return x, len(x), 'plain'
    if name == 'get':
        return x, x[E.index(op[1], op[2], n)], 'elem'
    if name == 'set':
        x[E.index(op[1], op[2], n)] = E.val(op[3], op[4])
        return x, None, 'none'
    if name == 'del':
        del x[E.index(op[1], op[2], n)]
        return x, None, 'none'
    if name == 'ins':
        r = x.insert(E.index(op[1], op[2], n + 1), E.val(op[3], op[4]))
        return x, r, 'none'
    if name == 'pop0':
        return x, x.pop(), 'elem'
    if name == 'pop':
        return x, x.pop(E.index(op[1], op[2], n)), 'elem'
    if name == 'append':
        return x, x.append(E.val(op[1], op[2])), 'none'
    if name == 'extend':
        return x, x.extend(E.seq(op[1], op[2], x)), 'none'
    if name == 'iadd':
        y = x
        y += E.seq(op[1], op[2], x)
        return y, None, 'none'
    if name == 'imul':
        y = x
        y *= op[1]
        return y, None, 'none'
    if name == 'add':
        return x + E.seq(op[1], op[2], x), None, 'none'
    if name == 'radd':
        return E.seq(op[1], 'list') + x, None, 'none'
    if name == 'mul':
        return x * op[1], None, 'none'
    if name == 'rmul':
        return op[1] * x, None, 'none'
    if name == 'remove':
        return x, x.remove(E.val(op[1], op[2])), 'await'
    if name == 'count':
        return x, x.count(E.val(op[1], op[2])), 'num'
    if name == 'contains':
        return x, x.contains(E.val(op[1], op[2])), 'num'
    if name == 'in':
        return x, (E.conc(op[1]) in x), 'plain'
    if name == 'find':
        return x, x.find(E.val(op[1], op[2])), 'num'
    if name == 'index':
        return x, x.index(E.val(op[1], op[2])), 'num'
    if name == 'sort':
        if op[2] == 'neg':
            return x, x.sort(key=lambda a: -a, reverse=op[1]), 'none'
        return x, (x.sort(reverse=True) if op[1] else x.sort()), 'none'
    if name == 'reverse':
        return x, x.reverse(), 'none'
    if name == 'copy':
        return x.copy(), None, 'none'
    if name == 'clear':
        return x, x.clear(), 'none'
    if name == 'sget':
        return x, x[slice(op[1], op[2], op[3])], 'list'
    if name == 'sset':
        x[slice(op[1], op[2], None)] = E.seq(op[3], op[4])
        return x, None, 'none'
    if name == 'sdel':
        del x[slice(op[1], op[2], op[3])]
        return x, None, 'none'
    if name == 'cmp':
        f = getattr(operator, op[1])
        if op[3] == 'rlist':
            return x, f(E.seq(op[2], 'list'), x), 'num'
        return x, f(x, E.seq(op[2], op[3], x)), 'num'
    raise KeyError(op)


def plain_elem(E, v):
    """Opened list element -> abstract value of the model."""
    if E.tname == 'fld':
        return int(v)
    if E.scale != 1:
        q = v / E.scale
        return int(q) if q == int(q) else q
    return int(v) if v == int(v) else v


def plain_num(E, v):
    return int(v) if v == int(v) else v


def want_num(E, w):
    return w % FLD_P if E.tname == 'fld' else w


def pos_class(op, n):
    """Input class of an index for violation keys."""
    if op[0] not in ('get', 'set', 'del', 'ins', 'pop'):
        return ''
    i = op[2]
    top = n if op[0] == 'ins' else n - 1
    if op[1] == 'pub':
        if i < -n or i > top:
            return ':out-of-range'
        if i < 0:
            return ':negative'
    if i in (0, -n):
        return ':first' if top > 0 else ':only'
    if i == top or i == -1:
        return ':last'
    return ':middle'


def op_site(op):
    name = op[0]
    if name in ('get', 'set', 'del', 'ins', 'pop'):
        return f'{name}:{op[1]}'
    if name in ('extend', 'iadd', 'add'):
        return f'{name}:{op[2]}'
    if name == 'sset':
        return f'sset:{op[4]}'
    if name in ('remove', 'count', 'contains', 'find', 'index'):
        return f'{name}:{"secure" if op[2] == "s" else "plain"}-value'
    if name == 'sort':
        return 'sort' + (':reverse' if op[1] else '') + (':key' if op[2] else '')
    if name == 'cmp':
        return f'cmp:{op[1]}:{op[3]}'
    if name in ('sget', 'sdel') and op[3] is not None:
        return f'{name}:step'
    return name


def input_class(op, state, mres):
    """Class of the input for the violation key (beyond the call site)."""
    n = len(state)
    c = pos_class(op, n)
    if op[0] in ('remove', 'count', 'contains', 'find', 'index'):
        k = list(state).count(op[1])
        c = ':absent' if k == 0 else ':present' if k == 1 else ':duplicates'
        if n == 0:
            c = ':empty'
    elif op[0] == 'cmp':
        ln = len(op[2])
        c = ':shorter' if ln < n else ':longer' if ln > n else ':same-length'
        if n == 0 or ln == 0:
            c = ':empty'
    elif op[0] in ('sort',):
        c = ':len%d' % min(n, 3)
    return c


# ------------------------------------------------------------------------------------------
# single-party checking of one transition
# ------------------------------------------------------------------------------------------

def sp_open(E, raw, kind):
    from mc import sp
    if kind == 'await':
        if raw is not None and hasattr(raw, 'result'):
            raw = raw.result()
        return raw
    if kind == 'elem':
        if isinstance(raw, (int, float)):
            return raw
        return plain_elem(E, sp.opened(E.mpc, raw))
    if kind == 'num':
        if isinstance(raw, (int, bool)):
            return int(raw)              # e.g. seclist([]) == [] is the public value 1
        return plain_num(E, sp.opened(E.mpc, raw))
    if kind == 'list':
        if not isinstance(raw, E.seclist) or raw.sectype is not E.T:
            return ('not-a-seclist', type(raw).__name__)
        return [plain_elem(E, v) for v in sp.opened(E.mpc, list(raw))] if len(raw) else []
    return raw


def sp_contents(E, x):
    from mc import sp
    if not len(x):
        return []
    return [plain_elem(E, v) for v in sp.opened(E.mpc, list(x))]


def judge(part, E, cfg, state, op, got, mres, detail):
    """got = ('raises', name) | (contents, length, result, typeok, same_object, old_contents)."""
    site = op_site(op)
    icls = input_class(op, state, mres)
    base = f'C31:{E.tname}:{site}{icls}'
    if mres[0] == 'raises':
        if got[0] != 'raises':
            part.violation(base + ':no-exception', f'[{cfg}] {list(state)} {op}: Python list raises {mres[1]}, seclist gives {got!r:.120}', detail)
        elif got[1] != mres[1]:
            part.violation(base + ':exception-type', f'[{cfg}] {list(state)} {op}: Python list raises {mres[1]}, seclist raises {got[1]}: {got[2]:.100}', detail)
        return
    if got[0] == 'raises':
        part.violation(base + ':exception', f'[{cfg}] {list(state)} {op}: seclist raises {got[1]}: {got[2]:.160}; Python list gives {mres!r:.100}', detail)
        return
    contents, length, result, typeok, same, old = got
    mstate, mresult = mres
    if contents != list(mstate):
        part.violation(base + ':contents', f'[{cfg}] {list(state)} {op}: seclist becomes {contents}, Python list {list(mstate)}', detail)
    if length != len(mstate):
        part.violation(base + ':length', f'[{cfg}] {list(state)} {op}: len(seclist) = {length}, Python list has {len(mstate)}', detail)
    if not typeok:
        part.violation(base + ':type', f'[{cfg}] {list(state)} {op}: result object is not a seclist of the same sectype', detail)
    if op[0] in MUTATING and not same:
        part.violation(base + ':identity', f'[{cfg}] {list(state)} {op}: in-place operation returned another object', detail)
    if op[0] in NEWOBJ:
        if same:
            part.violation(base + ':aliased', f'[{cfg}] {list(state)} {op}: the result is the operand itself, not a new list', detail)
        if old != list(state):
            part.violation(base + ':operand-changed', f'[{cfg}] {list(state)} {op}: operand became {old}', detail)
    want = mresult
    if op[0] in ('count', 'contains', 'find', 'index', 'cmp'):
        want = want_num(E, mresult) if op[0] in ('find',) else mresult
    if op[0] in ('get', 'pop0', 'pop', 'count', 'contains', 'find', 'index', 'cmp', 'sget', 'len'):
        if result != want:
            part.violation(base + ':result', f'[{cfg}] {list(state)} {op}: seclist gives {result!r}, Python list {want!r}', detail)


def run_one_sp(E, seam, state, op, mode, seed, x=None):
    """Evaluate op on a (fresh unless given) seclist; returns (got, x_after)."""
    seam.begin(mode, seed, None)
    if x is None:
        x = E.build(state)
    del E.args[:]
    try:
        y, raw, kind = apply_real(E, x, op)
        result = sp_open(E, raw, kind)
    except Exception as exc:
        return ('raises', type(exc).__name__, repr(exc)), x
    for obj, items, plain in E.args:
        # an index given as a list of secure numbers (unit vector), or a plain list operand, belongs to the caller
        if len(obj) != len(items) or any(a is not b for a, b in zip(obj, items)) or \
                (plain is not None and [int(sp_open(E, a, 'num')) for a in obj] != plain):
            return ('raises', 'ArgumentChanged', f'the caller\'s {"unit-vector index" if plain is not None else "list operand"} was modified by the operation'), x
    typeok = isinstance(y, E.seclist) and y.sectype is E.T
    contents = sp_contents(E, y)
    old = sp_contents(E, x) if op[0] in NEWOBJ else None
    return (contents, len(y), result, typeok, y is x, old), y


def run_bfs(job):
    from mc import sp
    part = Part()
    part.state_keys = set()
    tname, cap, depth = job['tname'], job['cap'], job['depth']
    mpc, seam = sp.setup(sec_param=job['k'], no_prss=True)
    E = Env(mpc, tname)
    cfg = f'sp/{tname}/k{job["k"]}'
    layer_count = {}
    for state, d in job['states']:
        state = tuple(state)
        part.state_keys.add(stable_hash((tname, state)))
        layer_count[d] = layer_count.get(d, 0) + 1
        # every state: the invariant "opened contents == model, length public and right" on the rebuilt object
        got, _ = run_one_sp(E, seam, state, ('len',), 'seeded', job['seed'])
        judge(part, E, cfg, state, ('len',), got, model(state, ('len',)), dict(engine='bfs', tname=tname, k=job['k'], state=list(state), op=['len'], mode='seeded', seed=job['seed']))
        part.case(key=None, nontrivial=False)
        if d >= depth:
            continue                    # last layer: reached and checked, not expanded
        for op in alphabet(state, cap, tname, job['tier']):
            mres = model(state, op)
            modes = ('seeded', 'zero', 'max') if (secure_work(op) and job['masks'] and len(state) <= job['masks']) else ('seeded',)
            for mode in modes:
                got, _ = run_one_sp(E, seam, state, op, mode, job['seed'])
                detail = dict(engine='bfs', tname=tname, k=job['k'], state=list(state), op=list(op), mode=mode, seed=job['seed'])
                judge(part, E, cfg, state, op, got, mres, detail)
                part.case(key=None, nontrivial=secure_work(op))
                part.transitions += 1
                part.outcomes.add(stable_hash((op[0], repr(got[:3]))) & 0xfffff)
            if len(part.samples) < 2 and op[0] in ('ins', 'del') and op[1] in ('num', 'uv') and len(state) >= 2 and got[0] != 'raises':
                part.sample(dict(config=cfg, state=list(state), op=list(op), after=got[0], model=mres[0]))
    part.note('bfs_states_by_depth', {f'{tname}:d{d}': c for d, c in layer_count.items()})
    return part


# ------------------------------------------------------------------------------------------
# live histories: chained on the same object
# ------------------------------------------------------------------------------------------

def rel_ops(tier):
    """Reduced alphabet of position-relative operations; each resolves against the current state."""
    R = [
        ('set', 'num', 'last', 1), ('set', 'uv', 'first', 2), ('del', 'num', 'first'), ('del', 'uv', 'last'),
        ('ins', 'num', 'end', 1), ('ins', 'uv', 'first', 2), ('pop', 'num', 'last'), ('pop', 'uv', 'first'),
        ('append', 2), ('iadd', [0, 1]), ('imul', 2), ('remove-first',), ('sort', False), ('sort', True),
        ('sset', 1, 2, [2, 2]), ('sdel', None, 1),
    ]
    if tier == 'thorough':
        R += [('set', 'pub', 'last', 0), ('del', 'pub', 'mid'), ('ins', 'sio', 'mid', 0), ('pop0',), ('extend', [1]),
              ('add', [2]), ('reverse',), ('imul', 0), ('copy',), ('del', 'si0', 'mid'), ('remove', 1)]
    return R


def resolve(rel, state, cap):
    n = len(state)

    def pos(p, top):
        if top < 0:
            return None
        return {'first': 0, 'last': top, 'mid': (top + 1) // 2, 'end': top}[p]
    name = rel[0]
    if name in ('set', 'del', 'pop'):
        i = pos(rel[2], n - 1)
        if i is None:
            return None
        if rel[1] == 'pub' and rel[2] == 'last':
            i = -1
        return (name, rel[1], i) + ((rel[3], 'p') if name == 'set' else ())
    if name == 'ins':
        if n >= cap:
            return None
        i = n if rel[2] == 'end' else pos(rel[2], n)
        if rel[1] == 'sio' and i == 0:
            return ('ins', 'si0', 0, rel[3], 'p')
        return ('ins', rel[1], i, rel[3], 's')
    if name == 'append':
        return ('append', rel[1], 'p') if n < cap else None
    if name in ('iadd', 'extend', 'add'):
        return (name, rel[1], 'seclist' if name == 'iadd' else 'list') if n + len(rel[1]) <= cap else None
    if name == 'imul':
        return ('imul', rel[1]) if n * rel[1] <= cap else None
    if name == 'remove-first':
        return ('remove', state[0], 'p') if n else None
    if name == 'remove':
        return ('remove', rel[1], 's') if rel[1] in state else None
    if name == 'sort':
        return ('sort', rel[1], None)
    if name == 'sset':
        m = list(state)
        m[rel[1]:rel[2]] = rel[3]
        return ('sset', rel[1], rel[2], rel[3], 'list') if len(m) <= cap else None
    if name == 'sdel':
        return ('sdel', rel[1], rel[2], None)
    if name == 'pop0':
        return ('pop0',) if n else None
    return tuple(rel)


def live_histories(init, rels, depth, cap):
    """All histories (lists of concrete ops) of length 1..depth from init (maximal ones and their prefixes are replayed together)."""
    out = []

    def rec(state, hist):
        ext = False
        if len(hist) < depth:
            for rel in rels:
                op = resolve(rel, state, cap)
                if op is None:
                    continue
                r = model(state, op)
                if r[0] == 'raises':
                    continue
                ext = True
                rec(tuple(r[0]), hist + [op])
        if not ext and hist:
            out.append(hist)
    rec(tuple(init), [])
    return out


LIVE_CAP = 8


def run_live(job):
    from mc import sp
    part = Part()
    part.state_keys = set()
    tname = job['tname']
    mpc, seam = sp.setup(sec_param=job['k'], no_prss=True)
    E = Env(mpc, tname)
    cfg = f'live/{tname}/k{job["k"]}'
    rels = rel_ops(job['tier'])
    if tname == 'fld':
        rels = [r for r in rels if r[0] != 'sort']
    for init in job['inits']:
        hists = live_histories(init, rels, job['depth'], LIVE_CAP)
        for h in hists[job['part']::job['parts']]:
            detail = dict(engine='live', tname=tname, k=job['k'], init=list(init), hist=[list(o) for o in h], seed=job['seed'])
            check_live(part, E, seam, cfg, init, h, job['seed'], detail)
    return part


def check_live(part, E, seam, cfg, init, hist, seed, detail):
    seam.begin('seeded', seed, None)
    x = E.build(init)
    state = tuple(init)
    part.traces += 1
    for step, op in enumerate(hist):
        mres = model(state, op)
        try:
            y, raw, kind = apply_real(E, x, op)
            result = sp_open(E, raw, kind)
            got = (sp_contents(E, y), len(y), result, isinstance(y, E.seclist) and y.sectype is E.T, y is x, None)
            if op[0] in NEWOBJ:
                got = got[:5] + (sp_contents(E, x),)
        except Exception as exc:
            got = ('raises', type(exc).__name__, repr(exc))
            y = x
        part.case(key=None, nontrivial=secure_work(op))
        part.transitions += 1
        part.outcomes.add(stable_hash((op[0], repr(got[:2]))) & 0xfffff)
        nv = len(part.violations)
        cnt = sum(v['count'] for v in part.violations)
        judge(part, E, cfg + f'/step{step + 1}of{len(hist)}', state, op, got, mres, detail)
        if sum(v['count'] for v in part.violations) != cnt:
            for v in part.violations[nv:]:
                v['what'] += f' (live history from {list(init)}: {hist[:step + 1]})'
            return
        x = y
        state = tuple(mres[0])
        if part.state_keys is not None:
            part.state_keys.add(stable_hash((E.tname, state)))
    # queries on the object at the end of the history
    for q in (('find', 1, 'p'), ('count', 2, 's')):
        mres = model(state, q)
        try:
            _, raw, kind = apply_real(E, x, q)
            got = (sp_contents(E, x), len(x), sp_open(E, raw, kind), True, True, None)
        except Exception as exc:
            got = ('raises', type(exc).__name__, repr(exc))
        part.case(key=None, nontrivial=True)
        judge(part, E, cfg + '/end', state, q, got, mres, detail)
    if len(part.samples) < 1 and len(hist) == 3:
        part.sample(dict(config=cfg, initial=list(init), history=[list(o) for o in hist], final_state=list(state)))


# ------------------------------------------------------------------------------------------
# multi-party: depth-2 histories on m=3, t=1
# ------------------------------------------------------------------------------------------

MP_RELS = [('set', 'num', 'last', 1), ('set', 'uv', 'first', 2), ('del', 'num', 'first'), ('del', 'uv', 'last'), ('del', 'sio', 'mid'),
           ('ins', 'num', 'end', 1), ('ins', 'uv', 'first', 2), ('ins', 'sio', 'mid', 0), ('pop', 'num', 'last'), ('pop', 'uv', 'first'),
           ('append', 2), ('iadd', [0, 1]), ('imul', 2), ('remove-first',), ('sort', False), ('sort', True), ('sset', 1, 2, [2, 2]),
           ('get', 'num', 'mid'), ('get', 'uv', 'last'), ('find', 1, 's'), ('find', 2, 'p'), ('count', 0, 's'), ('contains', 2, 'p'),
           ('index-first',), ('cmp', 'lt', [1, 1], 'list'), ('cmp', 'ge', [1], 'seclist'), ('cmp', 'eq', None, 'self'), ('cmp', 'le', [0, 2, 2], 'rlist'),
           ('pop', 'pub', 'first'), ('get', 'pub', 'oob')]


def mp_resolve(rel, state, cap):
    n = len(state)
    if rel[0] == 'get':
        if rel[2] == 'oob':
            return ('get', 'pub', n)
        if not n:
            return None
        return ('get', rel[1], {'mid': n // 2, 'last': n - 1}[rel[2]])
    if rel[0] in ('find', 'count', 'contains'):
        return tuple(rel)
    if rel[0] == 'index-first':
        return ('index', state[-1], 's') if n else None
    if rel[0] == 'cmp':
        return ('cmp', rel[1], list(state) if rel[3] == 'self' else rel[2], rel[3])
    if rel[0] == 'pop' and rel[1] == 'pub':
        return ('pop', 'pub', 0) if n else None
    return resolve(rel, state, cap)


def mp_histories(tname, tier):
    inits = [(), (1,), (0, 2), (2, 2), (1, 0, 2), (2, 1, 1)] if tier == 'quick' else small_lists(2) + [(1, 0, 2), (2, 1, 1), (0, 0, 0), (2, 1, 0)]
    rels = [r for r in MP_RELS if not (tname == 'fld' and (r[0] == 'sort' or (r[0] == 'cmp' and r[1] not in ('eq', 'ne'))))]
    out = []
    for init in inits:
        for r1 in rels:
            o1 = mp_resolve(r1, init, LIVE_CAP)
            if o1 is None:
                continue
            m1 = model(init, o1)
            s1 = tuple(init) if m1[0] == 'raises' else tuple(m1[0])
            if o1[0] not in MUTATING and o1[0] not in NEWOBJ:
                out.append((list(init), [o1]))          # a query: depth-1 history, and as second step below
                continue
            for r2 in rels:
                o2 = mp_resolve(r2, s1, LIVE_CAP)
                if o2 is None:
                    continue
                out.append((list(init), [o1, o2]))
    return out


def make_program(tname):
    async def program(mpc, ctx):
        import asyncio
        await mpc.start()
        m = len(mpc.parties)
        res = []
        for idx, (init, hist) in enumerate(ctx['cases']):
            sender = idx % m
            E = Env(mpc, tname)
            T = E.T
            E.sec = lambda c, T=T, sender=sender: mpc.input(T(c), senders=sender)     # genuinely shared inputs
            x = E.seclist([E.sec(E.conc(v)) for v in init], T)
            out = []
            for op in hist:
                try:
                    y, raw, kind = apply_real(E, x, op)
                    if kind == 'await':
                        if raw is not None:
                            await raw
                        r = None
                    elif kind in ('elem', 'num'):
                        r = raw if isinstance(raw, (int, bool, float)) else await mpc.output(raw)
                        r = plain_elem(E, r) if kind == 'elem' else plain_num(E, r)
                    else:
                        r = raw
                    contents = [plain_elem(E, v) for v in await mpc.output(list(y))] if len(y) else []
                    out.append([contents, len(y), r, isinstance(y, E.seclist) and y.sectype is T, y is x, None])
                    x = y
                except Exception as exc:
                    out.append(['raises', type(exc).__name__, repr(exc)])
            res.append(out)
            if idx % 6 == 5:
                await mpc.barrier()
        ctx['results'] = res
        await mpc.shutdown()
    return program


def run_mp(job):
    from mc import exact
    from mc.explorer import run_execution
    part = Part()
    part.state_keys = set()
    m, t, no_prss, tname = job['m'], job['t'], job['no_prss'], job['tname']
    k = exact.sec_param_for(m, t, 4)
    world = exact.make_world(m, t, no_prss, k)
    seams = world.script_seams
    cases = mp_histories(tname, job['tier'])
    mine = cases[job['part']::job['parts']]
    if 'only' in job:
        mine = [cases[job['only']]]
    cfg = f"mp/{tname}/m{m}t{t}{'-noprss' if no_prss else ''}/k{k}"
    program = make_program(tname)
    batch = 24
    E = _Names(tname)
    for lo in range(0, len(mine), batch):
        chunk = mine[lo:lo + batch]
        for pat in job['patterns']:
            ctxs = []

            def setup(w):
                ctxs.clear()
                w.mask_pattern = pat
                w.pattern_budget = 400 * len(chunk)
                w.pattern_decisions = {}
                for i, s in enumerate(seams):
                    s.begin(pat, job['seed'] * 100 + i, None)
                for p in range(m):
                    ctxs.append(dict(cases=chunk))
                    w.spawn(p, program, ctxs[p])
            for i, s in enumerate(seams):
                s.begin(pat, job['seed'] * 100 + i, None)
            xres = run_execution(world, setup, (), 'eager', 'none', sched_alts=False)
            if xres.status != 'done' or any('results' not in c for c in ctxs):
                part.violation(f'C31:{tname}:mp:incomplete', f'[{cfg}] batch starting with {chunk[0]} ends {xres.status}: {world.loop_errors!r:.300}',
                               dict(engine='mp', job={**job, 'patterns': [pat]}, lo=lo))
                continue
            for ci, (init, hist) in enumerate(chunk):
                gots = [c['results'][ci] for c in ctxs]
                idx_all = cases.index((init, hist)) if 'only' not in job else job['only']
                detail = dict(engine='mp', job={k2: v for k2, v in job.items() if k2 != 'only'}, only=idx_all, pat=pat)
                part.traces += 1
                if any(repr(g) != repr(gots[0]) for g in gots):
                    part.violation(f'C31:{tname}:mp:parties-differ', f'[{cfg}] {init} {hist}: parties obtained {gots!r:.300}', detail)
                    continue
                state = tuple(init)
                for step, op in enumerate(hist):
                    op = tuple(op)
                    mres = model(state, op)
                    g = gots[0][step]
                    got = tuple(g) if g[0] != 'raises' else ('raises', g[1], g[2])
                    part.case(key=None, nontrivial=True)
                    part.transitions += 1
                    part.outcomes.add(stable_hash((op[0], repr(got[:3]))) & 0xfffff)
                    if op[0] in NEWOBJ and got[0] != 'raises':
                        got = got[:5] + (list(state),)
                    judge(part, E, cfg + f'/{pat}', state, op, got, mres, detail)
                    if mres[0] != 'raises':
                        state = tuple(mres[0])
                    part.state_keys.add(stable_hash((tname, state)))
                if len(part.samples) < 1 and len(hist) == 2 and ci == 5:
                    part.sample(dict(config=cfg, initial=init, history=hist, per_party=[repr(g)[:160] for g in gots]))
    return part


# ------------------------------------------------------------------------------------------
# jobs
# ------------------------------------------------------------------------------------------

def jobs(tier, seed):
    out = []
    quick = tier == 'quick'
    cap, depth = (5, 3) if quick else (6, 4)
    layers = bfs_layers(cap, depth)
    states = sorted(layers.items(), key=lambda kv: (-len(kv[0]), kv[0]))
    for tname in TNAMES:
        # the main type (int) and the field type get the full cap; the fixed-point variants one less
        cap_t = cap if tname in ('int', 'fld') and not (quick and tname == 'fld') else cap - 1
        sts = [(list(s), d) for s, d in states if len(s) <= cap_t]
        nparts = {'int': 16, 'fxph': 6, 'fxp': 4, 'fld': 2}[tname] if quick else {'int': 20, 'fxph': 4, 'fxp': 4, 'fld': 4}[tname]
        for p in range(nparts):
            # masks = up to which list length the all-zero / all-max mask patterns are run as well (0: seeded only)
            out.append(dict(engine='bfs', tname=tname, cap=cap_t, depth=depth, k=4, tier=tier, seed=seed, states=sts[p::nparts],
                            masks=(3 if quick else 4) if tname == 'int' else 0))
    inits_all = small_lists(3)
    inits_q = small_lists(2) + [(0, 1, 2), (2, 2, 1), (1, 0, 1)]
    for tname in (('int',) if quick else ('int', 'fxph', 'fld')):
        full = not quick and tname == 'int'            # thorough: all 40 initial lists x 27 operations for int
        inits = inits_all if full else inits_q
        nparts = 16 if quick else 12 if full else 3
        for p in range(nparts):
            out.append(dict(engine='live', tname=tname, depth=3, k=4, tier='thorough' if full else 'quick', seed=seed,
                            inits=[list(i) for i in inits], part=p, parts=nparts))
    for tname in (('int',) if quick else ('int', 'fxph', 'fld')):
        for no_prss in (False, True):
            nparts = 6 if quick else 4 if tname == 'int' else 2
            for p in range(nparts):
                out.append(dict(engine='mp', m=3, t=1, no_prss=no_prss, tname=tname, tier=tier, seed=seed, part=p, parts=nparts,
                                patterns=['seeded', 'max'] if (not quick and tname == 'int') else ['seeded']))
    out.sort(key=lambda j: {'mp': 0, 'bfs': 1, 'live': 2}[j['engine']])
    return out


def run_job(job):
    if job['engine'] == 'bfs':
        return run_bfs(job)
    if job['engine'] == 'live':
        return run_live(job)
    return run_mp(job)


def replay(case):
    from mc import sp
    part = Part()
    if case['engine'] == 'mp':
        job = dict(case['job'])
        job['only'] = case['only']
        job['patterns'] = [case['pat']]
        return run_mp(job)
    mpc, seam = sp.setup(sec_param=case['k'], no_prss=True)
    E = Env(mpc, case['tname'])

    def tup(o):
        return tuple(o)
    if case['engine'] == 'bfs':
        state, op = tuple(case['state']), tup(case['op'])
        got, _ = run_one_sp(E, seam, state, op, case['mode'], case['seed'])
        judge(part, E, f"sp/{case['tname']}/k{case['k']}", state, op, got, model(state, op), case)
        return part
    hist = [tup(o) for o in case['hist']]
    check_live(part, E, seam, f"live/{case['tname']}/k{case['k']}", tuple(case['init']), hist, case['seed'], case)
    return part
