"""C10 -- message framing tolerates any stream chunking and arrival order.

Explicit-state search (E4) over the real asyncoro.MessageExchanger, driven through its
protocol interface (connection_made / data_received / receive) with a real Runtime behind it.
State = complete mutable state of the exchanger (+ the PRSS keys it stored); transitions =
"feed the next n bytes" for EVERY n, and "post the next receive"; breadth-first, states are
rebuilt by replaying their (shortest) history on a fresh object.  Invariant in every state:
a posted receive holds exactly the payload sent under its label iff that frame has arrived
completely, and is pending otherwise; the handshake is decoded iff it has arrived completely.
"""

import asyncio
import itertools
import collections

from mc.core import Part, stable_hash

LEVEL = 'model_checking'
RULE = ('one stream = handshake (party pair, m, t, PRSS mode) + a sequence of labelled frames + an order of '
        'receive calls; for each stream ALL reachable exchanger states are explored: every chunk size at every '
        'position, every interleaving of receive calls with chunk arrivals; states = distinct exchanger '
        'fingerprints, transitions = protocol calls checked; non-trivial stream = at least one frame')
ASSUMPTIONS = ['labels on one connection are distinct (that is C09)', 'TCP delivers the byte stream in order',
               'state fingerprint = bytes buffer, peer_pid, buffers dict, results of posted receives, stored keys']

MANIFEST = dict(
    level='model_checking',
    technique='explicit-state breadth-first search over the real MessageExchanger (all chunkings x all receive interleavings)',
    text='For every stream of a declared family (all party pairs for m<=3 (5), t, PRSS on/off; frame sequences over payload '
         'lengths {0,1,11,12,13,40} and extreme labels) the complete reachable state space of the real protocol object is '
         'explored: every split of the byte stream and every order of receive() vs arrival. Invariant checked in every '
         'state; server and client role; handshake keys compared with what the real client sent.',
    ref='DESIGN 3 (E4), 5/C10',
    note='trusted: the fingerprint captures the whole mutable state of MessageExchanger (its __slots__) so merging is exact; '
         'Runtime constructed as setup() does; FIFO byte stream')

LABELS = [0, -1, 2**63 - 1, -2**63, 0x0102030405060708, 0x0102030405060709, 1, 256]
LENGTHS = [0, 1, 11, 12, 13, 40]


def pack(label, payload):
    return label.to_bytes(8, 'little', signed=True) + len(payload).to_bytes(4, 'little') + payload


def payload_of(i, n):
    return bytes((7 * i + j * 13 + 1) % 256 for j in range(n))


def streams(tier):
    """(m, t, no_prss, client, server, role, frame length tuple, receive order)"""
    out = []
    ms = (2, 3) if tier == 'quick' else (2, 3, 4, 5)
    for m in ms:
        for t in range(0, (m - 1) // 2 + 1):
            for no_prss in (False, True):
                if t == 0 and no_prss and m > 2:
                    continue
                for c in range(m):
                    for s in range(c + 1, m):
                        if m >= 4 and (c, s) not in ((0, 1), (0, m - 1), (m - 2, m - 1), (1, 2)):
                            continue
                        for role in ('server', 'client'):
                            if tier == 'quick':
                                combos = list(itertools.product(LENGTHS, repeat=2)) if m <= 3 else [(0, 13), (40, 1)]
                                combos += [(12,), (0,), (1, 0, 12)]
                            else:
                                combos = list(itertools.product(LENGTHS, repeat=2)) if m <= 3 else \
                                    [(0, 13), (40, 1), (12, 12), (11, 0)]
                                combos += [(12,), (0,), ()]
                                combos += list(itertools.product([0, 1, 12, 13], repeat=3)) if m <= 3 else [(1, 0, 12)]
                                combos += [(0, 40, 0, 11), (13, 1, 1, 0), (12, 0, 0, 12)] if m <= 3 else []
                            for lens in combos:
                                orders = ['fwd', 'rev'] if len(lens) > 1 else ['fwd']
                                for order in orders:
                                    out.append((m, t, no_prss, c, s, role, lens, order))
    return out


def jobs(tier, seed):
    ss = streams(tier)
    k = 64
    return [dict(tier=tier, seed=seed, streams=ss[i::k]) for i in range(k) if ss[i::k]]


class RecTransport:
    def __init__(self):
        self.out = bytearray()

    def write(self, data):
        self.out += data

    def writelines(self, seq):
        for d in seq:
            self.out += d

    def close(self):
        pass


def run_stream(world, part, spec):
    m, t, no_prss, c, s, role, lens, order = spec
    uc, us = world.universes[c], world.universes[s]
    loop = world.loops[0]

    # what the real client sends when the connection is made
    world.seams[c].reseed()
    rt_c = uc.fresh_runtime(world.loops[c])
    for peer in rt_c.parties:
        peer.protocol = asyncio.Future(loop=world.loops[c]) if peer.pid == c else None
    cl = uc.asyncoro.MessageExchanger(rt_c, s)
    tr_c = RecTransport()
    cl.connection_made(tr_c)
    handshake = bytes(tr_c.out)
    client_keys = dict(getattr(rt_c, '_prss_keys', {})) if not no_prss else {}
    exp_keys = {S: k for S, k in client_keys.items() if S[0] == c and s in S}
    exp_hs = c.to_bytes(2, 'little') + b''.join(client_keys[S] for S in itertools.combinations(range(m), m - t)
                                                 if not no_prss and S[0] == c and s in S)
    key = f'C10:handshake-sent'
    if handshake != exp_hs:
        part.violation(key, f'client {c}->{s} (m={m},t={t},prss={not no_prss}) sent handshake {handshake.hex()[:80]} '
                       f'expected pid+keys {exp_hs.hex()[:80]}', dict(spec=list(spec)))
        return
    labels = LABELS[:len(lens)] if order == 'fwd' or len(lens) < 2 else LABELS[2:2 + len(lens)]
    if len(lens) == 3:
        labels = [LABELS[4], LABELS[5], LABELS[3]]      # two labels sharing a 7-byte prefix
    frames = [(labels[i], payload_of(i, n)) for i, n in enumerate(lens)]
    body = b''.join(pack(l, p) for l, p in frames)
    if role == 'server':
        stream = handshake + body
        hs_len = len(handshake)
        me, u = s, us
    else:
        stream = body
        hs_len = 0
        me, u = c, uc
    ends = []
    pos = hs_len
    for l, p in frames:
        pos += 12 + len(p)
        ends.append(pos)
    rorder = list(range(len(frames)))
    if order == 'rev':
        rorder.reverse()
    L = len(stream)

    def build(hist):
        """Fresh runtime + exchanger, replay hist; returns (proto, rt, results)."""
        world.seams[me].reseed()
        rt = u.fresh_runtime(world.loops[me])
        for peer in rt.parties:
            peer.protocol = asyncio.Future(loop=world.loops[me]) if peer.pid == me else None
        if role == 'server':
            proto = u.asyncoro.MessageExchanger(rt)
        else:
            proto = u.asyncoro.MessageExchanger(rt, s)
            proto.connection_made(RecTransport())
        results = []
        fed = 0
        for ev in hist:
            if ev[0] == 'f':
                proto.data_received(stream[fed:fed + ev[1]])
                fed += ev[1]
            else:
                results.append(proto.receive(frames[rorder[len(results)]][0]))
        return proto, rt, results, fed

    def fingerprint(proto, rt, results, fed):
        bufs = tuple(sorted((lab, 'F' if isinstance(v, asyncio.Future) else bytes(v))
                            for lab, v in proto.buffers.items()))
        res = tuple(('P',) if isinstance(r, asyncio.Future) and not r.done() else
                    ('D', bytes(r.result())) if isinstance(r, asyncio.Future) else ('V', bytes(r)) for r in results)
        keys = tuple(sorted((S, bytes(k)) for S, k in getattr(rt, '_prss_keys', {}).items() if S[0] != me)) \
            if not no_prss else ()
        reg = tuple(p.pid for p in rt.parties if p.pid != me and p.protocol is not None)
        return (fed, bytes(proto.bytes), proto.peer_pid, bufs, res, keys, reg)

    def check(fp, hist):
        fed, raw, peer_pid, bufs, res, keys, reg = fp
        probs = []
        if role == 'server':
            if fed >= hs_len:
                if peer_pid != c:
                    probs.append(('handshake-pid', f'peer_pid={peer_pid} after the complete handshake, expected {c}'))
                if dict(keys) != {S: bytes(k) for S, k in exp_keys.items()}:
                    probs.append(('handshake-keys', f'stored keys {sorted(dict(keys))} != sent {sorted(exp_keys)} (or values differ)'))
                if c not in reg:
                    probs.append(('handshake-register', 'connection not registered after the handshake'))
            else:
                if peer_pid is not None or keys or reg:
                    probs.append(('handshake-early', f'handshake acted upon after {fed} of {hs_len} bytes'))
        for j, r in enumerate(res):
            i = rorder[j]
            arrived = fed >= ends[i]
            if arrived and (r[0] == 'P' or r[1] != frames[i][1]):
                probs.append(('delivery', f'receive(label {frames[i][0]}) holds {r if r[0]=="P" else r[1].hex()[:40]} '
                              f'although its frame arrived completely; expected {frames[i][1].hex()[:40]}'))
            if not arrived and r[0] != 'P':
                probs.append(('premature', f'receive(label {frames[i][0]}) completed after {fed} bytes, frame ends at {ends[i]}'))
        # frames that arrived and were not asked for must be buffered under their label
        posted = {rorder[j] for j in range(len(res))}
        want = sorted((frames[i][0], frames[i][1]) for i in range(len(frames)) if fed >= ends[i] and i not in posted)
        want += sorted((frames[i][0], 'F') for i in posted if fed < ends[i])
        if sorted(bufs, key=repr) != sorted(want, key=repr):
            probs.append(('buffers', f'buffers {[(l, v if v == "F" else v.hex()[:20]) for l, v in bufs]} != expected '
                          f'{[(l, v if v == "F" else v.hex()[:20]) for l, v in want]}'))
        # unparsed remainder = bytes since the last complete frame (or the partial handshake)
        last = max([hs_len if fed >= hs_len else 0] + [e for e in ends if e <= fed])
        if fed >= hs_len and raw != stream[last:fed]:
            probs.append(('remainder', f'unparsed buffer has {len(raw)} bytes, expected the {fed - last} bytes since the last frame boundary'))
        if fed < hs_len and raw != stream[:fed]:
            probs.append(('remainder', f'partial handshake buffer has {len(raw)} bytes, expected {fed}'))
        return probs

    seen = {}
    init = ()
    fp0 = fingerprint(*build(init))
    seen[fp0] = init
    frontier = collections.deque([init])
    ntrans = 0
    nstates = 1
    bad = False
    while frontier:
        hist = frontier.popleft()
        nposted = sum(1 for e in hist if e[0] == 'r')
        fed = sum(e[1] for e in hist if e[0] == 'f')
        evs = [('f', n) for n in range(1, L - fed + 1)]
        if nposted < len(frames):
            evs.append(('r',))
        for ev in evs:
            h2 = hist + (ev,)
            try:
                st = build(h2)
                fp = fingerprint(*st)
            except Exception as exc:
                part.violation(f'C10:{role}:exception', f'{spec}: {exc!r} after history {h2}', dict(spec=list(spec), hist=list(h2)))
                bad = True
                continue
            ntrans += 1
            for k, what in check(fp, h2):
                part.violation(f'C10:{role}:{k}', f'm={m} t={t} prss={not no_prss} {c}->{s} lens={lens} order={order} '
                               f'history={h2}: {what}', dict(spec=list(spec), hist=list(h2)))
                bad = True
            if fp not in seen:
                seen[fp] = h2
                nstates += 1
                frontier.append(h2)
    part.transitions += ntrans
    part.traces += ntrans
    if part.state_keys is None:
        part.state_keys = set()
    part.state_keys.update(stable_hash((spec, fp)) for fp in seen)
    part.case(key=None, nontrivial=len(lens) > 0)
    part.outcomes.add(nstates)
    part.note_max('max_states_per_stream', nstates)
    # the search must have reached the final state: everything fed, every receive posted
    finals = {fp[:4] + (tuple(r[1:] for r in fp[4]),) + fp[5:] for fp in seen if fp[0] == L and len(fp[4]) == len(frames)}
    if not bad and len(finals) != 1:
        part.violation(f'C10:{role}:final-state', f'{spec}: {len(finals)} distinct final states (state depends on the '
                       f'chunking/interleaving history)', dict(spec=list(spec), hist=[]))
    if len(part.samples) < 2 and len(lens) == 2:
        part.sample(dict(m=m, t=t, prss=not no_prss, client=c, server=s, role=role, frame_lengths=list(lens),
                         receive_order=order, stream_bytes=L, states=nstates, transitions=ntrans))


def run_job(job):
    from mc.world import World
    part = Part()
    cur = None
    world = None
    for spec in job['streams']:
        m, t, no_prss = spec[:3]
        if (m, t, no_prss) != cur:
            world = World(m, t, no_prss, seed=job['seed'], monitors=False)
            cur = (m, t, no_prss)
        run_stream(world, part, tuple(spec))
    return part


def replay(case):
    from mc.world import World
    part = Part()
    spec = case['spec']
    spec[6] = tuple(spec[6])
    world = World(spec[0], spec[1], spec[2], seed=0, monitors=False)
    run_stream(world, part, tuple(spec))
    return part
