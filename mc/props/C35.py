"""C35 -- barriers and shutdown wait for started coroutines.

All executions of the corpus programs (mc/programs.py) by m real parties in the virtual
world (mc/world.py) whose schedule differs from the round-robin eager / lazy default in at
most `bound` places (delayed or reordered delivery, split delivery, delayed loop iteration)."""

from mc import sched

LEVEL = 'model_checking'
RULE = ('one case = one complete execution (program, m, t, PRSS mode, default policy, deviation list); '
        'enumerated: every deviation list up to the bound reported in deviation_bound; '
        'non-trivial = at least one deviation (plus the default run per configuration); '
        'states = distinct tuples of per-party local histories, transitions = scheduler steps')
ASSUMPTIONS = [
    'event-loop model: CPython selector loop at iteration granularity (DESIGN 3/E1); TCP is FIFO and reliable',
    'randomness drawn through a deterministic seeded seam (runtime.secrets/thresha.secrets), seed = VERIF_SEED',
    'schedules complete only up to the deviation bound per configuration',
]


def jobs(tier, seed):
    return sched.plan('C35', tier, seed)


run_job = sched.run_job
replay = sched.replay
