"""C06 -- secure conversion between types preserves values.

All ordered pairs among SecInt(3), SecInt(5), SecInt(6), SecInt(10), SecFxp(6,3), SecFxp(8,2) and the
prime fields GF(11) (unsigned), GF(13) (signed), GF(127) (signed), GF(101) (unsigned); every in-range
value of the source type that fits the target (boundary alphabet for the 256-value types); the
conversion masks scripted (single party) / driven to their extremes (m parties, the m-party sum).
Oracle: same value; fixed-point -> integer (or coarser fixed-point) gives floor or ceiling;
field -> integer / field gives the canonical signed or unsigned representative.
"""

import math
import itertools

from mc.core import Part
from mc import exact

LEVEL = 'exploration'
FRESH_PROCESS_PER_JOB = True
RULE = ('one case = (source type, target type, value, configuration, mask script); all source values that fit the target '
        '(alphabet for SecFxp(8,2) and GF(127), GF(101)); single party: all mask scripts; multi-party: CFG-core with seeded / all-0 / all-max masks')
ASSUMPTIONS = ['field -> integer/fixed-point conversion needs (M+1)*|F| < 2^(l-1) in the target, M = C(m,t) under PRSS, t+1 otherwise: the protocol reduces value + offset - (sum of M masks below |F|) modulo |F| inside the target type; with less room the result is right only while the statistical mask of _mod happens to be large enough (seen with all-zero masks at (5,2))',
               'one signedness per prime in a process (GF(p) classes are cached and carry is_signed)',
               'excluded event: blinding factor 0 in is_zero_public (used by _mod)']
MANIFEST = dict(
    level='exploration',
    technique='bounded-exhaustive enumeration of values and conversion masks on the real runtime against plain value semantics',
    text='Every source/target pair of 10 secure types (integers, fixed-point, signed and unsigned prime fields) on all in-range values: '
         'value preserved when it fits, fxp->int and fxp->coarser fxp give floor or ceiling, field sources keep their canonical signed/unsigned '
         'representative; single party with all mask scripts, then (1,0),(2,0),(3,1),(4,1),(5,2) with PRSS on/off incl. the all-max mask sum.',
    ref='DESIGN 5/C06', note='trusted: randomness seam, world model')

TYPES = ['int3', 'int5', 'int6', 'int10', 'fxp63', 'fxp82', 'fld11u', 'fld13s', 'fld127s', 'fld101u', 'int24']
FLD = {'fld11u': (11, False), 'fld13s': (13, True), 'fld127s': (127, True), 'fld101u': (101, False)}
INT = {'int3': 3, 'int5': 5, 'int6': 6, 'int10': 10, 'int24': 24}     # int24: a target much wider than any source (target only)
FXP = {'fxp63': (6, 3), 'fxp82': (8, 2)}


MULT = [1]      # number of mask contributions in the current configuration
# extension-field targets (degree > 1): only values below the characteristic, which are constants of the field
EXT = {'ext2_4': (2, 4), 'ext3_2': (3, 2), 'ext7_2': (7, 2)}
KNOWN_EXT = '!convert:extension-field-target'


def sectype(mpc, name):
    if name in EXT:
        return mpc.SecFld(char=EXT[name][0], ext_deg=EXT[name][1])
    if name in INT:
        return mpc.SecInt(INT[name])
    if name in FXP:
        return mpc.SecFxp(*FXP[name])
    p, signed = FLD[name]
    return mpc.SecFld(p, signed=signed)


def values(name):
    if name in INT:
        l = INT[name]
        if l <= 6:
            return list(range(-(1 << (l - 1)), 1 << (l - 1)))
        return sorted({-(1 << (l - 1)), -(1 << (l - 1)) + 1, -129, -128, -127, -64, -17, -2, -1, 0, 1, 2, 15, 16, 63, 126, 127, 128,
                       (1 << (l - 1)) - 2, (1 << (l - 1)) - 1})
    if name in FXP:
        l, f = FXP[name]
        allv = [i / (1 << f) for i in range(-(1 << (l - 1)), 1 << (l - 1))]
        if len(allv) <= 64:
            return allv
        keep = set(allv[:6] + allv[-6:] + allv[::13])
        keep.update(v for v in allv if abs(v) <= 1.25)
        return sorted(keep)
    p, signed = FLD[name]
    if p <= 13:
        return list(range(p))
    return sorted({0, 1, 2, 3, p // 2 - 1, p // 2, p // 2 + 1, p // 2 + 2, p - 3, p - 2, p - 1, 7, 16, 31, 32, 64})


def plain_value(name, v):
    """Mathematical value carried by source value v (ints for fields: canonical representative)."""
    if name in FLD:
        p, signed = FLD[name]
        return v - p if (signed and v > p // 2) else v
    return v


def fits(name, x):
    """Does the real number x fit target type `name` (as a value it can represent exactly)?"""
    if name in INT:
        l = INT[name]
        return x == int(x) and -(1 << (l - 1)) <= x < (1 << (l - 1))
    if name in FXP:
        l, f = FXP[name]
        return -(1 << (l - f - 1)) <= x < (1 << (l - f - 1))
    return x == int(x)


def expected(src, dst, v):
    """None (skip) or ('exact', value) / ('either', lo, hi) in the target's output convention."""
    x = plain_value(src, v)
    # a field source is masked with a SUM of MULT contributions below |F| (C(m,t) subsets under PRSS, t+1 dealers
    # otherwise) and reduced modulo |F| inside the target type: that intermediate has to fit the target
    if src in FLD and dst in INT and (MULT[0] + 1) * FLD[src][0] >= (1 << (INT[dst] - 1)):
        return None
    if src in FLD and dst in FXP:
        l, f = FXP[dst]
        if (MULT[0] + 1) * FLD[src][0] >= (1 << (l - f - 1)):
            return None
    if dst in FLD:
        p, signed = FLD[dst]
        if src in FXP:
            lo, hi = math.floor(x), math.ceil(x)
            if src in FXP and not (fits('int10', lo) and fits('int10', hi)):
                return None
            if not (abs(lo) < p // 2 and abs(hi) < p // 2):
                return None
            return ('either_fld', lo % p, hi % p)
        if src in FLD:
            if not (-(p // 2) <= x <= p // 2 if signed else 0 <= x < p):
                return None
        elif not abs(x) <= p // 2:
            return None
        return ('fld', x % p)
    if src in FXP:
        sf = FXP[src][1]
        if dst in INT:
            lo, hi = math.floor(x), math.ceil(x)
            if not (fits(dst, lo) and fits(dst, hi)):
                return None
            return ('either', lo, hi)
        df = FXP[dst][1]
        if df >= sf:
            return ('exact', x) if fits(dst, x) else None
        lo = math.floor(x * (1 << df)) / (1 << df)
        hi = math.ceil(x * (1 << df)) / (1 << df)
        if not (fits(dst, lo) and fits(dst, hi)):
            return None
        return ('either', lo, hi)
    if not fits(dst, x):
        return None
    return ('exact', x)


def compare_ext(got, want):
    # Known region (DESIGN 10): _convert() subtracts the integer codes of mask and masked value in the target field, which is
    # only meaningful for prime fields; for a target of extension degree > 1 the result is garbage (mask dependent)
    try:
        ok = int(got.value) == want[1]
    except Exception:
        ok = False
    return True if ok else KNOWN_EXT


def compare(got, want):
    kind = want[0]
    if kind == 'exact':
        return got == want[1]
    if kind == 'either':
        return got == want[1] or got == want[2]
    if kind == 'fld':
        return hasattr(got, 'value') and int(got.value) == want[1]
    if kind == 'either_fld':
        return hasattr(got, 'value') and int(got.value) in (want[1], want[2])
    return False


def build(mpc, pairs=None):
    ops = {}
    for src in TYPES:
        S = sectype(mpc, src)
        dom = values(src)
        for dst in TYPES:
            if src == dst or (pairs is not None and (src, dst) not in pairs):
                continue
            if src == 'int24' or (dst == 'int24' and src not in ('fxp63', 'fxp82', 'int5')):
                continue
            D = sectype(mpc, dst)
            mpd = dom if len(dom) <= 8 else sorted({dom[0], dom[1], dom[len(dom) // 2 - 1], dom[len(dom) // 2], dom[len(dom) // 2 + 1], dom[-2], dom[-1]} |
                                                   ({0.125, -0.125, 0.5, -0.5} & set(dom)))
            ops[f'{src}>{dst}'] = exact.Op(1, (lambda a, D=D: mpc.convert(a, D)), (lambda v, src=src, dst=dst: expected(src, dst, v[0])),
                                           compare, make=S, domain=dom, mp_domain=mpd, maxpts=4)
        for dst, (p, d) in EXT.items():
            if src not in ('int5', 'fld11u', 'fxp63'):
                continue
            D = sectype(mpc, dst)
            small = [v for v in range(p)]
            ops[f'{src}>{dst}'] = exact.Op(1, (lambda a, D=D: mpc.convert(a, D)), (lambda v: ('ext', int(v[0]))),
                                           compare_ext, make=S, domain=small, mp_domain=small[:2], maxpts=2)
    return ops


def jobs(tier, seed):
    out = []
    names = sorted(build(exact.Dummy()))
    for k in ((3,) if tier == 'quick' else (2, 3, 6)):
        for i in range(0, len(names), 3):
            out.append(dict(engine='sp', k=k, ops=names[i:i + 3], tier=tier, seed=seed))
    cfgs = exact.CORE_CFGS if tier == 'thorough' else ((2, 0, False), (3, 1, False), (3, 1, True), (5, 2, False))
    for (m, t, no_prss) in cfgs:
        nparts = 6 if m <= 3 else 12
        for part in range(nparts):
            out.append(dict(engine='mp', m=m, t=t, no_prss=no_prss, part=part, parts=nparts, tier=tier, seed=seed))
    # many parties: the conversion mask is a sum of C(m,t) PRF outputs; its bound must shrink accordingly (all-max pattern)
    for (m, t) in ((7, 3), (6, 2)) if tier == 'quick' else ((7, 3), (6, 2), (7, 2), (6, 1)):
        out.append(dict(engine='mp', m=m, t=t, no_prss=False, part=0, parts=1, tier=tier, seed=seed, wide=True))
    out.append(dict(engine='mp', m=3, t=1, no_prss=False, part=0, parts=1, tier=tier, seed=seed, ext=True))
    out.sort(key=lambda j: -(j.get('m', 0)))
    return out


WIDE = ('int3>int5', 'int5>int10', 'int3>fxp63', 'int5>int6', 'fxp63>fxp82', 'int6>int5')


def run_job(job):
    if job['engine'] == 'sp':
        return exact.run_sp('C06', job, build)
    names = [n for n in build(exact.Dummy()) if n.split('>')[1] not in EXT]
    MULT[0] = math.comb(job['m'], job['t']) if not job['no_prss'] else job['t'] + 1
    if job.get('ext'):
        return exact.run_mp('C06', job, build, base_k=4, batch=12, names=[n for n in build(exact.Dummy()) if n.split('>')[1] in EXT], patterns=('seeded',))
    if job.get('wide'):
        return exact.run_mp('C06', job, build, base_k=4, batch=12, names=WIDE, patterns=('max', 'seeded'))
    if job['tier'] == 'quick':
        # field -> field goes through SecInt(32) and is expensive: a few pairs only in the quick tier
        names = [n for n in names if not (n.split('>')[0] in FLD and n.split('>')[1] in FLD) or n in ('fld11u>fld13s', 'fld13s>fld101u')]
    return exact.run_mp('C06', job, build, base_k=4, batch=16, names=names)


def replay(case):
    if case.get('engine') == 'sp':
        return exact.replay_sp('C06', case, build)
    return run_job(case['job'])
