"""C24 -- irreducibility tests and irreducible-modulus search are correct.

Bounded-exhaustive: EVERY polynomial of degree <= D over GF(p) (D per prime, see DOMAINS) is pushed
through gfpx is_irreducible, next_irreducible and finfields.GF; the oracle is a brute-force
factor table (sieve of all products f*g with deg f, deg g >= 1, cross-checked against trial division),
written in mc/ref/polys.py without any use of gfpx.  find_irreducible(p, d) is compared with the
first monic polynomial of degree d (integer order) that survives trial division.

Integer order: the polynomial with coefficients c_i has code sum c_i p^i.
"""

import json
import signal

from mc.core import Part
from mc.ref import polys as R

LEVEL = 'exploration'
RULE = ('one case = (representation, p, polynomial code n, operation) with operation in {is_irreducible '
        '(argument as polynomial / int / list), next_irreducible, GF(modulus)} for every code n < p^(D+1) '
        '(next_irreducible: every n < p^D so that the true successor lies inside the table), plus '
        '(p, d) for find_irreducible; every code is enumerated exactly once per representation; '
        'non-trivial = polynomial of degree >= 1')
ASSUMPTIONS = ['reference factor table (mc/ref/polys.py: sieve by schoolbook multiplication, cross-checked '
               'against trial division for every code < 2048 in every job)',
               'Python int arithmetic',
               'the generic list representation at p=2 is instantiated as a direct subclass of gfpx.Polynomial '
               'with p=2 (GFpX(2) itself always returns BinaryPolynomial)',
               'numpy absent in /venv: GF() does not build the array type']

# degree bound D of the table per representation and prime: (kind, p) -> D
DOMAINS = {
    'quick': {('binary', 2): 12, ('generic', 2): 10, ('generic', 3): 7, ('generic', 5): 4,
              ('generic', 7): 4, ('generic', 11): 2, ('generic', 13): 2},
    'thorough': {('binary', 2): 16, ('generic', 2): 14, ('generic', 3): 10, ('generic', 5): 6,
                 ('generic', 7): 5, ('generic', 11): 4, ('generic', 13): 3, ('generic', 17): 3,
                 ('generic', 31): 2},
}
SMALL_PRIMES = [2, 3, 5, 7, 11, 13, 17, 19, 23, 29, 31, 37, 41, 43, 47, 53, 59, 61, 67, 71, 73, 79, 83, 89, 97,
                101, 103, 107, 109, 113, 127, 131, 251, 257]
BIG_PRIMES = [65537, 2**31 - 1, 2**61 - 1]      # degree 1 only (and degree 2 for 65537 in thorough)

MANIFEST = dict(
    level='exploration',
    technique='bounded-exhaustive enumeration of all polynomials of bounded degree against a brute-force factor table',
    text='Every polynomial of degree <= 12 (16 thorough) over GF(2) in the integer representation, <= 10 (14) over GF(2) '
         'in the generic list representation, <= 7 (10) over GF(3), <= 4 (6) over GF(5), <= 4 (5) over GF(7), <= 2 (4) over '
         'GF(11), <= 2 (3) over GF(13) (thorough also degree <= 3 over GF(17), <= 2 over GF(31)): is_irreducible (argument given '
         'as polynomial, int and list) equals the factor table '
         '(irreducible iff degree >= 1 and not a product of two polynomials of degree >= 1); next_irreducible(a) equals '
         'the smallest irreducible above a in the integer order for every a one degree below the table bound; '
         'finfields.GF(a) returns a field with modulus a iff a is irreducible and raises otherwise; '
         'find_irreducible(p, d) equals the first monic polynomial of degree d surviving trial division for 34 primes '
         'p <= 257 and all d with p^(d/2) within the trial budget, and d = 1 for p in {65537, 2^31-1, 2^61-1}.',
    ref='DESIGN 5/C24',
    note='trusted: the schoolbook reference in mc/ref/polys.py (sieve cross-checked with trial division inside every '
         'run); finite declared domain only. Recorded known class: the generic next_irreducible returns the next MONIC '
         'irreducible (as its docstring says), so whenever the true successor in the integer order is non-monic the key is '
         'C24:next_irreducible:odd-p:skips-nonmonic, and inside that class the fallback law "result == smallest monic '
         'irreducible strictly above the argument (x included)" is enforced; any other deviation is :wrong (or :skips-x / '
         'find_irreducible:degree1-odd-p when x is skipped, which is no longer expected).')


# -- harness helpers: deterministic examples, hang guard -----------------------------------

class CPart(Part):
    """Part that also remembers, per violation key, the smallest failing example (so that the reported
    example does not depend on the order in which worker processes finish)."""

    def sample(self, s):
        pool = self.notes.setdefault('sample_pool', [])
        if len(pool) < 6:
            pool.append(s)
            self.samples.append(s)

    def violation(self, key, what, detail):
        super().violation(key, what, detail)
        size = sum(len(v) for v in detail.values() if isinstance(v, list)) + abs(detail.get('n', 0) if isinstance(detail.get('n', 0), int) else 0)
        rank = [detail.get('p', 0), size, json.dumps(detail, sort_keys=True, default=str)]
        ex = self.notes.setdefault('examples', [])
        for e in ex:
            if e[0] == key:
                if rank < e[1]:
                    e[1:] = [rank, what, detail]
                return
        ex.append([key, rank, what, detail])


def coverage_extra(tier, seed, total):
    best = {}
    for key, rank, what, detail in total.notes.pop('examples', []):
        if key not in best or rank < best[key][0]:
            best[key] = (rank, what, detail)
    for v in total.violations:
        if v['key'] in best:
            _, v['what'], v['detail'] = best[v['key']]
    pool = total.notes.pop('sample_pool', [])
    total.samples = sorted(pool, key=lambda x: json.dumps(x, sort_keys=True, default=str))[:6]
    return {}


class Hang(Exception):
    """Raised inside a call of the code under test that used more than one full watchdog period of CPU time."""


class Abort(BaseException):
    pass


_wd = {'id': 0, 'on': False, 'seen': -1, 'hangs': 0}
WD_PERIOD = 4.0     # seconds of CPU time of this process; a single polynomial operation takes microseconds


def _on_tick(signum, frame):
    if _wd['on'] and _wd['id'] == _wd['seen']:
        _wd['hangs'] += 1
        _wd['seen'] = -1
        if _wd['hangs'] > 3:
            raise Abort()
        raise Hang(f'call still running after {WD_PERIOD:.0f}-{2 * WD_PERIOD:.0f} s of CPU time')
    _wd['seen'] = _wd['id'] if _wd['on'] else -1


def watchdog(on):
    if on:
        _wd.update(id=0, on=False, seen=-1, hangs=0)
        signal.signal(signal.SIGVTALRM, _on_tick)
        signal.setitimer(signal.ITIMER_VIRTUAL, WD_PERIOD, WD_PERIOD)
    else:
        signal.setitimer(signal.ITIMER_VIRTUAL, 0)


def guarded(f):
    """Run one call of the code under test under the hang guard."""
    _wd['id'] += 1
    _wd['on'] = True
    try:
        return f()
    finally:
        _wd['on'] = False


# -- classes under test --------------------------------------------------------------------

_generic2 = None


def poly_class(kind, p):
    global _generic2
    from mpyc import gfpx
    if kind == 'binary':
        cls = gfpx.GFpX(2)
        assert cls is gfpx.BinaryPolynomial
        return cls
    if p == 2:
        if _generic2 is None:
            _generic2 = type('GF(2)[x]list', (gfpx.Polynomial,), {'__slots__': ()})
            _generic2.p = 2
        return _generic2
    cls = gfpx.GFpX(p)
    assert not issubclass(cls, gfpx.BinaryPolynomial)
    return cls


def code_of(cls, kind, p, a):
    """Integer code of an implementation polynomial, read from the documented representation."""
    if type(a) is not cls:
        return None
    v = a.value
    if kind == 'binary':
        return v if type(v) is int and v >= 0 else None
    if type(v) is not list or any(type(c) is not int or not 0 <= c < p for c in v) or (v and v[-1] == 0):
        return None
    return R.to_int(tuple(v), p)


# -- oracle tables -------------------------------------------------------------------------

_tables = {}


def table(p, D):
    """(T, nxt, fb): T[n] irreducible flag; nxt[n] = smallest irreducible code > n (or None);
    fb[n] = smallest code > n of a monic irreducible (fallback law of the known non-monic class)."""
    key = (p, D)
    if key not in _tables:
        T = R.irreducible_table(p, D)
        size = len(T)
        # cross-check the sieve with trial division (independent second method)
        chk = min(size, 2048)
        for n in range(chk):
            if bool(T[n]) != R.is_irreducible_trial(R.from_int(n, p), p):
                raise AssertionError(f'reference sieve and trial division disagree at p={p} n={n}')
        nxt = [None] * size
        fb = [None] * size
        cur = cur_fb = None
        for n in range(size - 1, -1, -1):
            nxt[n], fb[n] = cur, cur_fb
            if T[n]:
                cur = n
                if R.from_int(n, p)[-1] == 1:
                    cur_fb = n
        _tables[key] = (T, nxt, fb)
    return _tables[key]


def class_key(kind, p, n, got, nxt, mon):
    """None if next_irreducible is right, else the violation key.

    Recorded known class (documented 'next MONIC irreducible'): the true successor in the integer order is
    non-monic; inside that class the fallback law is: result == smallest monic irreducible strictly above
    the argument (x included). Everything else is an ordinary violation."""
    true = nxt[n]
    if got == true:
        return None
    where = 'binary' if kind == 'binary' else 'odd-p' if p != 2 else 'generic-p2'
    if true is not None and true == p:
        return f'C24:next_irreducible:{where}:skips-x'
    if true is not None and got is not None and R.from_int(true, p)[-1] != 1 and got == mon[n]:
        return f'C24:next_irreducible:{where}:skips-nonmonic'
    return 'C24:next_irreducible:wrong'


# -- checks --------------------------------------------------------------------------------

def check_is_irreducible(part, cls, kind, p, n, T, forms=('poly', 'int', 'list')):
    c = R.from_int(n, p)
    want = bool(T[n])
    for form in forms:
        arg = cls(list(c)) if form == 'poly' else n if form == 'int' else list(c)
        case = dict(op='is_irreducible', kind=kind, p=p, n=n, form=form)
        try:
            got = guarded(lambda: cls.is_irreducible(arg))
        except Exception as exc:
            part.violation('C24:is_irreducible:exception', f'{type(exc).__name__}: {exc} for {R.terms(c)} over GF({p}) {case}', case)
            continue
        part.case(nontrivial=len(c) >= 2)
        part.outcomes.add(('irr', kind, p, len(c) - 1, bool(got)))
        if got is not True and got is not False or got != want:
            sub = 'reducible-accepted' if not want else 'irreducible-rejected'
            part.violation(f'C24:is_irreducible:{sub}', f'is_irreducible({R.terms(c)}) over GF({p}) [{kind}, arg as {form}] '
                           f'= {got!r}, factor table says {want}', case)
    return want


def check_next(part, cls, kind, p, n, D, nxt, fb, form='poly'):
    c = R.from_int(n, p)
    arg = cls(list(c)) if form == 'poly' else n
    case = dict(op='next_irreducible', kind=kind, p=p, n=n, D=D, form=form)
    try:
        res = guarded(lambda: cls.next_irreducible(arg))
    except Exception as exc:
        part.violation('C24:next_irreducible:exception', f'{type(exc).__name__}: {exc} for a={R.terms(c)} over GF({p}) {case}', case)
        return
    got = code_of(cls, kind, p, res)
    part.case(nontrivial=True)
    part.outcomes.add(('next', kind, p, len(c) - 1, None if got is None else len(R.from_int(got, p)) - 1))
    key = class_key(kind, p, n, got, nxt, fb)
    if key:
        true = nxt[n]
        part.note('deviations_by_key', {key: 1})
        part.violation(key, f'next_irreducible({R.terms(c)}) [code {n}] over GF({p}) [{kind}] = '
                       f'{R.terms(R.from_int(got, p)) if got is not None else repr(res)} [code {got}], smallest irreducible '
                       f'above is {R.terms(R.from_int(true, p))} [code {true}]', case)
    elif len(part.samples) < 2 and n > p:
        part.sample(dict(case=case, result=R.terms(R.from_int(got, p))))


def check_gf(part, cls, kind, p, n, T):
    from mpyc import finfields
    c = R.from_int(n, p)
    want = bool(T[n])
    a = cls(list(c))
    case = dict(op='GF', kind=kind, p=p, n=n)
    part.case(nontrivial=len(c) >= 2)
    try:
        F = guarded(lambda: finfields.GF(a))
    except Exception as exc:
        part.outcomes.add(('GF', kind, p, type(exc).__name__))
        part.note('gf_rejections_by_exception', {type(exc).__name__: 1})
        if want:
            part.violation('C24:GF:irreducible-rejected', f'GF({R.terms(c)}) over GF({p}) raised {type(exc).__name__}: {exc}', case)
        return
    part.outcomes.add(('GF', kind, p, 'accepted'))
    if not want:
        part.violation('C24:GF:reducible-accepted', f'GF({R.terms(c)}) over GF({p}) accepted a reducible modulus (-> {F.__name__})', case)
        return
    d = len(c) - 1
    ok = (code_of(cls, kind, p, F.modulus) == n and F.order == p**d and F.characteristic == p and F.ext_deg == d)
    if not ok:
        part.violation('C24:GF:field-parameters', f'GF({R.terms(c)}) over GF({p}): modulus {F.modulus!r} order {F.order} '
                       f'characteristic {F.characteristic} ext_deg {F.ext_deg}', case)


def smallest_monic_irreducible(p, d):
    for n in range(p**d):              # x^d + (polynomial with code n): integer order
        low = R.from_int(n, p)
        m = low + (0,) * (d - len(low)) + (1,)
        if R.is_irreducible_trial(m, p):
            return m
    raise AssertionError('no irreducible polynomial of this degree?')


def check_find(part, p, d):
    from mpyc import finfields, gfpx
    case = dict(op='find_irreducible', p=p, d=d)
    if d == 1:
        want = (0, 1)           # x: no trial needed, every polynomial of degree 1 is irreducible
    else:
        want = smallest_monic_irreducible(p, d)
    try:
        res = guarded(lambda: finfields.find_irreducible(p, d))
    except Exception as exc:
        part.violation('C24:find_irreducible:exception', f'{type(exc).__name__}: {exc} {case}', case)
        return
    kind = 'binary' if p == 2 else 'generic'
    got = code_of(gfpx.GFpX(p), kind, p, res)
    gc = None if got is None else R.from_int(got, p)
    part.case(nontrivial=True)
    part.outcomes.add(('find', p if p < 20 else 'big', d, gc == want))
    if gc != want:
        if p != 2 and d == 1:
            key = 'C24:find_irreducible:degree1-odd-p'
        else:
            key = 'C24:find_irreducible:wrong'
        part.note('deviations_by_key', {key: 1})
        part.violation(key, f'find_irreducible({p}, {d}) = {res!r}, smallest monic irreducible of degree {d} is '
                       f'{R.terms(want)}', case)
    elif len(part.samples) < 4 and d >= 3:
        part.sample(dict(case=case, result=R.terms(want)))


# -- jobs ----------------------------------------------------------------------------------

def find_domain(tier):
    budget = 700 if tier == 'quick' else 6000
    dcap = 12 if tier == 'quick' else 16
    out = []
    for p in SMALL_PRIMES:
        d = 1
        while d <= dcap and p**(d // 2) <= budget and p**d <= 4 * 10**9:
            out.append((p, d))
            d += 1
    for p in BIG_PRIMES:
        out.append((p, 1))
    if tier == 'thorough':
        out += [(65537, 2)]
    return out


def jobs(tier, seed):
    out = []
    for (kind, p), D in sorted(DOMAINS[tier].items()):
        size = p**(D + 1)
        k = max(2, min(6, size // 1500)) if tier == 'quick' else max(2, min(8, size // 8000))
        for i in range(k):
            out.append(dict(what='table', kind=kind, p=p, D=D, start=i, step=k))
    fd = find_domain(tier)
    k = 4
    for i in range(k):
        out.append(dict(what='find', cases=fd[i::k]))
    return out


def run_job(job):
    part = CPart()
    watchdog(True)
    try:
        _run_job(part, job)
    except Abort:
        part.caps.append('job aborted: more than 3 calls of the code under test hung')
    finally:
        watchdog(False)
    return part


def _run_job(part, job):
    if job['what'] == 'find':
        for p, d in job['cases']:
            check_find(part, p, d)
        return part
    kind, p, D = job['kind'], job['p'], job['D']
    cls = poly_class(kind, p)
    T, nxt, fb = table(p, D)
    top_next = p**D
    do_gf = not (kind == 'generic' and p == 2)      # GF() only takes GFpX(p) polynomials
    for n in range(job['start'], len(T), job['step']):
        check_is_irreducible(part, cls, kind, p, n, T)
        if n < top_next:
            check_next(part, cls, kind, p, n, D, nxt, fb)
            if n % 7 == 0 or n < 2 * p * p:
                check_next(part, cls, kind, p, n, D, nxt, fb, form='int')
        if do_gf:
            check_gf(part, cls, kind, p, n, T)
    part.note('polynomials', {f'{kind}:p={p}:deg<={D}': len(range(job['start'], len(T), job['step']))})
    return part


def replay(case):
    part = CPart()
    watchdog(True)
    try:
        _replay(part, case)
    except Abort:
        pass
    finally:
        watchdog(False)
    part.notes.pop('examples', None)
    part.notes.pop('sample_pool', None)
    return part


def _replay(part, case):
    op = case['op']
    if op == 'find_irreducible':
        check_find(part, case['p'], case['d'])
        return part
    kind, p, n = case['kind'], case['p'], case['n']
    cls = poly_class(kind, p)
    D = case.get('D') or max(len(R.from_int(n, p)), 1)
    T, nxt, fb = table(p, D)
    if op == 'is_irreducible':
        check_is_irreducible(part, cls, kind, p, n, T, forms=(case.get('form', 'poly'),))
    elif op == 'next_irreducible':
        check_next(part, cls, kind, p, n, D, nxt, fb, form=case.get('form', 'poly'))
    elif op == 'GF':
        check_gf(part, cls, kind, p, n, T)
    return part
