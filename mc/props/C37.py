"""C37 -- secure NumPy arrays agree with plain NumPy and with elementwise secure scalars.

Engines (all under python3-vt, which has NumPy):
 * sp      : the real 1-party runtime in synchronous mode, --no-prss, every random draw of the np_* protocols scripted
             through the seam (seeded / all-zero / all-max / second seed; thorough: single-draw deviations);
 * sp-prss : the same with PRSS (keys dictated through the seam), seeded only: the np_pseudorandom_share code paths;
 * mp      : 3 real parties (t=1) in the virtual world, PRSS on and off, seeded / all-zero / all-max mask patterns;
 * ffa     : plain FiniteFieldArray arithmetic (no runtime) against the reference field;
 * thresha : np_random_split / np_recombine / np_pseudorandom_share(_0) / PRF shapes against the list versions
             and own Lagrange interpolation (complements C12 / C15, which cover the 1-D agreement laws).
Oracles: (ii) plain NumPy on dtype=object arrays of boring reference elements (mc/ref/npref.py: Python ints, exact
rational intervals for fixed point, table-field elements) -- this decides; (i) the same NumPy expression evaluated on
object arrays of secure SCALARS in the same runtime.  The declared (placeholder) shape of every result, which is what a
multi-party program computes with before values exist, must equal the NumPy shape as well.
"""

import itertools
import math
import operator
import os
from fractions import Fraction

from mc.core import Part, stable_hash
from mc.ref.npref import Skip, make_fx, make_fe, obj_array, LazyField

for _v in ('OPENBLAS_NUM_THREADS', 'OMP_NUM_THREADS', 'MKL_NUM_THREADS'):      # object arrays never use BLAS: no thread pools per worker
    os.environ.setdefault(_v, '1')

LEVEL = 'exploration'
FRESH_PROCESS_PER_JOB = True
RULE = ('one case = (dtype, operation variant incl. shapes/axes/keys, input arrays, engine configuration, mask script). '
        'dtypes: SecInt(6), SecFxp(8,3), SecFld(5), SecFld(2^2), SecFld(2^8). Arithmetic/comparison/reduction operations: for '
        'every listed shape tuple ALL assignments of the first j values of a fixed priority alphabet to all elements, j = '
        'largest with j^n <= limit (quick 60 [matmul family 40, reductions 30], thorough 1000 [reductions 400]; j >= 2); when even 2^n exceeds the limit: the boundary family {constant arrays} + {one element deviating from an all-zero (all-first-value) array, each position x each value} + {two alternating patterns} over the first 3 values.  Structural operations (reshape, stack, getitem, ...): '
        'every shape x every parameter value (axes, orders, shifts, keys) x 2 position-marker fillings.  Each case under masks '
        'seeded, all-zero, all-max when the operation draws randomness (thorough: also a second seed, and every alphabet value at '
        'each of the first 4 draws for the first/last 3 inputs of each operation); scalar oracle on every input (quick: every 5th); '
        'PRSS single-party runs: seeded only; multi-party (m=3,t=1, PRSS on/off): the operations flagged for it on the first, '
        'middle and last inputs of their quick domain under seeded / all-max / all-zero patterns.  Reference preconditions not met (value leaves '
        'the l-bit range, division by 0) => case not evaluated.  Failures that disappear when ONLY the np_trunc masks r_divf '
        '(bound 2^(k+l-f\')) are forced to their maximum are keyed C37:np_trunc:secfxp:mask-range with the call site in the text (PRSS / '
        'multi-party runs, where single masks cannot be dictated: truncating fixed-point operations whose result is off by more than 16 '
        'units, or wrong only under the all-zero pattern). '
        'non-trivial = at least one random draw or more than one party or non-scalar shape')
ASSUMPTIONS = [
    'mc/ref/npref.py + mc/ref/fields.py + mc/ref/shamir.py (reference elements and fields) and NumPy\'s generic dtype=object '
    'implementations (shape/broadcast/axis semantics) are correct',
    'fixed point: a result is accepted iff it lies in the interval obtained by applying floor/ceil once per secure truncation that '
    'the code performs: elementwise products, outer, convolve: one truncation per element; matmul: ONE truncation of the exact sum of '
    'products (np_matmul truncates C = A @ B once, so the bound is 1 unit, not one per term); prod/pow/vander: one per multiplication in '
    'the association order of the code; an integral operand makes the product exact; public floats are first rounded to the grid',
    'secfxp division by SECRET divisors (Newton iteration _rec/_norm shared with the scalar code, no documented error bound) is only '
    'checked for termination without exception and for the declared shape (any in-range value is accepted); public divisors are exact '
    'or within one unit of x * grid(1/y)',
    'np_log/np_exp*/np_pow with float exponents (approximations) and np_find are outside this check',
    'excluded event: blinding factor 0 in np_is_zero_public on large fields (forced non-zero by the seam)',
    'tiny parameters (l=6, (8,3), k=4, m=3) stand for the parametric code',
    'multi-party runs use the default eager schedule (schedule independence is C08)',
    'environment: numpy 2.4 (mpyc imports numpy.core.umath, deprecated but present); gmpy2 absent (mpyc.gmpy stub); '
    'public-base secret-exponent powers (gmpy2.powmod_exp_list) are skipped',
]
MANIFEST = dict(
    level='exploration',
    technique='bounded-exhaustive enumeration of array contents, shapes/axes/keys and protocol masks on the real runtime against '
              'plain NumPy on object arrays of reference elements and against elementwise secure scalars',
    text='Secure int / fixed-point / GF(5), GF(4), GF(256) arrays of shapes (), (1,), (2,), (3,), (2,2), (1,3), (2,1,2) and '
         'broadcast pairs through + - * / ** << @ outer convolve vander det, all six comparisons, min/max, sort, sum/prod/all/any, '
         'amin/amax/argmin/argmax, cumsum, trace, sgn/abs/lsb/trunc/to_bits/from_bits/is_zero_public/unit_vector, where/if_swap, and '
         'the complete reshape/transpose/stack/split/roll/flip/rot90/diag/getitem/update/tolist family, with public int/float/ndarray/'
         'field operands; every element assignment over priority alphabets up to the per-shape limit, every axis/key parameter, all '
         'mask extremes; declared result shapes and integral flags; then 3-party executions with and without PRSS; FiniteFieldArray '
         'and thresha np_* functions against the list versions.',
    ref='DESIGN 5/C37', note='trusted: reference elements, NumPy object-dtype semantics, randomness seam, world model; '
                             'documented fixed-point truncation model')

SHAPES = [(), (1,), (2,), (3,), (2, 2), (1, 3), (2, 1, 2)]
BPAIRS = [(s, s) for s in SHAPES] + [((2, 2), (2,)), ((2,), (2, 2)), ((1, 3), (2, 1)), ((2, 1), (1, 3)), ((), (2, 2)),
                                     ((2, 2), ()), ((2, 1, 2), (2,)), ((1,), (3,)), ((2, 1, 2), (1, 2)), ((3,), ())]
DTYPES = ('int', 'fxp', 'gf5', 'gf4', 'gf256')
K_SP = 4


def limit(tier, group=None):
    if tier == 'thorough':
        return 400 if group == 'R' else 1000
    return 30 if group == 'R' else 40 if group == 'M' else 60


# ------------------------------------------------------------------------------------------------------------------
# dtype descriptors
# ------------------------------------------------------------------------------------------------------------------

class IntI:
    """Integer interval (results of np_trunc on integers)."""
    __slots__ = ('lo', 'hi')

    def __init__(self, lo, hi):
        self.lo, self.hi = lo, hi

    def __repr__(self):
        return f'[{self.lo},{self.hi}]'


class DT:
    def __init__(self, name, mpc, np):
        self.name, self.mpc, self.np = name, mpc, np
        if name == 'int':
            self.kind, self.l, self.f = 'secint', 6, 0
            self.T = mpc.SecInt(6)
            self.alpha = dict(arith=[0, 1, -1, 2, -3, 5, -6, 31, -32], cmp=[0, -1, 1, 15, -16, 2, -7], bits=[0, 1],
                              nz=[1, -1, 2, -3, 5], small=[0, 1, -1, 2, -2, 3], uv=[0, 1, 2, 3, 4, 5])
            self.one, self.zero = 1, 0
        elif name == 'fxp':
            self.kind, self.l, self.f = 'secfxp', 8, 3
            self.T = mpc.SecFxp(8, 3)
            self.Fx = make_fx(3, 8)
            self.alpha = dict(arith=[0, 8, -8, 12, -1, 20, -28, 1, 16], cmp=[0, -1, 1, 8, -12, 63, -64], bits=[0, 8],
                              nz=[8, -8, 12, -20, 4, 32], small=[0, 8, -8, 16, -16, 24], ints=[0, 8, -8, 16, -24, 40])
            self.one, self.zero = self.Fx(8), self.Fx(0)
        else:
            q = {'gf5': 5, 'gf4': 4, 'gf256': 256}[name]
            self.kind, self.l, self.f, self.q = 'secfld', (q - 1).bit_length(), 0, q
            self.T = mpc.SecFld(q)
            from mc.ref.fields import spec_of
            from mc.ref import shamir
            spec = spec_of(self.T.field)
            self.F = shamir.get_field(spec['p'], spec['mod']) if q <= 32 else LazyField(spec['p'], spec['mod'])
            self.FE = make_fe(self.F)
            a = {5: [0, 1, 4, 2, 3], 4: [0, 1, 3, 2], 256: [0, 1, 0xff, 2, 0x80, 0x53, 0xca, 3, 0x1b, 0xfe]}[q]
            self.alpha = dict(arith=a, cmp=a, bits=[0, 1], nz=[c for c in a if c], small=a)
            self.one, self.zero = self.FE(1), self.FE(0)
        if 'ints' not in self.alpha:
            self.alpha['ints'] = self.alpha['small']
        self.unit = 1 << self.f
        self.lo, self.hi = -(1 << (self.l - 1)), (1 << (self.l - 1)) - 1

    # -- building inputs ---------------------------------------------------------------------
    def plain(self, shape, codes):
        """NumPy array accepted by the secure array constructor."""
        np = self.np
        if self.kind == 'secfxp':
            return np.array([c / self.unit for c in codes], dtype=float).reshape(shape)
        a = np.empty(len(codes), dtype=object)
        a[:] = list(codes)
        return a.reshape(shape)

    def sec_array(self, shape, codes):
        return self.T.array(self.plain(shape, codes))

    def sec_scalar(self, code):
        if self.kind == 'secfxp':
            return self.T(code / self.unit)
        return self.T(code)

    def elem(self, code):
        if self.kind == 'secint':
            return code
        if self.kind == 'secfxp':
            return self.Fx(code)
        return self.FE(code)

    def from_int(self, n):
        """Reference element denoted by the public integer n."""
        if self.kind == 'secint':
            return n
        if self.kind == 'secfxp':
            return self.Fx.of(n)
        return self.FE.of(n)

    def ref_array(self, shape, codes):
        return obj_array(self.np, shape, [self.elem(c) for c in codes])

    def scal_array(self, shape, codes):
        return obj_array(self.np, shape, [self.sec_scalar(c) for c in codes])

    def markers(self, n, j):
        """Position markers: n codes, (almost) all distinct; j selects one of two fillings."""
        if self.kind == 'secint':
            return [(-3 + i if j == 0 else (31, -32, 7, -1, 0, 12, -20, 3)[i % 8]) for i in range(n)]
        if self.kind == 'secfxp':
            return [((-12, -5, 1, 8, 13, 20, -24, 35)[i % 8] if j == 0 else (63, -64, 4, -1, 0, 16, -40, 9)[i % 8]) for i in range(n)]
        q = self.q
        return [((i + 1) % q if j == 0 else (3 * i + 2) % q) for i in range(n)]

    # -- helpers for reference lambdas ---------------------------------------------------------
    def vec(self, f):
        np = self.np
        g = np.frompyfunc(f, 1, 1)
        return lambda x: g(x) if isinstance(x, np.ndarray) else f(x)

    def tr(self, x):
        """One secure truncation per element (fixed point); range check for integers; identity for fields."""
        if self.kind == 'secfxp':
            return self.vec(lambda e: self.Fx.of(e).tr())(x)
        return self.chk(x)

    def chk(self, x):
        if self.kind == 'secint':
            def c(e):
                if isinstance(e, IntI):
                    return e
                if not self.lo <= int(e) <= self.hi:
                    raise Skip('integer out of range')
                return e
            return self.vec(c)(x)
        if self.kind == 'secfxp':
            return self.vec(lambda e: self.Fx.of(e).check())(x)
        return x

    def mag(self, x, floor1=False):
        """Elementwise magnitude (range guard for intermediate values of integer sums of products)."""
        if self.kind != 'secint':
            return x
        return self.vec(lambda e: max(abs(e), 1) if floor1 else abs(e))(x)

    def bits(self, b):
        """Booleans (or 0/1 ints) -> the type's 1 / 0 elements."""
        return self.vec(lambda e: self.one if e else self.zero)(b)

    def code_of(self, e):
        """Code of a reference element (points only)."""
        if self.kind == 'secint':
            return int(e)
        if self.kind == 'secfxp':
            e = self.Fx.of(e)
            assert e.point()
            return int(e.lo)
        return self.FE.of(e).c

    # -- normalising opened results ------------------------------------------------------------------
    def norm(self, x, public=False):
        np = self.np
        if isinstance(x, (list, tuple)):
            return [self.norm(y, public) for y in x]
        if hasattr(x, 'value') and hasattr(type(x), 'field') and not hasattr(x, 'modulus'):     # FiniteFieldArray
            if type(x).field is not self.T.field:
                return ('wrong-field', repr(type(x)))
            v = x.value
            return ('A', tuple(v.shape), [self._fcode(e) for e in v.flat])
        if isinstance(x, np.ndarray):
            return ('A', tuple(x.shape), [self._code(e, public) for e in x.flat])
        return ('A', (), [self._code(x, public)])

    def _fcode(self, v):
        from mc.ref import shamir
        if self.kind != 'secfld':
            return ('field-value', repr(v))
        return shamir.code_of(self.F, v)

    def _code(self, e, public):
        np = self.np
        if hasattr(e, 'modulus') and hasattr(e, 'value'):          # field element
            if type(e) is not self.T.field:
                return ('wrong-field', repr(type(e)))
            return self._fcode(e.value)
        if public or self.kind == 'secfld':
            if isinstance(e, (bool, np.bool_, int, np.integer)):
                return int(e)
            return ('bad', repr(e))
        if self.kind == 'secint':
            if isinstance(e, (int, np.integer)) and not isinstance(e, (bool, np.bool_)):
                return int(e)
            return ('bad', repr(e))
        if isinstance(e, (float, np.floating)):
            c = float(e) * self.unit
            return int(c) if c == int(c) else ('off-grid', float(e))
        if isinstance(e, (int, np.integer)) and not isinstance(e, (bool, np.bool_)):
            return int(e) * self.unit
        return ('bad', repr(e))

    def norm_ref(self, x):
        np = self.np
        if isinstance(x, (list, tuple)):
            return [self.norm_ref(y) for y in x]
        if isinstance(x, np.ndarray):
            return ('A', tuple(x.shape), list(x.flat))
        return ('A', (), [x])

    def match(self, got, want, public=False):
        """True iff opened code `got` is admissible for reference element `want`."""
        np = self.np
        if isinstance(got, tuple):
            return False
        if isinstance(want, IntI):
            return want.lo <= got <= want.hi
        if public:
            return got == int(want)
        if self.kind == 'secint':
            return isinstance(want, (int, np.integer, bool, np.bool_)) and got == int(want)
        if self.kind == 'secfxp':
            w = self.Fx.of(want)
            return w.lo <= got <= w.hi
        return got == self.FE.of(want).c


def compare(dt, got, want, public=False):
    """None if the normalised opened result matches the normalised reference, else a short failure class."""
    if isinstance(want, list):
        if not isinstance(got, list) or len(got) != len(want):
            return 'structure'
        for g, w in zip(got, want):
            r = compare(dt, g, w, public)
            if r:
                return r
        return None
    if isinstance(got, list) or got[0] != 'A':
        return 'structure'
    if got[1] != want[1] and len(got[2]) != len(want[2]):
        return 'value-shape'
    for g, w in zip(got[2], want[2]):
        if not dt.match(g, w, public):
            return 'value'
    return 'value-shape' if got[1] != want[1] else None


def declared(r):
    """Declared shapes (and integral flags) of a secure result: what a program sees before values exist."""
    if isinstance(r, (list, tuple)):
        return [declared(x) for x in r]
    return (getattr(r, 'shape', ()), getattr(r, 'integral', None))


def decl_check(dt, r, want, got):
    """Failure class if a declared shape differs from the reference shape / an integral flag is unsound."""
    if isinstance(want, list):
        if not isinstance(r, (list, tuple)) or len(r) != len(want):
            return 'structure'
        for i, w in enumerate(want):
            c = decl_check(dt, r[i], w, got[i] if isinstance(got, list) and i < len(got) else None)
            if c:
                return c
        return None
    if isinstance(r, (list, tuple)):
        return None
    sh = getattr(r, 'shape', ())
    if tuple(sh) != tuple(want[1]):
        return 'declared-shape'
    if dt.kind == 'secfxp' and getattr(r, 'integral', None) is True and got is not None and not isinstance(got, list):
        if any(isinstance(c, int) and c % dt.unit for c in got[2]):
            return 'integral-flag'
    return None


# ------------------------------------------------------------------------------------------------------------------
# operation table
# ------------------------------------------------------------------------------------------------------------------

class Op:
    __slots__ = ('site', 'variant', 'shapes', 'fn', 'ref', 'scal', 'alpha', 'public', 'mp', 'marker', 'group', 'trunc')

    def __init__(self, site, variant, shapes, fn, ref, scal, alpha, public, mp, marker, group, trunc):
        self.site, self.variant, self.shapes, self.fn, self.ref, self.scal = site, variant, shapes, fn, ref, scal
        self.alpha, self.public, self.mp, self.marker, self.group, self.trunc = alpha, public, mp, marker, group, trunc

    @property
    def name(self):
        return f'{self.site}:{self.variant}'

    @property
    def vclass(self):
        return self.variant.split('@')[0].split('|')[0]


def sstr(s):
    return 'S' if s == 'S' else 'x'.join(map(str, s)) if s else '0d'


def size_of(s):
    n = 1
    if s != 'S':
        for d in s:
            n *= d
    return n


def build_ops(dt):
    """All operation variants for one dtype.  fn: on secure arrays; ref: on object arrays of reference elements (default: fn);
    scal: on object arrays of secure scalars (True: same as ref/fn)."""
    mpc, np, T, kind = dt.mpc, dt.np, dt.T, dt.kind
    ops = []
    state = dict(group='E')
    tr, chk, bits, mag = dt.tr, dt.chk, dt.bits, dt.mag
    num = kind != 'secfld'          # ordered types
    fxp = kind == 'secfxp'

    def op(site, variant, shapes, fn, ref=None, scal=None, alpha='arith', public=False, mp=False, marker=False, trunc=False):
        ops.append(Op(site, variant, list(shapes), fn, ref or fn, scal, alpha, public, mp, marker, state['group'], trunc))

    def pyf(f, n=2):
        g = np.frompyfunc(f, n, 1)
        return lambda *a: g(*a)

    def guard_mul(ref_abs):
        """Integer range guard: the same expression on magnitudes bounds every partial sum/product."""
        def g(*a):
            if kind == 'secint':
                chk(ref_abs(*[mag(x) for x in a]))
        return g

    # ---- E: elementwise, both operands secret, all broadcast pairs ---------------------------------------------------
    for sa, sb in BPAIRS:
        v = f'@{sstr(sa)},{sstr(sb)}'
        first = (sa, sb) in (((2, 2), (2, 2)), ((1, 3), (2, 1)))
        op('np_add', v, [sa, sb], lambda a, b: a + b, scal=True, mp=first)
        op('np_subtract', v, [sa, sb], lambda a, b: a - b, scal=True, mp=(sa, sb) == ((2, 2), (2,)))

        def mul_ref(a, b):
            guard_mul(lambda x, y: x * y)(a, b)
            return tr(a * b)
        op('np_multiply', v, [sa, sb], lambda a, b: a * b, mul_ref, scal=lambda a, b: a * b, mp=first, trunc=True)
        if fxp:
            op('np_divide', 'secret:shape-only' + v, [sa, sb],  lambda a, b: a / b,
               lambda a, b: dt.vec(lambda e: dt.Fx(-(1 << (dt.l - 1)) + 1, (1 << (dt.l - 1)) - 1))(a + b * 0), alpha='small/nz')
        if not num:
            op('np_divide', v, [sa, sb], lambda a, b: a / b, scal=True, alpha='arith/nz', mp=(sa, sb) == ((2, 2), (2,)))
            op('np_equal', 'eq' + v, [sa, sb], lambda a, b: a == b, lambda a, b: bits(pyf(operator.eq)(a, b)),
               scal=pyf(operator.eq), mp=first)
            op('np_equal', 'ne' + v, [sa, sb], lambda a, b: a != b, lambda a, b: bits(pyf(operator.ne)(a, b)),
               scal=pyf(operator.ne))
        else:
            for nm, o in (('lt', operator.lt), ('le', operator.le), ('ge', operator.ge), ('gt', operator.gt)):
                op('np_less', f'{nm}{v}', [sa, sb], (lambda o: lambda a, b: o(a, b))(o),
                   (lambda o: lambda a, b: (chk(a - b), bits(pyf(o)(a, b)))[1])(o), scal=pyf(o), alpha='cmp', mp=first and nm in ('lt', 'ge'))
            for nm, o in (('eq', operator.eq), ('ne', operator.ne)):
                op('np_equal', f'{nm}{v}', [sa, sb], (lambda o: lambda a, b: o(a, b))(o),
                   (lambda o: lambda a, b: (chk(a - b), bits(pyf(o)(a, b)))[1])(o), scal=pyf(o), alpha='cmp', mp=first and nm == 'eq')
            op('np_minimum', v, [sa, sb], lambda a, b: np.minimum(a, b), lambda a, b: (chk(a - b), np.minimum(a, b))[1],
               scal=pyf(lambda x, y: mpc.min(x, y)), alpha='cmp', mp=first)
            op('np_maximum', v, [sa, sb], lambda a, b: np.maximum(a, b), lambda a, b: (chk(a - b), np.maximum(a, b))[1],
               scal=pyf(lambda x, y: mpc.max(x, y)), alpha='cmp')

    # ---- P: one secret array and a public / scalar operand ---------------------------------------------------------------
    state['group'] = 'P'
    for s in SHAPES:
        v = sstr(s)
        n = size_of(s)
        pub = np.array([(i % 3) - 1 + (2 if i % 2 else 0) for i in range(n)]).reshape(s)        # public int array, same shape
        op('np_add', f'A+int@{v}', [s], lambda a: a + 3, scal=True)
        op('np_add', f'int+A@{v}', [s], lambda a: 2 + a, scal=True)
        op('np_subtract', f'A-int@{v}', [s], lambda a: a - 3, scal=True)
        op('np_subtract', f'int-A@{v}', [s], lambda a: 1 - a, scal=True, mp=s == (2, 2))
        op('np_multiply', f'A*int@{v}', [s], lambda a: a * 3, lambda a: (guard_mul(lambda x: x * 3)(a), a * 3)[1], scal=True, alpha='small')
        op('np_multiply', f'int*A@{v}', [s], lambda a: -2 * a, lambda a: (guard_mul(lambda x: x * 2)(a), -2 * a)[1], scal=True, alpha='small')
        op('np_add', f'A+ndarray@{v}', [s], lambda a, p=pub: a + p)
        op('np_add', f'ndarray+A@{v}', [s], lambda a, p=pub: p + a)
        op('np_subtract', f'A-ndarray@{v}', [s], lambda a, p=pub: a - p)
        op('np_subtract', f'ndarray-A@{v}', [s], lambda a, p=pub: p - a, mp=s == (2, 1, 2))
        op('np_multiply', f'A*ndarray@{v}', [s], lambda a, p=pub: a * p, lambda a, p=pub: (guard_mul(lambda x: x * abs(p))(a), a * p)[1],
           alpha='small', mp=s == (1, 3))
        op('np_multiply', f'ndarray*A@{v}', [s], lambda a, p=pub: p * a, lambda a, p=pub: (guard_mul(lambda x: x * abs(p))(a), a * p)[1],
           alpha='small')
        op('np_add', f'A+S@{v}', [s, 'S'], lambda a, b: a + b, scal=True)
        op('np_add', f'S+A@{v}', [s, 'S'], lambda a, b: b + a, scal=True)
        op('np_subtract', f'A-S@{v}', [s, 'S'], lambda a, b: a - b, scal=True)
        op('np_subtract', f'S-A@{v}', [s, 'S'], lambda a, b: b - a, scal=True, mp=s == (3,))

        def muls_ref(a, b):
            guard_mul(lambda x, y: x * y)(a, b)
            return tr(a * b)
        op('np_multiply', f'A*S@{v}', [s, 'S'], lambda a, b: a * b, muls_ref, scal=lambda a, b: a * b, trunc=True, mp=s == (2, 2))
        op('np_multiply', f'S*A@{v}', [s, 'S'], lambda a, b: b * a, muls_ref, scal=lambda a, b: a * b, trunc=True)
        if kind != 'secfxp':
            F = T.field
            felt, farr = F(2), F.array(np.array([(i % 3) + 1 for i in range(n)]).reshape(s))
            parr = np.array([(i % 3) + 1 for i in range(n)]).reshape(s)
            op('np_add', f'A+fieldelt@{v}', [s], lambda a, e=felt: a + e, lambda a: a + 2)
            op('np_subtract', f'fieldelt-A@{v}', [s], lambda a, e=felt: e - a, lambda a: 2 - a)
            op('np_multiply', f'A*fieldelt@{v}', [s], lambda a, e=felt: a * e, lambda a: (guard_mul(lambda x: x * 2)(a), a * 2)[1], alpha='small')
            op('np_add', f'A+fieldarray@{v}', [s], lambda a, e=farr: a + e, lambda a, p=parr: a + p)
            op('np_multiply', f'A*fieldarray@{v}', [s], lambda a, e=farr: a * e, lambda a, p=parr: (guard_mul(lambda x: x * p)(a), a * p)[1],
               alpha='small')
        if not num:
            op('np_divide', f'A/int@{v}', [s], lambda a: a / 3, scal=True)
            op('np_divide', f'int/A@{v}', [s], lambda a: 1 / a, scal=True, alpha='nz', mp=s == (3,))
            op('np_divide', f'A/S@{v}', [s, 'S'], lambda a, b: a / b, scal=True, alpha='arith/nz')
            op('np_divide', f'A/fieldarray@{v}', [s], lambda a, e=farr: a / e, lambda a, p=parr: a / p)
            op('np_equal', f'eq:A,int@{v}', [s], lambda a: a == 1, lambda a: bits(pyf(operator.eq)(a, 1)))
        elif kind == 'secint':
            op('np_divide', f'A/int@{v}', [s], lambda a: a / 2, lambda a: dt.vec(lambda e: e // 2 if e % 2 == 0 else _skip())(a))
        else:
            fpub = np.array([(0.5, -1.5, 2.25, 1.0)[i % 4] for i in range(n)]).reshape(s)
            op('np_add', f'A+float@{v}', [s], lambda a: a + 2.5, scal=True)
            op('np_subtract', f'float-A@{v}', [s], lambda a: 1.5 - a, scal=True)
            op('np_multiply', f'A*float@{v}', [s], lambda a: a * 2.5, lambda a: tr(a * 2.5), scal=True, trunc=True, mp=s == (2, 2))
            op('np_multiply', f'A*float-pow2@{v}', [s], lambda a: a * 0.5, lambda a: tr(a * 0.5), scal=True, trunc=True)
            op('np_multiply', f'float*A@{v}', [s], lambda a: -0.375 * a, lambda a: tr(a * -0.375), scal=True, trunc=True)
            op('np_add', f'A+floatarray@{v}', [s], lambda a, p=fpub: a + p, lambda a, p=fpub: a + _grid(dt, p))
            op('np_multiply', f'A*floatarray@{v}', [s], lambda a, p=fpub: a * p, lambda a, p=fpub: tr(a * _grid(dt, p)), trunc=True)
            op('np_divide', f'A/int@{v}', [s], lambda a: a / 2, lambda a: tr(a * 0.5), trunc=True)
            op('np_divide', f'A/float@{v}', [s], lambda a: a / 0.5, lambda a: tr(a * 2.0), trunc=True)
            anyval = lambda a: dt.vec(lambda e: dt.Fx(-(1 << (dt.l - 1)) + 1, (1 << (dt.l - 1)) - 1))(a)
            op('np_divide', f'A/secret-S:shape-only@{v}', [s, 'S'], lambda a, b: a / b, lambda a, b: anyval(a), alpha='small/nz')
            op('np_divide', f'int/secret-A:shape-only@{v}', [s], lambda a: 1 / a, anyval, alpha='nz')
            op('np_divide', f'A/float-inexact@{v}', [s], lambda a: a / 2.5, lambda a: tr(a * (1 / 2.5)), trunc=True)
            op('np_divide', f'A/floatarray@{v}', [s], lambda a, p=fpub: a / p, lambda a, p=fpub: tr(a * _grid(dt, 1 / p)), trunc=True)
        if num:
            for nm, o in (('lt', operator.lt), ('le', operator.le), ('ge', operator.ge), ('gt', operator.gt), ('eq', operator.eq),
                          ('ne', operator.ne)):
                site = 'np_equal' if nm in ('eq', 'ne') else 'np_less'
                op(site, f'{nm}:A,int@{v}', [s], (lambda o: lambda a: o(a, 1))(o), (lambda o: lambda a: bits(pyf(o)(a, 1)))(o), alpha='cmp')
                op(site, f'{nm}:int,A@{v}', [s], (lambda o: lambda a: o(-1, a))(o), (lambda o: lambda a: bits(pyf(o)(-1, a)))(o), alpha='cmp')
                op(site, f'{nm}:A,S@{v}', [s, 'S'], (lambda o: lambda a, b: o(a, b))(o),
                   (lambda o: lambda a, b: (chk(a - b), bits(pyf(o)(a, b)))[1])(o), alpha='cmp')
            op('np_minimum', f'A,int@{v}', [s], lambda a: np.minimum(a, 1), alpha='cmp')
            op('np_maximum', f'A,S@{v}', [s, 'S'], lambda a, b: np.maximum(a, b), lambda a, b: (chk(a - b), np.maximum(a, b))[1], alpha='cmp')

    # ---- U: unary protocols ------------------------------------------------------------------------------------------------
    state['group'] = 'U'
    l, f, unit = dt.l, dt.f, dt.unit

    def code_arr(a):
        """Object array of reference elements -> object array of their integer codes."""
        return dt.vec(dt.code_of)(a)

    def from_codes(c):
        return dt.vec(dt.elem)(c)

    for s in SHAPES:
        v = '@' + sstr(s)
        op('np_negative', v, [s], lambda a: -a, scal=True, mp=s == (2, 2))
        op('np_negative', 'ufunc' + v, [s], lambda a: np.negative(a), lambda a: -a)
        op('np_multiply', 'square' + v, [s], lambda a: a * a, lambda a: (guard_mul(lambda x: x * x)(a), tr(a * a))[1], scal=True, trunc=True,
           alpha='small' if kind == 'secint' else 'arith')
        op('np_add', 'A+A' + v, [s], lambda a: a + a, scal=True)
        op('np_subtract', 'A-A' + v, [s], lambda a: a - a)
        op('np_pow', 'pow0' + v, [s], lambda a: a ** 0, lambda a: bits(dt.vec(lambda e: True)(a)))
        op('np_pow', 'pow1' + v, [s], lambda a: a ** 1, lambda a: a + 0)
        op('np_pow', 'pow2' + v, [s], lambda a: a ** 2, lambda a: (guard_mul(lambda x: x * x)(a), tr(a * a))[1], scal=True, trunc=True,
           alpha='small' if kind == 'secint' else 'arith', mp=s == (3,))
        op('np_pow', 'pow3' + v, [s], lambda a: a ** 3, lambda a: (guard_mul(lambda x: x * x * x)(a), tr(tr(a * a) * a))[1], trunc=True,
           alpha='small' if kind == 'secint' else 'ints' if fxp else 'arith')
        op('np_left_shift', 'int' + v, [s], lambda a: a << 1, lambda a: a * 2, alpha='small')
        if s != ():
            sh = np.array([i % 3 for i in range(size_of(s))]).reshape(s)
            op('np_left_shift', 'ndarray' + v, [s], lambda a, sh=sh: a << sh, lambda a, sh=sh: a * (2 ** sh), alpha='small')
        if not num:
            q = dt.q
            op('np_reciprocal', '1/A' + v, [s], lambda a: 1 / a, scal=True, alpha='nz')
            op('np_pow', 'pow-1' + v, [s], lambda a: a ** -1, lambda a: 1 / a, alpha='nz', mp=s == (2,))
            op('np_pow', 'pow-2' + v, [s], lambda a: a ** -2, lambda a: 1 / (a * a), alpha='nz')
            op('np_pow', 'pow(q-1)' + v, [s], lambda a, q=q: a ** (q - 1), lambda a: bits(dt.vec(lambda e: bool(e))(a)))
            if q == 256:
                op('np_pow', 'pow254' + v, [s], lambda a: a ** 254, lambda a: dt.vec(lambda e: e.inv() if e else e)(a), mp=s == (2,))
        else:
            sg = lambda e: (e > 0) - (e < 0)
            op('np_sgn', v, [s], lambda a: mpc.np_sgn(a), lambda a: dt.vec(lambda e: dt.elem(sg(e) * unit))(a),
               scal=pyf(lambda x: mpc.sgn(x), 1), mp=s == (2, 2))
            op('np_sgn', 'LT' + v, [s], lambda a: mpc.np_sgn(a, LT=True), lambda a: bits(dt.vec(lambda e: e < 0)(a)))
            op('np_sgn', 'EQ' + v, [s], lambda a: mpc.np_sgn(a, EQ=True), lambda a: bits(dt.vec(lambda e: e == 0)(a)))
            op('np_sgn', 'l' + v, [s], lambda a: mpc.np_sgn(a, l=l - 1), lambda a: dt.vec(lambda e: dt.elem(sg(e) * unit))(a), alpha='cmp')
            op('np_absolute', v, [s], lambda a: abs(a), scal=True, mp=s == (1, 3))
            op('np_absolute', 'ufunc' + v, [s], lambda a: np.absolute(a), lambda a: abs(a))
            op('np_lsb', v, [s], lambda a: mpc.np_lsb(a), lambda a: bits(dt.vec(lambda e: dt.code_of(e) & 1)(a)),
               scal=pyf(lambda x: mpc.lsb(x), 1))

            def trunc_ref(g):
                def r(a):
                    def one(e):
                        c = Fraction(dt.code_of(e), 1 << g)
                        lo, hi = math.floor(c), math.ceil(c)
                        return IntI(lo, hi) if kind == 'secint' else dt.Fx(lo, hi)
                    return dt.vec(one)(a)
                return r
            for g in (1, 2):
                op('np_trunc', f'|f={g}' + v, [s], (lambda g: lambda a: mpc.np_trunc(a, f=g))(g), trunc_ref(g), trunc=True, mp=s == (2,) and g == 1)
            if fxp:
                op('np_trunc', 'default' + v, [s], lambda a: mpc.np_trunc(a), trunc_ref(f), trunc=True)
        # bit decomposition
        nb = l
        if num or dt.name != 'gf4' or True:
            def tobits_ref(nbits):
                def r(a):
                    c = code_arr(a)
                    out = np.empty(np.shape(c) + (nbits,), dtype=object)
                    for idx in np.ndindex(*np.shape(c)):
                        x = int(c[idx]) if isinstance(c, np.ndarray) else int(c)
                        for i in range(nbits):
                            out[idx + (i,)] = dt.one if ((x % (1 << l)) >> i) & 1 else dt.zero
                    return out
                return r
            op('np_to_bits', v, [s], lambda a: mpc.np_to_bits(a), tobits_ref(nb), mp=s == (2,))
            if nb > 2:
                op('np_to_bits', 'l=2' + v, [s], lambda a: mpc.np_to_bits(a, l=2), tobits_ref(2))
        op('np_is_zero_public', v, [s], lambda a: mpc.np_is_zero_public(a), lambda a: dt.vec(lambda e: not bool(e))(a), public=True,
           mp=s == (2, 2))
    for s in [(2,), (3,), (2, 2), (1, 3), (2, 1, 2)]:
        # from_bits: the last axis holds the bits (non-negative numbers only)
        def frombits_ref(a):
            c = code_arr(a)
            w = c.shape[-1]
            out = np.empty(c.shape[:-1], dtype=object)
            for idx in np.ndindex(*c.shape[:-1]):
                out[idx] = dt.from_int(sum((1 if c[idx + (i,)] else 0) << i for i in range(w)))
            return out if out.shape else out[()]
        op('np_from_bits', '@' + sstr(s), [s], lambda a: mpc.np_from_bits(a), frombits_ref, alpha='bits', mp=s == (2, 2))
    if num:
        for n in (1, 2, 3, 4, 5):
            op('np_unit_vector', f'|n={n}@S', ['S'], (lambda n: lambda a: mpc.np_unit_vector(a, n))(n),
               (lambda n: lambda a: (_skip() if not 0 <= dt.code_of(a) // unit < n or dt.code_of(a) % unit else None,
                                     obj_array(np, (n,), [dt.one if i == dt.code_of(a) // unit else dt.zero for i in range(n)]))[1])(n),
               alpha='ints' if fxp else 'uv', mp=n == 3)

    # ---- M: matmul, outer, convolve, vander, det ---------------------------------------------------------------------------
    state['group'] = 'M'
    malpha = 'small' if kind == 'secint' else 'arith'
    MM = [((2,), (2,)), ((3,), (3,)), ((2, 2), (2, 2)), ((2, 2), (2,)), ((2,), (2, 2)), ((1, 3), (3,)), ((1, 3), (3, 1)), ((2, 1), (1, 3)),
          ((2, 1, 2), (2, 2)), ((2, 1, 2), (2,)), ((2,), (2, 1, 2).__class__((2, 2, 1))), ((2, 2), (2, 2, 1)), ((1,), (1,))]

    def mm_ref(a, b):
        guard_mul(lambda x, y: x @ y)(a, b)
        return tr(a @ b)
    for sa, sb in MM:
        v = f'@{sstr(sa)},{sstr(sb)}'
        op('np_matmul', v, [sa, sb], lambda a, b: a @ b, mm_ref, scal=lambda a, b: a @ b, alpha=malpha, trunc=True,
           mp=(sa, sb) in (((2, 2), (2, 2)), ((2,), (2,)), ((2, 1, 2), (2,))))
        pa = np.array([(i % 3) - 1 for i in range(size_of(sa))]).reshape(sa)
        pb = np.array([2 - (i % 3) for i in range(size_of(sb))]).reshape(sb)
        op('np_matmul', 'A.ndarray' + v, [sa], lambda a, p=pb: a @ p, lambda a, p=pb: (guard_mul(lambda x: x @ abs(p))(a), a @ p)[1],
           alpha=malpha, mp=(sa, sb) == ((2, 2), (2,)))
        op('np_matmul', 'ndarray.A' + v, [sb], lambda b, p=pa: p @ b, lambda b, p=pa: (guard_mul(lambda x: abs(p) @ x)(b), p @ b)[1],
           alpha=malpha)
        if fxp:
            fa = np.array([(0.5, -1.5, 2.25, 1.0)[i % 4] for i in range(size_of(sa))]).reshape(sa)
            op('np_matmul', 'floatarray.A' + v, [sb], lambda b, p=fa: p @ b, lambda b, p=fa: tr(_grid(dt, p) @ b), trunc=True)
            fb = np.array([(1.0, -0.5, 2.25, 1.5)[i % 4] for i in range(size_of(sb))]).reshape(sb)
            op('np_matmul', 'A.floatarray' + v, [sa], lambda a, p=fb: a @ p, lambda a, p=fb: tr(a @ _grid(dt, p)), trunc=True)
    for s in [(2, 2), (1, 1), (2, 2, 2).__class__((2, 2, 2))]:
        op('np_matmul', 'A.A@' + sstr(s), [s], lambda a: a @ a, lambda a: (guard_mul(lambda x: x @ x)(a), tr(a @ a))[1], alpha=malpha,
           trunc=True)
    for sa, sb in [((2,), (2,)), ((2,), (3,)), ((3,), (1,)), ((2, 2), (2,)), ((), (2,)), ((1, 3), (2, 1))]:
        v = f'@{sstr(sa)},{sstr(sb)}'
        op('np_outer', v, [sa, sb], lambda a, b: np.outer(a, b), lambda a, b: (guard_mul(lambda x, y: np.outer(x, y))(a, b), tr(np.outer(a, b)))[1],
           alpha=malpha, trunc=True, mp=(sa, sb) == ((2,), (3,)))
    for sa, sb in [((1,), (1,)), ((2,), (1,)), ((2,), (2,)), ((3,), (2,)), ((2,), (3,)), ((3,), (3,))]:
        for mode in ('full', 'same', 'valid'):
            v = f'{mode}@{sstr(sa)},{sstr(sb)}'

            def conv_ref(a, b, mode=mode):
                """Definition: c[k] = sum_i a[i] b[k-i], then the NumPy window for the mode."""
                if kind == 'secint':
                    chk(_conv(np, mag(a), mag(b), mode))
                return tr(_conv(np, a, b, mode))
            op('np_convolve', v, [sa, sb], lambda a, b, mode=mode: np.convolve(a, b, mode=mode), conv_ref, alpha=malpha, trunc=True,
               mp=(sa, sb, mode) == ((3,), (2,), 'full'))
            pb = np.array([2 - (i % 3) for i in range(size_of(sb))])
            op('np_convolve', 'A,ndarray:' + v, [sa], lambda a, p=pb, mode=mode: np.convolve(a, p, mode=mode),
               lambda a, p=pb, mode=mode: (chk(_conv(np, mag(a), abs(p), mode)) if kind == 'secint' else 0, _conv(np, a, p, mode))[1],
               alpha=malpha)
    for s in [(1,), (2,), (3,)]:
        for N in (None, 0, 1, 2, 3, 4):
            for inc in (False, True):
                def vander_ref(a, N=N, inc=inc):
                    n = len(a) if N is None else N
                    out = np.empty((len(a), n), dtype=object)
                    for i in range(len(a)):
                        pw = dt.one
                        for j in range(n):
                            out[i, j if inc else n - 1 - j] = pw
                            if kind == 'secint':
                                chk(max(abs(a[i]), 1) ** (j + 1)) if j + 1 < n else 0
                            pw = tr(pw * a[i]) if j else a[i]
                    return out
                op('np_vander', f'|N={N}:inc={inc}@{sstr(s)}', [s], lambda a, N=N, inc=inc: np.vander(a, N, increasing=inc), vander_ref,
                   alpha='ints' if fxp and (N or 0) > 3 else malpha, trunc=True)
    if kind != 'secfxp':
        op('np_det', '@2x2', [(2, 2)], lambda a: np.linalg.det(a),
           lambda a: (_skip() if not (a[0, 0] * a[1, 1] - a[0, 1] * a[1, 0]) else None, a[0, 0] * a[1, 1] - a[0, 1] * a[1, 0])[1], mp=True)

    # ---- R: reductions, sorting, selection ---------------------------------------------------------------------------------
    state['group'] = 'R'

    def axes_of(s):
        nd = len(s)
        return [None] + list(range(-nd, nd)) + ([(0, 1), (1, 0), (-1, 0)] if nd >= 2 else []) + ([(0, 2), (0, 1, 2)] if nd == 3 else [])

    def prod_ref(a, axis):
        """Same pairing as np_prod (matters only for where the fixed-point truncations fall)."""
        if kind == 'secint':
            chk(np.prod(mag(a, floor1=True), axis=axis))
        if axis is None:
            a = a.reshape(-1)
        elif isinstance(axis, tuple):
            ax = tuple(i % a.ndim for i in axis)
            a = a.transpose(ax + tuple(i for i in range(a.ndim) if i not in ax))
            a = a.reshape((-1,) + a.shape[len(ax):])
        else:
            a = np.moveaxis(a, axis % a.ndim, 0)
        while a.shape[0] > 1:
            n = a.shape[0]
            n0 = n % 2
            m = tr(a[n0:(n + 1) // 2] * a[(n + 1) // 2:])
            a = np.concatenate((a[:1], m), axis=0) if n0 else m
        return a[0]

    for s in SHAPES:
        if s == ():
            continue
        v = '@' + sstr(s)
        for ax in axes_of(s):
            for kd in (False, True):
                t = f'|axis={ax}:keepdims={kd}'.replace(' ', '')
                op('np_sum', t + v, [s], lambda a, ax=ax, kd=kd: np.sum(a, axis=ax, keepdims=kd), scal=not isinstance(ax, tuple),
                   mp=(s, ax, kd) in (((2, 2), 0, True), ((2, 1, 2), (0, 2), False)))
                if num:
                    op('np_amin', t + v, [s], lambda a, ax=ax, kd=kd: np.amin(a, axis=ax, keepdims=kd), alpha='cmp',
                       mp=(s, ax, kd) == ((2, 2), 1, True))
                    op('np_amax', t + v, [s], lambda a, ax=ax, kd=kd: np.amax(a, axis=ax, keepdims=kd), alpha='cmp',
                       mp=(s, ax, kd) == ((3,), None, False))
                    if not isinstance(ax, tuple):
                        for am, nf in (('np_argmin', np.argmin), ('np_argmax', np.argmax)):
                            op(am, t + v, [s], lambda a, ax=ax, kd=kd, nf=nf: nf(a, axis=ax, keepdims=kd),
                               lambda a, ax=ax, kd=kd, nf=nf: dt.vec(dt.from_int)(nf(a, axis=ax, keepdims=kd)), alpha='cmp',
                               mp=(s, ax, kd, am) in (((2, 2), 0, False, 'np_argmin'), ((3,), None, False, 'np_argmax')))
            op('np_prod', f'|axis={ax}'.replace(' ', '') + v, [s], lambda a, ax=ax: np.prod(a, axis=ax), lambda a, ax=ax: prod_ref(a, ax),
               scal=(lambda a, ax=ax: np.prod(a, axis=ax)) if not isinstance(ax, tuple) else None, alpha=malpha, trunc=True,
               mp=(s, ax) in (((3,), None), ((2, 2), 1)))
            op('np_all', f'|axis={ax}'.replace(' ', '') + v, [s], lambda a, ax=ax: np.all(a, axis=ax),
               lambda a, ax=ax: bits(np.all(_tb(dt, a), axis=ax)), alpha='bits', mp=(s, ax) == ((2, 2), 0))
            op('np_any', f'|axis={ax}'.replace(' ', '') + v, [s], lambda a, ax=ax: np.any(a, axis=ax),
               lambda a, ax=ax: bits(np.any(_tb(dt, a), axis=ax)), alpha='bits', mp=(s, ax) == ((3,), None))
            if not isinstance(ax, tuple):
                op('np_cumsum', f'|axis={ax}' + v, [s], lambda a, ax=ax: np.cumsum(a, axis=ax), scal=True, mp=(s, ax) == ((2, 2), 1))
                if num:
                    op('np_sort', f'|axis={ax}' + v, [s], lambda a, ax=ax: np.sort(a, axis=ax), alpha='cmp',
                       mp=(s, ax) in (((3,), -1), ((2, 2), 0)))
                if ax is not None or len(s) < 2:
                    for ii in (False, True):
                        op('np_cumulative_sum', f'|axis={ax}:include_initial={ii}' + v, [s],
                           lambda a, ax=ax, ii=ii: np.cumulative_sum(a, axis=ax, include_initial=ii),
                           lambda a, ax=ax, ii=ii: _cumsum_ii(dt, np.cumsum(a, axis=0 if ax is None else ax), 0 if ax is None else ax, ii))
        op('np_sum', 'initial' + v, [s], lambda a: np.sum(a, initial=3), lambda a: np.sum(a) + 3)
        op('np_sum', 'initial-secure' + v, [s, 'S'], lambda a, b: np.sum(a, axis=0, initial=b), lambda a, b: np.sum(a, axis=0) + b)
        op('np_sum', 'method' + v, [s], lambda a: a.sum(axis=-1), lambda a: np.sum(a, axis=-1))
        if num:
            op('np_sort', 'method' + v, [s], lambda a: a.sort(), lambda a: np.sort(a), alpha='cmp')
            op('np_sort', 'key' + v, [s], lambda a: a.sort(key=lambda x: -x), lambda a: -np.sort(-a), alpha='cmp')
            for am in ('argmin', 'argmax'):
                nf = np.argmin if am == 'argmin' else np.argmax
                vf = np.amin if am == 'argmin' else np.amax
                for ax in [None] + list(range(-len(s), len(s))):
                    for kd in (False, True):
                        def unary_ref(a, ax=ax, kd=kd, nf=nf, vf=vf):
                            """a.argmin(): indices as unit vectors (same shape as the, possibly flattened, input) and the extreme values."""
                            if ax is None:
                                i = int(nf(a))
                                u = obj_array(np, (a.size,), [dt.one if j == i else dt.zero for j in range(a.size)])
                                return [u, vf(a, keepdims=kd)]
                            i = np.expand_dims(nf(a, axis=ax), ax)
                            grid = np.expand_dims(np.arange(a.shape[ax]), tuple(j for j in range(a.ndim) if j != ax % a.ndim))
                            return [bits(grid == i), vf(a, axis=ax, keepdims=kd) if kd else _as_obj(np, vf(a, axis=ax)).reshape(-1)]
                        op('np_' + am, f'method|axis={ax}:keepdims={kd}' + v, [s],
                           lambda a, ax=ax, kd=kd, am=am: list(getattr(a, am)(axis=ax, keepdims=kd)), unary_ref, alpha='cmp')
                op('np_' + am, 'arg_unary:arg_only' + v, [s], lambda a, am=am: getattr(mpc, 'np_' + am)(a, arg_unary=True, arg_only=True),
                   lambda a, nf=nf: obj_array(np, (a.size,), [dt.one if j == int(nf(a)) else dt.zero for j in range(a.size)]), alpha='cmp')
        if len(s) >= 2:
            nd = len(s)
            for off in (-1, 0, 1):
                for a1 in range(-nd, nd):
                    for a2 in range(-nd, nd):
                        if (a1 - a2) % nd:
                            op('np_trace', f'|offset={off}:axis1={a1}:axis2={a2}' + v, [s],
                               lambda a, off=off, a1=a1, a2=a2: np.trace(a, offset=off, axis1=a1, axis2=a2),
                               lambda a, off=off, a1=a1, a2=a2: _trace(dt, np.diagonal(a, offset=off, axis1=a1, axis2=a2)),
                               mp=(s, off, a1, a2) == ((2, 2), 0, 0, 1))
            op('np_trace', 'method' + v, [s], lambda a: a.trace(), lambda a: _trace(dt, np.diagonal(a)))

    # ---- W: selection ------------------------------------------------------------------------------------------------------
    state['group'] = 'W'
    for sc, sa, sb in [((2,), (2,), (2,)), ((2, 2), (2, 2), (2, 2)), ((2,), (2, 2), (2, 2)), ((2, 2), (2,), ()), ((), (3,), (3,)),
                       ((2, 1), (1, 3), (1, 3)), ((2, 1, 2), (2,), (2, 1, 2))]:
        v = f'@{sstr(sc)},{sstr(sa)},{sstr(sb)}'

        def where_ref(c, a, b):
            return np.where(_tb(dt, c), a, b)
        op('np_where', v, [sc, sa, sb], lambda c, a, b: np.where(c, a, b), where_ref, alpha='bits/small/small', mp=sc == (2,) and sa == (2, 2))
        op('np_if_swap', v, [sc, sa, sb], lambda c, a, b: list(mpc.np_if_swap(c, a, b)),
           lambda c, a, b: [where_ref(c, b, a), where_ref(c, a, b)], alpha='bits/small/small')
    for s in [(2,), (2, 2)]:
        v = '@' + sstr(s)
        op('np_where', 'public-cond' + v, [s, s], lambda a, b: np.where(True, a, b), lambda a, b: a + 0, alpha='small')
        op('np_where', 'int-branch' + v, [s, s], lambda c, a: np.where(c, a, 3), lambda c, a: np.where(_tb(dt, c), a, dt.from_int(3)),
           alpha='bits/small')
        if num:
            op('np_where', 'cmp-cond' + v, [s, s], lambda a, b: np.where(a < b, a, b), lambda a, b: (chk(a - b), np.minimum(a, b))[1], alpha='cmp',
               mp=s == (2, 2))

    # ---- S: structure (position markers) -------------------------------------------------------------------------------------
    state['group'] = 'S'

    def sop(site, variant, shapes, fn, ref=None, mp=False):
        op(site, variant, shapes, fn, ref, marker=True, mp=mp)

    def shapes_of_size(n):
        out = {(n,), (1, n), (n, 1), (1, 1, n)}
        for a in range(1, n + 1):
            if n % a == 0:
                out.add((a, n // a))
                for b in range(1, n // a + 1):
                    if (n // a) % b == 0:
                        out.add((a, b, n // a // b))
        if n == 1:
            out.add(())
        return sorted(out)

    for s in SHAPES:
        v = '@' + sstr(s)
        n, nd = size_of(s), len(s)
        for tgt in shapes_of_size(n):
            for order in ('C', 'F'):
                sop('np_reshape', f'|{sstr(tgt)}:order={order}' + v, [s], lambda a, tgt=tgt, order=order: np.reshape(a, tgt, order=order),
                    mp=(s, tgt, order) == ((2, 1, 2), (2, 2), 'F'))
        sop('np_reshape', '|-1' + v, [s], lambda a: np.reshape(a, -1))
        sop('np_reshape', 'method|-1' + v, [s], lambda a: a.reshape(-1), lambda a: np.reshape(a, -1))
        if n % 2 == 0:
            sop('np_reshape', 'method|(2,-1)' + v, [s], lambda a: a.reshape(2, -1), lambda a: np.reshape(a, (2, -1)))
            sop('np_reshape', 'method|((-1,2))' + v, [s], lambda a: a.reshape((-1, 2)), lambda a: np.reshape(a, (-1, 2)))
        for order in ('C', 'F'):
            sop('np_flatten', f'|order={order}' + v, [s], lambda a, order=order: a.flatten(order), lambda a, order=order: a.flatten(order),
                mp=(s, order) == ((2, 2), 'F'))
        sop('np_copy', v, [s], lambda a: np.copy(a), lambda a: a.copy())
        sop('np_copy', 'method' + v, [s], lambda a: a.copy(), lambda a: a.copy())
        sop('np_transpose', '|None' + v, [s], lambda a: np.transpose(a), mp=s == (2, 1, 2))
        sop('np_transpose', 'T' + v, [s], lambda a: a.T, lambda a: a.T)
        for perm in itertools.permutations(range(nd)):
            sop('np_transpose', f'|{perm}'.replace(' ', '') + v, [s], lambda a, perm=perm: np.transpose(a, perm))
            if nd >= 2:
                neg = tuple(i - nd for i in perm)
                sop('np_transpose', f'method|{neg}'.replace(' ', '') + v, [s], lambda a, neg=neg: a.transpose(*neg),
                    lambda a, neg=neg: np.transpose(a, neg))
        for a1 in range(-nd, nd):
            for a2 in range(-nd, nd):
                sop('np_swapaxes', f'|{a1},{a2}' + v, [s], lambda a, a1=a1, a2=a2: np.swapaxes(a, a1, a2), mp=(s, a1, a2) == ((2, 1, 2), 0, -1))
        sop('np_tolist', v, [s], lambda a: _flat(a.tolist()), lambda a: _flat(a.tolist()))
        for ax in [None] + list(range(-nd, nd)) + ([(0, 1)] if nd >= 2 else []):
            sop('np_flip', f'|axis={ax}'.replace(' ', '') + v, [s], lambda a, ax=ax: np.flip(a, axis=ax), mp=(s, ax) == ((2, 2), 0))
            if not isinstance(ax, tuple):
                for sh in (range(-n - 1, n + 2) if n <= 3 else (-5, -1, 0, 1, 2, 5)):
                    sop('np_roll', f'|shift={sh}:axis={ax}' + v, [s], lambda a, ax=ax, sh=sh: np.roll(a, sh, axis=ax),
                        mp=(s, sh, ax) == ((2, 2), 1, 0))
        if nd >= 1:
            sop('np_flipud', v, [s], lambda a: np.flipud(a))
            sop('np_squeeze', '|None' + v, [s], lambda a: np.squeeze(a))
            for ax in range(-nd, nd):
                if s[ax] == 1:
                    sop('np_squeeze', f'|{ax}' + v, [s], lambda a, ax=ax: np.squeeze(a, ax))
        if nd >= 2:
            sop('np_fliplr', v, [s], lambda a: np.fliplr(a))
            for k in range(-1, 5):
                for axes in [(0, 1), (1, 0), (-1, 0), (0, -1)] + ([(0, 2), (2, 1), (-1, -3)] if nd == 3 else []):
                    sop('np_rot90', f'|k={k}:axes={axes}'.replace(' ', '') + v, [s], lambda a, k=k, axes=axes: np.rot90(a, k, axes),
                        mp=(s, k, axes) == ((1, 3), 1, (0, 1)))
            for off in (-2, -1, 0, 1, 2, 3):
                for a1 in range(-nd, nd):
                    for a2 in range(-nd, nd):
                        if (a1 - a2) % nd:
                            sop('np_diagonal', f'|offset={off}:axis1={a1}:axis2={a2}' + v, [s],
                                lambda a, off=off, a1=a1, a2=a2: np.diagonal(a, off, a1, a2), mp=(s, off, a1, a2) == ((2, 1, 2), 0, 0, 2))
            sop('np_diagonal', 'method' + v, [s], lambda a: a.diagonal(1), lambda a: np.diagonal(a, 1))
        if nd in (1, 2):
            for k in range(-3, 4):
                sop('np_diag', f'|k={k}' + v, [s], lambda a, k=k: np.diag(a, k), mp=(s, k) == ((1, 3), 1))
        for k in (-2, -1, 0, 1):
            sop('np_diagflat', f'|k={k}' + v, [s], lambda a, k=k: np.diagflat(a, k))
        for ax in list(range(-nd - 1, nd + 1)) + ([(0, 1), (0, -1), (2, 0)] if nd >= 1 else []) + ([(0, 3), (-1, -4)] if nd == 2 else []):
            sop('np_expand_dims', f'|{ax}'.replace(' ', '') + v, [s], lambda a, ax=ax: np.expand_dims(a, ax))
        if nd >= 1:
            sop('iter', v, [s], lambda a: list(a), lambda a: [a[i] for i in range(a.shape[0])])
            sop('len', v, [s], lambda a: len(a), lambda a: a.shape[0])
        sop('flat', v, [s], lambda a: list(a.flat), lambda a: list(a.flat))
        # joining: 1..3 arrays of the same shape, and a public array in the middle
        pubs = np.arange(1, n + 1).reshape(s)
        for cnt in (1, 2, 3):
            sh = [s] * cnt
            cv = f'|n={cnt}' + v
            if nd >= 1:
                for ax in [None] + list(range(-nd, nd)):
                    sop('np_concatenate', f'|n={cnt}:axis={ax}' + v, sh, lambda *a, ax=ax: np.concatenate(a, axis=ax),
                        mp=(s, cnt, ax) == ((2, 2), 2, 1))
                sop('np_vstack', cv, sh, lambda *a: np.vstack(a), mp=(s, cnt) == ((3,), 2))
                sop('np_hstack', cv, sh, lambda *a: np.hstack(a), mp=(s, cnt) == ((2, 2), 2))
                sop('np_dstack', cv, sh, lambda *a: np.dstack(a), mp=(s, cnt) == ((2,), 2))
                if nd <= 2:
                    sop('np_column_stack', cv, sh, lambda *a: np.column_stack(a), mp=(s, cnt) == ((2,), 3))
            for ax in range(-nd - 1, nd + 1):
                sop('np_stack', f'|n={cnt}:axis={ax}' + v, sh, lambda *a, ax=ax: np.stack(a, axis=ax), mp=(s, cnt, ax) == ((1, 3), 2, -1))
        if nd >= 1:
            sop('np_concatenate', 'with-ndarray' + v, [s, s], lambda a, b, p=pubs: np.concatenate((a, p, b)),
                lambda a, b, p=pubs: np.concatenate((a, dt.vec(dt.from_int)(p.astype(object)), b)))
            sop('np_append', '|axis=None' + v, [s, s], lambda a, b: np.append(a, b))
            sop('np_append', '|axis=0' + v, [s, s], lambda a, b: np.append(a, b, axis=0))
            sop('np_block', 'row' + v, [s, s], lambda a, b: np.block([a, b]))
            sop('np_block', 'nested' + v, [s, s], lambda a, b: np.block([[a, b], [b, a]]))
        for ax in range(-nd, nd):
            for sec in range(1, s[ax] + 1):
                if s[ax] % sec == 0:
                    sop('np_split', f'|sections={sec}:axis={ax}' + v, [s], lambda a, sec=sec, ax=ax: list(np.split(a, sec, ax)),
                        mp=(s, sec, ax) == ((2, 2), 2, 1))
        if nd >= 1:
            pass
        if nd >= 2:
            sop('np_vsplit', v, [s], lambda a, s=s: list(np.vsplit(a, s[0])))
        if nd >= 2:
            sop('np_hsplit', v, [s], lambda a, s=s: list(np.hsplit(a, s[1])))
        if nd >= 3:
            sop('np_dsplit', v, [s], lambda a, s=s: list(np.dsplit(a, s[2])))
    for sa, sb in [((2,), (3,)), ((2, 2), (1, 2)), ((1, 3), (2, 3)), ((2, 1, 2), (2, 2, 2))]:
        v = f'@{sstr(sa)},{sstr(sb)}'
        ax = 0 if len(sa) < 3 else 1
        sop('np_concatenate', 'unequal' + v, [sa, sb], lambda a, b, ax=ax: np.concatenate((a, b), axis=ax))
        if len(sa) == 2:
            sop('np_vstack', 'unequal' + v, [sa, sb], lambda a, b: np.vstack((a, b)))
    sop('np_hstack', 'unequal@2x2,2x1', [(2, 2), (2, 1)], lambda a, b: np.hstack((a, b)))
    sop('np_column_stack', 'mixed@2,2x2', [(2,), (2, 2)], lambda a, b: np.column_stack((a, b)))
    sop('np_vstack', 'mixed@3,1x3', [(3,), (1, 3)], lambda a, b: np.vstack((a, b)))
    sop('np_fromlist', '@S,S,S', ['S', 'S', 'S'], lambda a, b, c: mpc.np_fromlist([a, b, c]), lambda a, b, c: obj_array(np, (3,), [a, b, c]), mp=True)
    if num:
        for n in (1, 2, 3):
            op('np_roll', f'secret-shift@{n},S', [(n,), 'S'], lambda a, b: np.roll(a, b),
               lambda a, b, n=n: (_skip() if dt.code_of(b) % unit or not 0 <= dt.code_of(b) // unit <= n else None, np.roll(a, dt.code_of(b) // unit))[1],
               alpha='small/' + ('ints' if fxp else 'uv'), mp=n == 3)

    # ---- G: indexing ---------------------------------------------------------------------------------------------------------
    state['group'] = 'G'

    def axis_keys(n):
        ks = [0, -1, slice(None), slice(1, None), slice(None, None, -1), slice(None, None, 2), slice(0, 0), slice(-1, None)]
        if n > 1:
            ks += [n - 1, -n, slice(None, 1), slice(n, None, -2)]
        return ks

    def kstr(k):
        if isinstance(k, tuple):
            return '(' + ','.join(kstr(x) for x in k) + ')'
        if isinstance(k, slice):
            return ':'.join('' if x is None else str(x) for x in (k.start, k.stop, k.step))
        if k is Ellipsis:
            return '...'
        if k is None:
            return 'None'
        if isinstance(k, np.ndarray):
            return 'array' + str(k.tolist()).replace(' ', '')
        return str(k).replace(' ', '')

    for s in SHAPES:
        v = '@' + sstr(s)
        nd = len(s)
        keys = [(), Ellipsis, (Ellipsis,), None, (None, Ellipsis), (Ellipsis, None)]
        for depth in range(1, nd + 1):
            for combo in itertools.product(*[axis_keys(s[i]) for i in range(depth)]):
                keys.append(combo if depth > 1 else combo[0])
                if depth == 1:
                    keys.append(combo)
        if nd >= 1:
            for k in axis_keys(s[-1])[:6]:
                keys += [(Ellipsis, k), (None, k), (k, None), (k, Ellipsis)]
            keys += [[0], [0, -1], np.array([0, 0]), np.array([[0], [-1]]), np.array([True] + [False] * (s[0] - 1)),
                     ([0, -1],), (np.array([0]), Ellipsis)]
        if nd >= 2:
            keys += [(Ellipsis, 0, None), (0, Ellipsis, -1), ([0, -1], [0, 0]), (slice(None), [0]), ([0], slice(None)), (0, [0, -1]),
                     np.ones(s, dtype=bool), (np.array([0, -1]), slice(None)), (None, 0, None)]
        if nd == 3:
            keys += [(0, Ellipsis, 0), ([0, 1], slice(None), [0, 1]), (slice(None), 0, [1]), ([1], 0, slice(None, None, -1))]
        for kk in keys:
            sop('np_getitem', f'|{kstr(kk)}' + v, [s], lambda a, kk=kk: a[kk], mp=(s == (2, 1, 2) and kstr(kk) in ('(1,0)', '(...,0)', '([0,1],::,[0,1])')))
        # update: a[key] = value for scalar / array / public values
        ukeys = [k for k in keys if not (k is None or (isinstance(k, tuple) and None in [x for x in k if x is None or not isinstance(x, (np.ndarray, list))]))][:60]
        for kk in ukeys:
            def upd_ref(a, b, kk=kk):
                a = a.copy()
                a[kk] = b
                return a
            sop('np_update', f'scalar|{kstr(kk)}' + v, [s, 'S'], lambda a, b, kk=kk: mpc.np_update(a, kk, b), upd_ref,
                mp=(s == (2, 2) and kstr(kk) in ('(0,-1)', '1::')))
        for kk in ([] if fxp else ukeys[:24]):       # public values are documented for secure values only; they work for int/fields
            def upd_pub(a, kk=kk):
                a = a.copy()
                a[kk] = dt.from_int(2)
                return a
            sop('np_update', f'int|{kstr(kk)}' + v, [s], lambda a, kk=kk: mpc.np_update(a, kk, 2), upd_pub)
        if nd >= 1:
            sop('np_update', 'array|0' + v, [s, s[1:]], lambda a, b: mpc.np_update(a, 0, b), lambda a, b: _upd(a, 0, b), mp=s == (2, 2))
            sop('np_update', 'array|::-1' + v, [s, s], lambda a, b: mpc.np_update(a, slice(None, None, -1), b),
                lambda a, b: _upd(a, slice(None, None, -1), b))

    # ---- IO ------------------------------------------------------------------------------------------------------------------
    state['group'] = 'IO'
    for s in SHAPES:
        v = '@' + sstr(s)
        sop('input', 'senders=0' + v, [s], lambda a: mpc.input(a, senders=0), lambda a: a + 0, mp=s in ((2, 1, 2), (), (3,)))
        sop('input', 'all-senders' + v, [s], lambda a: mpc.input(a), lambda a: [a + 0] * len(mpc.parties))
        sop('output', 'reshare' + v, [s], lambda a: mpc._reshare(a), lambda a: a + 0, mp=s == (2, 2))
        sop('output', 'list-of-arrays' + v, [s, s], lambda a, b: _OutList([a, b]), lambda a, b: [a + 0, b + 0])
        sop('input', 'list-of-arrays' + v, [s, s], lambda a, b: mpc.input([a, b], senders=0), lambda a, b: [a + 0, b + 0])
        if kind == 'secfxp':
            pi = np.asarray(np.arange(size_of(s)).reshape(s) - 1)
            sop('construct', 'int-ndarray' + v, [s], lambda a, pi=pi: T.array(pi), lambda a, pi=pi: dt.vec(dt.from_int)(pi.astype(object)))
            sop('construct', 'object-ndarray' + v, [s], lambda a, pi=pi: T.array(pi.astype(object)),
                lambda a, pi=pi: dt.vec(dt.from_int)(pi.astype(object)))
    return ops


def _conv(np, a, b, mode):
    """Convolution by definition on object arrays; NumPy's window for mode (1-D, nonempty)."""
    m, n = len(a), len(b)
    full = []
    for k in range(m + n - 1):
        acc = None
        for i in range(m):
            if 0 <= k - i < n:
                t = a[i] * b[k - i]
                acc = t if acc is None else acc + t
        full.append(acc)
    if mode == 'full':
        out = full
    elif mode == 'same':
        lo = (min(m, n) - 1) // 2
        out = full[lo:lo + max(m, n)]
    else:
        out = full[min(m, n) - 1:max(m, n)]
    r = np.empty(len(out), dtype=object)
    for i, x in enumerate(out):
        r[i] = x
    return r


def _cumsum_ii(dt, c, ax, ii):
    np = dt.np
    if not ii:
        return c
    sh = list(c.shape)
    sh[ax] = 1
    z = np.empty(sh, dtype=object)
    z.fill(dt.zero)
    return np.concatenate((z, c), axis=ax)


def _trace(dt, d):
    """Sum over the last axis (the diagonal); an empty diagonal sums to zero."""
    np = dt.np
    if d.shape[-1] == 0:
        z = np.empty(d.shape[:-1], dtype=object)
        z.fill(dt.zero)
        return z if z.shape else dt.zero
    return np.sum(d, axis=-1)


def _as_obj(np, x):
    if isinstance(x, np.ndarray):
        return x
    a = np.empty((), dtype=object)
    a[()] = x
    return a


class _OutList(list):
    """Marks a list of secure arrays that must be opened with ONE mpc.output call (documented: 'a list of secure objects')."""


def _flat(x):
    if isinstance(x, list):
        return [z for y in x for z in _flat(y)]
    return [x]


def _upd(a, key, b):
    a = a.copy()
    if getattr(b, 'shape', None) == ():
        b = b[()]
    a[key] = b
    return a


def _tb(dt, x):
    """Truth values of reference elements as a NumPy bool array."""
    return dt.np.asarray(dt.vec(bool)(x), dtype=bool)


def _skip():
    raise Skip('precondition')


def _grid(dt, p):
    """Public float array -> object array of grid-rounded fixed-point reference elements."""
    np = dt.np
    return np.frompyfunc(lambda x: dt.Fx.of(float(x)), 1, 1)(np.asarray(p, dtype=float))


# ------------------------------------------------------------------------------------------------------------------
# single-party engine
# ------------------------------------------------------------------------------------------------------------------

def input_domain(dt, op, lim):
    """All input tuples of one operation: list of tuples of code tuples (one per input)."""
    sizes = [size_of(s) for s in op.shapes]
    if op.marker:
        out = []
        for j in (0, 1):
            codes, pos = [], 0
            for n in sizes:
                m = dt.markers(pos + n, j)[pos:pos + n]
                codes.append(tuple(m))
                pos += n
            out.append(tuple(codes))
        return out
    names = op.alpha.split('/')
    alphas = [dt.alpha[names[min(i, len(names) - 1)]] for i in range(len(sizes))]
    n = sum(sizes)
    j = 2
    while j < max(len(a) for a in alphas) and (j + 1) ** n <= lim:
        j += 1
    per_elem = []
    for a, sz in zip(alphas, sizes):
        per_elem += [a[:j]] * sz
    if 2 ** n > lim:
        combos = []
        al = [a[:3] for a in per_elem]
        for v in range(3):
            combos.append(tuple(a[min(v, len(a) - 1)] for a in al))
        for pos in range(n):
            for v in (1, 2):
                combos.append(tuple(a[min(v, len(a) - 1)] if i == pos else a[0] for i, a in enumerate(al)))
        combos.append(tuple(a[i % 2] for i, a in enumerate(al)))
        combos.append(tuple(a[(i + 1) % len(a)] for i, a in enumerate(al)))
        combos = list(dict.fromkeys(combos))
    else:
        combos = itertools.product(*per_elem)
    out = []
    for combo in combos:
        codes, pos = [], 0
        for sz in sizes:
            codes.append(tuple(combo[pos:pos + sz]))
            pos += sz
        out.append(tuple(codes))
    return out


class Ctx:
    def __init__(self, dtname, k, prss, tier, seed):
        from mc import sp
        self.sp = sp
        self.mpc, self.seam = sp.setup(sec_param=k, no_prss=not prss)
        from mpyc.numpy import np
        self.np = np
        self.k, self.prss, self.tier, self.seed = k, prss, tier, seed
        if prss:
            self.rekey()
        self.dt = DT(dtname, self.mpc, np)
        self.ops = build_ops(self.dt)
        self.cfg = f"sp/{dtname}/k{k}{'-prss' if prss else ''}"

    def rekey(self):
        """PRSS keys are drawn with secrets.token_bytes when the threshold is set: redo it under the seam (deterministic)."""
        self.seam.begin('seeded', 12345, None)
        self.mpc.threshold = 0

    def secure_args(self, op, inputs):
        dt = self.dt
        return [dt.sec_scalar(c[0]) if s == 'S' else dt.sec_array(s, c) for s, c in zip(op.shapes, inputs)]

    def ref_args(self, op, inputs):
        dt = self.dt
        return [dt.elem(c[0]) if s == 'S' else dt.ref_array(s, c) for s, c in zip(op.shapes, inputs)]

    def scalar_reference(self, op, inputs):
        """Reference for the scalar oracle: as `want`, but fixed-point products are truncated one by one (each secure scalar
        multiplication truncates), evaluated with the same NumPy expression that runs on the secure scalars."""
        dt = self.dt
        if dt.kind != 'secfxp' or not op.trunc:
            return None
        T = dt.Fx.T
        try:
            args = [obj_array(self.np, () if s == 'S' else s, [T(c) for c in cs]) for s, cs in zip(op.shapes, inputs)]
            sc = op.scal if callable(op.scal) else op.fn
            w = dt.norm_ref(sc(*args))
            _chk_all(dt, w)
            return w
        except Skip:
            return 'skip'
        except Exception:           # scal uses runtime functions (mpc.sgn, ...): no multiplication involved, same reference
            return None

    def scal_args(self, op, inputs):
        dt = self.dt
        return [dt.scal_array((), c) if s == 'S' else dt.scal_array(s, c) for s, c in zip(op.shapes, inputs)]

    def reference(self, op, inputs):
        """Normalised reference result or None (precondition not met)."""
        dt = self.dt
        try:
            w = op.ref(*self.ref_args(op, inputs))
            w = dt.norm_ref(w)
            if not op.public:
                _chk_all(dt, w)
            return w
        except Skip:
            return None

    def evaluate(self, op, inputs, mode, script):
        seam, mpc, dt = self.seam, self.mpc, self.dt
        if self.prss:
            mpc._program_counter[:] = [0, 0]
        seam.begin('seeded' if mode == 'seeded2' else mode, self.seed + (1 if mode == 'seeded2' else 0), script)
        args = self.secure_args(op, inputs)
        before = [dt.norm(self.sp.opened(mpc, a), False) if isinstance(a, mpc.SecureArray) else None for a in args]
        r = op.fn(*args)
        if op.public:
            got = r.result() if hasattr(r, 'result') else r
        else:
            if isinstance(r, _OutList):
                got = self.sp.opened(mpc, list(r))
            elif isinstance(r, (list, tuple)):
                got = [self.sp.opened(mpc, x) if isinstance(x, mpc.SecureObject) else x for x in r]
            elif isinstance(r, mpc.SecureObject):
                got = self.sp.opened(mpc, r)
            else:
                got = r
        log = list(seam.log)
        for j, a in enumerate(args):
            # the operands belong to the caller: a secure array given to an operation still opens to the same values
            if before[j] is not None and op.site not in MUTATING_SITES and dt.norm(self.sp.opened(mpc, a), False) != before[j]:
                raise OperandChanged(f'operand {j} opens to {_show(dt.norm(self.sp.opened(mpc, a), False))} after the operation, '
                                     f'it was {_show(before[j])}')
        return r, dt.norm(got, op.public), log

    def scalar_oracle(self, op, inputs):
        seam, mpc, dt, np = self.seam, self.mpc, self.dt, self.np
        seam.begin('seeded', self.seed + 7, None)
        sc = op.scal if callable(op.scal) else op.fn
        r = sc(*self.scal_args(op, inputs))
        return self._open_scalars(r)

    def _open_scalars(self, r):
        np, mpc, dt = self.np, self.mpc, self.dt
        if isinstance(r, (list, tuple)):
            return [self._open_scalars(x) for x in r]
        if isinstance(r, np.ndarray):
            vals = self.sp.opened(mpc, list(r.flat)) if r.size else []
            return ('A', tuple(r.shape), [dt._code(v, False) for v in vals])
        return ('A', (), [dt._code(self.sp.opened(mpc, r), False)])


MUTATING_SITES = ('np_update',)        # a[key] = value is meant to change a


class OperandChanged(Exception):
    pass


def _chk_all(dt, w):
    if isinstance(w, list):
        for x in w:
            _chk_all(dt, x)
    else:
        for e in w[2]:
            dt.chk(e)


def trunc_mask_script(ctx, draws):
    """Script forcing every np_trunc r_divf draw (bound 2^(k+l-f') for f' = 1..f, and its double-width variant for f' = f..2f)
    to its maximum; None if there is no such draw."""
    dt = ctx.dt
    bounds = {1 << (ctx.k + dt.l - g) for g in range(1, dt.f + 1)}
    sc = {i: n - 1 for i, (kind, n, v) in enumerate(draws) if kind == 'below' and n in bounds}
    return sc or None


def detail_of(ctx, op, inputs, mode, script):
    return dict(engine='sp', dt=ctx.dt.name, k=ctx.k, prss=ctx.prss, site=op.site, variant=op.variant,
                inputs=[list(c) for c in inputs], mode=mode, script={str(a): b for a, b in (script or {}).items()}, seed=ctx.seed)


def run_one(part, ctx, op, inputs, want, mode, script, scalar=False):
    """Evaluate one case under one mask script and judge it.  Returns the draws (or None after an exception)."""
    dt = ctx.dt
    tag = f'[{ctx.cfg}] {op.name}{_fmt(inputs)}'
    try:
        r, got, draws = ctx.evaluate(op, inputs, mode, script)
    except Exception as exc:
        part.case(key=None)
        part.violation(f'C37:{op.site}:{op.vclass}:exception:{type(exc).__name__}'.replace('::', ':'),
                       f'{tag} raised {exc!r:.200} (masks {mode} {script})', detail_of(ctx, op, inputs, mode, script))
        return None
    nontrivial = bool(draws) or any(s not in ('S', ()) for s in op.shapes)
    part.case(key=None, nontrivial=nontrivial)
    part.outcomes.add(stable_hash((op.site, repr(got)[:200])) & 0xffffff)
    fail = compare(dt, got, want, op.public) or (None if op.public else decl_check(dt, r, want, got))
    if fail:
        key = f'C37:{op.site}:{op.vclass}:{dt.kind}:{fail}'.replace('::', ':')
        if fail in ('declared-shape', 'value-shape', 'structure'):
            key = f'C37:{op.site}:{op.vclass}:{fail}'.replace('::', ':')
        if fail in ('declared-shape', 'value-shape') and not isinstance(want, list) and want[1] == () \
                and getattr(r, 'shape', None) == (1,) and any(sh == () for sh in op.shapes):
            key = f'C37:{op.site}:declared-shape:0d-array-with-scalar-operand'
        if dt.kind == 'secfxp' and fail == 'value' and ctx.prss and op.trunc and far_off(dt, got, want):
            key = 'C37:np_trunc:secfxp:mask-range'      # PRSS masks cannot be dictated: a field-wrap value under k=4 is this finding
        if dt.kind == 'secfxp' and fail == 'value' and not ctx.prss:
            sc2 = trunc_mask_script(ctx, draws)
            if sc2:
                sc2 = {**(script or {}), **sc2}
                try:
                    r2, got2, _ = ctx.evaluate(op, inputs, mode, sc2)
                    if compare(dt, got2, want, op.public) != 'value':
                        key = 'C37:np_trunc:secfxp:mask-range'
                except Exception:
                    pass
        part.violation(key, f'{tag} = {_show(got)} (declared {declared(r)!r:.80}), reference {_show(want)} (masks {mode} {script})',
                       detail_of(ctx, op, inputs, mode, script))
    elif len(part.samples) < 2 and draws and mode == 'zero':
        part.sample(dict(config=ctx.cfg, op=op.name, inputs=[list(c) for c in inputs], masks=mode, draws=len(draws), result=_show(got)))
    if scalar and op.scal and mode == 'seeded':
        swant = ctx.scalar_reference(op, inputs) or want
        if swant == 'skip':
            return draws
        try:
            sgot = ctx.scalar_oracle(op, inputs)
            sfail = compare(dt, sgot, swant, False)
        except Exception as exc:
            sgot, sfail = repr(exc)[:120], 'exception'
        part.case(key=None, nontrivial=True)
        part.note('scalar_oracle_cases', 1)
        if sfail:
            part.violation(f'C37:{op.site}:{op.vclass}:{dt.kind}:scalar-oracle:{sfail}'.replace('::', ':'),
                           f'{tag}: the same expression on secure scalars gives {_show(sgot)}, array result {_show(got)}, reference '
                           f'{_show(swant)} (for the array: {_show(want)})', dict(detail_of(ctx, op, inputs, mode, script), scalar=True))
    return draws


def far_off(dt, got, want):
    """True if some opened fixed-point code is more than 16 units away from its reference interval (field wrap-around)."""
    if isinstance(want, list):
        return isinstance(got, list) and any(far_off(dt, g, w) for g, w in zip(got, want))
    if isinstance(got, list) or got[0] != 'A':
        return False
    for g, w in zip(got[2], want[2]):
        if isinstance(g, int):
            w = dt.Fx.of(w)
            if g < w.lo - 16 or g > w.hi + 16:
                return True
    return False


def _fmt(inputs):
    return '(' + ', '.join(str(list(c)) for c in inputs) + ')'


def _show(x):
    if isinstance(x, list):
        return '[' + ', '.join(_show(y) for y in x) + ']'
    if isinstance(x, tuple) and len(x) == 3 and x[0] == 'A':
        return f'{x[1]}{x[2]!r:.160}'
    return repr(x)[:160]


def run_sp(job):
    from mc import sp
    part = Part()
    ctx = Ctx(job['dt'], job['k'], job.get('prss', False), job['tier'], job['seed'])
    lim = limit(job['tier'])
    ops = [o for o in ctx.ops if o.group in job['groups']]
    idx = 0
    for op in ops:
        dom = input_domain(ctx.dt, op, limit(job['tier'], op.group))
        for ci, inputs in enumerate(dom):
            idx += 1
            if idx % job['parts'] != job['part']:
                continue
            want = ctx.reference(op, inputs)
            if want is None:
                part.note('skipped_precondition', 1)
                continue
            draws = run_one(part, ctx, op, inputs, want, 'seeded', None, scalar=not ctx.prss and (job['tier'] == 'thorough' or ci % 5 == 0))
            if not draws or ctx.prss:
                continue
            scripts = [('zero', None), ('max', None)] + ([('seeded2', None)] if job['tier'] == 'thorough' else [])
            if job['tier'] == 'thorough' and (ci < 3 or ci >= len(dom) - 3):
                scripts = sp.mask_scripts(draws, 'thorough', max_points=4)
            for mode, script in scripts:
                run_one(part, ctx, op, inputs, want, mode, script)
        part.note('operation_variants', 1)
    part.note('blinding_draws_forced_nonzero', ctx.seam.blinding_forced)
    return part


# ------------------------------------------------------------------------------------------------------------------
# multi-party engine: m = 3, t = 1 in the virtual world
# ------------------------------------------------------------------------------------------------------------------

def mp_cases(dt, tier):
    """Reduced case list for the multi-party runs: operations flagged mp, inputs = first, middle and last of the quick domain."""
    out = []
    for op in build_ops(dt):
        if not op.mp:
            continue
        dom = input_domain(dt, op, limit('quick', op.group))
        idx = sorted({0, len(dom) // 3, len(dom) // 2, len(dom) - 1}) if tier == 'quick' else \
            sorted(set(range(0, len(dom), max(1, len(dom) // 12))) | {len(dom) - 1})
        for i in idx:
            out.append((op.name, dom[i]))
    return out


def reference_of(dt, op, inputs):
    try:
        args = [dt.elem(c[0]) if s == 'S' else dt.ref_array(s, c) for s, c in zip(op.shapes, inputs)]
        w = dt.norm_ref(op.ref(*args))
        if not op.public:
            _chk_all(dt, w)
        return w
    except Skip:
        return None


class NpPatternPRF:
    """exact.PatternPRF extended to shape arguments (the np_ code calls prf(uci, shape)): real SHAKE-based values, except that
    mask-type outputs are all 0 / all max under the world's mask pattern and the blinding factors of np_is_zero_public are 1."""

    def __init__(self, real_cls, world):
        self.real_cls, self.world = real_cls, world

    def __call__(self, key, bound):
        from mc import exact
        from mc.sp import is_mask_bound
        real = self.real_cls(key, bound)
        world = self.world
        maskish = is_mask_bound(bound)

        def prf(s, n=None):
            vals = real(s, n)
            mode = world.mask_pattern
            v = None
            if bound.bit_length() // world.cfg['sec_param'] >= 2 and exact._in_is_zero_public():
                world.blinding_forced = getattr(world, 'blinding_forced', 0) + 1
                v = 1
            elif mode in ('zero', 'max') and maskish and exact._use_pattern(world, key, bound, s):
                v = 0 if mode == 'zero' else bound - 1
            if v is None:
                return vals
            if n is None:
                return v
            if isinstance(n, int):
                return [v] * n
            a = _np().empty(vals.shape, dtype=object)
            a.fill(v)
            return a
        return prf


def make_mp_program(dtname):
    async def program(mpc, ctx):
        from mpyc.numpy import np
        await mpc.start()
        dt = DT(dtname, mpc, np)
        ops = {o.name: o for o in build_ops(dt)}
        m = len(mpc.parties)
        res = []
        for idx, (name, inputs) in enumerate(ctx['cases']):
            op = ops[name]
            want = reference_of(dt, op, inputs)
            if want is None:
                res.append(('skip',))
                continue
            sender = idx % m
            try:
                args = []
                for s, c in zip(op.shapes, inputs):
                    x = dt.sec_scalar(c[0]) if s == 'S' else dt.sec_array(s, c)
                    args.append(x if op.site == 'input' else mpc.input(x, senders=sender))
                r = op.fn(*args)
                decl = decl_check(dt, r, want, None) if not op.public else None
                if op.public:
                    got = await r if hasattr(r, '__await__') else r
                elif isinstance(r, (list, tuple)):
                    got = [await mpc.output(x) for x in r]
                else:
                    got = await mpc.output(r)
                got = dt.norm(got, op.public)
                fail = compare(dt, got, want, op.public) or decl
                if not fail and not op.public:
                    fail = decl_check(dt, r, want, got)
                res.append(('ok', fail, _show(got), _show(want), repr(declared(r))[:80],
                            bool(fail == 'value' and dt.kind == 'secfxp' and op.trunc and far_off(dt, got, want))))
            except Exception as exc:
                res.append(('raised', type(exc).__name__, repr(exc)[:160]))
            if idx % 4 == 3:
                await mpc.barrier()
        ctx['results'] = res
        await mpc.shutdown()
    return program


def run_mp(job):
    from mc import exact
    from mc.explorer import run_execution
    part = Part()
    m, t, no_prss, dtname = job.get('m', 3), job.get('t', 1), job['no_prss'], job['dt']
    k = exact.sec_param_for(m, t, K_SP)
    world = exact.make_world(m, t, no_prss, k)
    seams = world.script_seams
    for u in world.universes:
        u.thresha.PRF = NpPatternPRF(u.thresha._verif_real_PRF, world)
    dt0 = DT(dtname, world.universes[0].mpc, _np())
    ops = {o.name: o for o in build_ops(dt0)}
    cases = mp_cases(dt0, job['tier'])
    mine = cases[job['part']::job['parts']]
    if job.get('wide'):
        # many parties: an array mask is a sum of C(m,t) PRF outputs and its bound must shrink accordingly (all-max pattern)
        mine = [c for c in cases if any(w in c[0] for w in ('np_less', 'np_equal', 'np_maximum', 'np_sort', 'np_multiply'))][:24]
    cfg = f"mp/{dtname}/m{m}t{t}{'-noprss' if no_prss else ''}/k{k}"
    program = make_mp_program(dtname)

    def execute(chunk, pat):
        ctxs = []

        def setup(w):
            ctxs.clear()
            w.mask_pattern = pat
            w.pattern_budget = 600 * len(chunk)
            w.pattern_decisions = {}
            for i, sm in enumerate(seams):
                sm.begin(pat, job['seed'] * 100 + i, None)
            for p in range(m):
                ctxs.append(dict(cases=chunk))
                w.spawn(p, program, ctxs[p])
        for i, sm in enumerate(seams):
            sm.begin(pat, job['seed'] * 100 + i, None)
        x = run_execution(world, setup, (), 'eager', 'none', sched_alts=False)
        part.transitions += x.nsteps
        ok = x.status == 'done' and all('results' in c for c in ctxs)
        return ok, x.status, [c.get('results') for c in ctxs]

    def judge(name, inputs, pat, per_party, passed_other):
        op = ops[name]
        tag = f'[{cfg}] {name}{_fmt(inputs)}'
        detail = dict(engine='mp', dt=dtname, no_prss=no_prss, name=name, inputs=[list(c) for c in inputs], pat=pat, seed=job['seed'], tier=job['tier'])
        r0 = per_party[0]
        if r0[0] == 'skip':
            return True
        part.case(key=None, nontrivial=True)
        part.outcomes.add(stable_hash((name, repr(r0)[:160])) & 0xffffff)
        if any(r != r0 for r in per_party):
            part.violation(f'C37:mp:{op.site}:{op.vclass}:{dt0.kind}:parties-differ'.replace('::', ':'),
                           f'{tag}: parties obtained {per_party!r:.240} (masks {pat})', detail)
            return False
        if r0[0] == 'raised':
            part.violation(f'C37:{op.site}:{op.vclass}:exception:{r0[1]}'.replace('::', ':'),
                           f'{tag} raised {r0[2]} (masks {pat})', detail)
            return False
        if r0[1]:
            key = f'C37:{op.site}:{op.vclass}:{dt0.kind}:{r0[1]}'.replace('::', ':')
            if r0[1] in ('declared-shape', 'value-shape', 'structure'):
                key = f'C37:{op.site}:{op.vclass}:{r0[1]}'.replace('::', ':')
            if dt0.kind == 'secfxp' and r0[1] == 'value' and ((pat == 'zero' and passed_other) or r0[5]):
                key = 'C37:np_trunc:secfxp:mask-range'
            part.violation(key, f'{tag} = {r0[2]} (declared {r0[4]}), reference {r0[3]} (masks {pat})', detail)
            return False
        if len(part.samples) < 1 and pat == 'max':
            part.sample(dict(config=cfg, op=name, inputs=[list(c) for c in inputs], masks=pat, result=r0[2]))
        return True

    batch = 6
    for lo in range(0, len(mine), batch):
        chunk = mine[lo:lo + batch]
        passed = {}
        for pat in (('max', 'seeded') if job.get('wide') else ('seeded', 'max', 'zero')):
            ok, status, results = execute(chunk, pat)
            if ok:
                for i, (name, inputs) in enumerate(chunk):
                    good = judge(name, inputs, pat, [r[i] for r in results], passed.get(i, False))
                    passed[i] = passed.get(i, True) and good if pat != 'zero' else passed.get(i, False)
                continue
            # pinpoint: one execution per case
            for i, (name, inputs) in enumerate(chunk):
                ok1, status1, res1 = execute([(name, inputs)], pat)
                if ok1:
                    good = judge(name, inputs, pat, [r[0] for r in res1], passed.get(i, False))
                    passed[i] = passed.get(i, True) and good if pat != 'zero' else passed.get(i, False)
                else:
                    op = ops[name]
                    part.case(key=None)
                    errs = sorted({e.get('exception') or '' for pe in world.loop_errors for e in pe})
                    cls = errs[0].split('(')[0] if errs else status1
                    part.violation((f'C37:{op.site}:{op.vclass}:exception:{cls}' if errs else f'C37:mp:{op.site}:{op.vclass}:incomplete:{cls}').replace('::', ':'),
                                   f'[{cfg}] {name}{_fmt(inputs)}: execution ends {status1}: {errs!r:.300} (masks {pat})',
                                   dict(engine='mp', dt=dtname, no_prss=no_prss, name=name, inputs=[list(c) for c in inputs], pat=pat,
                                        seed=job['seed'], tier=job['tier']))
                    passed[i] = False
    part.note('blinding_draws_forced_nonzero', sum(sm.blinding_forced for sm in seams) + getattr(world, 'blinding_forced', 0))
    return part


def _np():
    from mpyc.numpy import np
    return np


# ------------------------------------------------------------------------------------------------------------------
# probabilistic zero test _np_is_zero (l/2 > k >= 8, p = 3 mod 4)
# ------------------------------------------------------------------------------------------------------------------

def run_iszero(job):
    """np_equal takes the probabilistic path _np_is_zero when l/2 > k >= 8 and p = 3 mod 4: always right for equal entries,
    wrong for unequal ones only if all k quadratic-residue coins agree (2^-k per entry, by design): run at a production-size
    k = 30 so that the seeded runs never meet that event."""
    from mc import sp
    part = Part()
    mpc, seam = sp.setup(sec_param=30, no_prss=True)
    np = _np()
    T = mpc.SecInt(64)
    assert T.field.order % 4 == 3
    vals = [0, 1, -1, 2, 3, 255, -256, 2 ** 62 - 1, -2 ** 62, 12345, -54321, 2 ** 40]
    for shape in ((), (1,), (3,), (2, 2), (2, 1, 2)):
        n = 1
        for d in shape:
            n *= d
        for start in range(0, len(vals), 3):
            a = [vals[(start + i) % len(vals)] for i in range(n)]
            for b in (a, a[::-1], [0] * n, [x + 1 for x in a]):
                for sd in range(2 if job['tier'] == 'quick' else 8):
                    seam.begin('seeded', job['seed'] * 1000 + sd, None)
                    A = T.array(np.array(a, dtype=object).reshape(shape))
                    B = T.array(np.array(b, dtype=object).reshape(shape))
                    try:
                        got = sp.opened(mpc, A == B)
                        got = (got.shape, [int(x) for x in got.flat])
                    except Exception as exc:
                        got = repr(exc)
                    want = (shape, [int(x == y) for x, y in zip(a, b)])
                    part.case(key=None)
                    part.outcomes.add(stable_hash(repr(got)) & 0xffff)
                    if got != want:
                        part.violation('C37:_np_is_zero:secint', f'[sp/l34/k16] {a} == {b} (shape {shape}) = {got}, expected {want} '
                                       f'(seeded masks #{sd})', dict(engine='iszero', seed=job['seed'], tier=job['tier']))
    return part


# ------------------------------------------------------------------------------------------------------------------
# plain FiniteFieldArray arithmetic
# ------------------------------------------------------------------------------------------------------------------

FFA_FIELDS = ['GF(5)', 'GF(7)', 'GF(4)', 'GF(8)', 'GF(9)', 'GF(256)']


def run_ffa(job):
    from mc.ref import shamir
    np = _np()
    part = Part()
    for name in job['fields']:
        field = shamir.make_field(name)
        R = shamir.ref_field(name) if shamir.order(name) <= 32 else LazyField(*_spec(name))
        FE = make_fe(R)
        q = R.q
        fk = 'prime' if R.prime else 'binary' if R.p == 2 else 'ext_odd'
        codes = list(range(q)) if q <= 32 else [0, 1, 2, 3, 0x1b, 0x53, 0x80, 0xca, 0xfe, 0xff]
        n = len(codes)

        def real(shape, cs):
            a = np.empty(len(cs), dtype=object)
            a[:] = [field(c).value for c in cs]
            return field.array(a.reshape(shape))

        def ref(shape, cs):
            return obj_array(np, shape, [FE(c) for c in cs])

        def norm(x):
            if isinstance(x, np.ndarray) and x.dtype == bool:
                return (tuple(x.shape), [int(b) for b in x.flat])
            if isinstance(x, (bool, np.bool_)):
                return ((), [int(x)])
            if hasattr(x, 'modulus'):
                return ((), [shamir.code_of(R, x.value)] if type(x) is field else [('wrong-type', repr(type(x)))])
            if type(x) is not field.array:
                return ('wrong-type', repr(type(x)))
            return (tuple(x.value.shape), [shamir.code_of(R, v) if _reduced(R, v) else ('unreduced', repr(v)) for v in x.value.flat])

        def normref(x):
            if isinstance(x, np.ndarray):
                return (tuple(x.shape), [int(e) if isinstance(e, (bool, np.bool_)) else FE.of(e).c for e in x.flat])
            return ((), [int(x) if isinstance(x, (bool, np.bool_)) else FE.of(x).c])

        def check(opname, f, g, *arrs, inplace=False):
            """f on real field arrays, g on reference object arrays; arrs = (shape, codes) pairs."""
            part.case(key=None, nontrivial=True, n=max(1, len(arrs[0][1])))
            try:
                want = normref(g(*[ref(*a) for a in arrs]))
            except Skip:
                return
            try:
                got = norm(f(*[real(*a) for a in arrs]))
            except Exception as exc:
                got = ('raised', repr(exc)[:160])
            part.outcomes.add(stable_hash((opname, repr(got)[:80])) & 0xffffff)
            if got != want:
                bad = ''
                if isinstance(got[1], list) and isinstance(want[1], list) and got[0] == want[0]:
                    i = next(i for i, (x, y) in enumerate(zip(got[1], want[1])) if x != y)
                    ops_txt = [list(a[1]) for a in arrs] if all(len(a[1]) <= 4 for a in arrs) else [a[1][i % len(a[1])] for a in arrs]
                    bad = f' first difference at flat index {i}: operands {ops_txt} give {got[1][i]}, reference {want[1][i]};'
                part.violation(f'C37:ffa:{opname}:{fk}', f'{name} {opname}:{bad} result {got!r:.200} reference {want!r:.200}',
                               dict(engine='ffa', field=name, op=opname))

        grid_a = ((n, n), [c for c in codes for _ in codes])
        grid_b = ((n, n), [c for _ in codes for c in codes])
        nzc = [c for c in codes if c]
        grid_anz = ((n, len(nzc)), [c for c in codes for _ in nzc])
        grid_bnz = ((n, len(nzc)), [c for _ in codes for c in nzc])
        vec = ((n,), codes)
        vnz = ((len(nzc),), nzc)
        eqf = np.frompyfunc(lambda x, y: x == y, 2, 1)
        check('add', lambda a, b: a + b, lambda a, b: a + b, grid_a, grid_b)
        check('sub', lambda a, b: a - b, lambda a, b: a - b, grid_a, grid_b)
        check('mul', lambda a, b: a * b, lambda a, b: a * b, grid_a, grid_b)
        check('truediv', lambda a, b: a / b, lambda a, b: a / b, grid_anz, grid_bnz)
        check('eq', lambda a, b: a == b, lambda a, b: eqf(a, b).astype(bool), grid_a, grid_b)
        check('ne', lambda a, b: a != b, lambda a, b: ~eqf(a, b).astype(bool), grid_a, grid_b)
        check('np.equal', lambda a, b: np.equal(a, b), lambda a, b: eqf(a, b).astype(bool), grid_a, grid_b)
        check('iadd', lambda a, b: _ip(a, operator.iadd, b), lambda a, b: a + b, grid_a, grid_b)
        check('isub', lambda a, b: _ip(a, operator.isub, b), lambda a, b: a - b, grid_a, grid_b)
        check('imul', lambda a, b: _ip(a, operator.imul, b), lambda a, b: a * b, grid_a, grid_b)
        check('itruediv', lambda a, b: _ip(a, operator.itruediv, b), lambda a, b: a / b, grid_anz, grid_bnz)
        check('broadcast-add', lambda a, b: a + b, lambda a, b: a + b, grid_a, vec)
        check('broadcast-rsub', lambda a, b: b - a, lambda a, b: b - a, grid_a, vec)
        check('matmul', lambda a, b: a @ b, lambda a, b: a @ b, grid_a, grid_b)
        check('matmul-vec', lambda a, b: a @ b, lambda a, b: a @ b, grid_a, vec)
        check('rmatmul-vec', lambda a, b: b @ a, lambda a, b: b @ a, grid_a, vec)
        check('vec@vec', lambda a, b: a @ b, lambda a, b: a @ b, vec, vec)
        check('neg', lambda a: -a, lambda a: -a, vec)
        check('pos', lambda a: +a, lambda a: a + 0, vec)
        check('reciprocal', lambda a: a.reciprocal(), lambda a: 1 / a, vnz)
        check('np.reciprocal', lambda a: np.reciprocal(a), lambda a: 1 / a, vnz)
        check('rtruediv-int', lambda a: 1 / a, lambda a: 1 / a, vnz)
        check('add-int', lambda a: a + 3, lambda a: a + 3, vec)
        check('rsub-int', lambda a: 3 - a, lambda a: 3 - a, vec)
        check('mul-int', lambda a: a * 2, lambda a: a * 2, vec)
        check('truediv-int', lambda a: a / 2 if R.p != 2 else a / 3, lambda a: a / 2 if R.p != 2 else a / 3, vec)
        check('add-elt', lambda a: a + field(2), lambda a: a + 2, vec)
        check('mul-elt', lambda a: field(3) * a, lambda a: a * 3, vec)
        check('add-ndarray', lambda a: a + np.arange(n), lambda a: a + obj_array(np, (n,), [FE.of(i) for i in range(n)]), vec)
        for e in (-2, -1, 0, 1, 2, 3, q - 1, q):
            check(f'pow', lambda a, e=e: a ** e, lambda a, e=e: a ** e, vnz if e < 0 else vec)
        check('pow-ndarray', lambda a: a ** (np.arange(n) % 4), lambda a: np.frompyfunc(lambda x, e: x ** int(e), 2, 1)(a, np.arange(n) % 4), vec)
        check('ipow', lambda a: _ip(a, operator.ipow, 3), lambda a: a ** 3, vec)
        if fk != 'ext_odd':          # << on odd extension fields: see C20 (known finding there)
            check('lshift', lambda a: a << 2, lambda a: a * 4, vec)
            check('rshift', lambda a: a >> 1, lambda a: a / 2, vec) if R.p != 2 else None
            check('ilshift', lambda a: _ip(a, operator.ilshift, 1), lambda a: a * 2, vec)
        for ax in (None, 0, 1, -1, (0, 1)):
            check('sum', lambda a, ax=ax: a.sum(axis=ax), lambda a, ax=ax: np.sum(a, axis=ax), grid_a)
            check('np.sum', lambda a, ax=ax: np.sum(a, axis=ax), lambda a, ax=ax: np.sum(a, axis=ax), grid_b)
            if q <= 9:
                check('prod', lambda a, ax=ax: a.prod(axis=ax), lambda a, ax=ax: np.prod(a, axis=ax), grid_b)
        check('cumsum', lambda a: np.cumsum(a, axis=1), lambda a: np.cumsum(a, axis=1), grid_b)
        check('trace', lambda a: a.trace(), lambda a: np.trace(a), grid_b)
        check('np.trace', lambda a: np.trace(a, 1), lambda a: np.trace(a, 1), grid_b)
        check('getitem', lambda a: a[1:, ::-1], lambda a: a[1:, ::-1], grid_b)
        check('getitem-elt', lambda a: a[1, -1], lambda a: a[1, -1], grid_b)
        check('setitem', lambda a, b: _set(a, (0, slice(None)), b), lambda a, b: _set(a, (0, slice(None)), b), grid_a, vec)
        check('setitem-int', lambda a: _set(a, (slice(None), 0), q + 1), lambda a: _set(a, (slice(None), 0), FE.of(q + 1)), grid_a)
        check('reshape', lambda a: a.reshape(-1)[::2], lambda a: a.reshape(-1)[::2], grid_b)
        check('transpose', lambda a: a.T, lambda a: a.T, grid_b)
        check('np.concatenate', lambda a, b: np.concatenate((a, b), axis=1), lambda a, b: np.concatenate((a, b), axis=1), grid_a, grid_b)
        check('np.stack', lambda a, b: np.stack((a, b)), lambda a, b: np.stack((a, b)), grid_a, grid_b)
        check('np.roll', lambda a: np.roll(a, 1, axis=0), lambda a: np.roll(a, 1, axis=0), grid_a)
        check('np.diag', lambda a: np.diag(a, 1), lambda a: np.diag(a, 1), grid_b)
        check('np.outer', lambda a, b: np.outer(a, b), lambda a, b: np.outer(a, b), vec, vec)
        check('np.convolve', lambda a, b: np.convolve(a, b), lambda a, b: _conv(np, a, b, 'full'), vec, vec)
        check('np.where', lambda a, b: np.where(a == b, a, b + 1), lambda a, b: np.where(eqf(a, b).astype(bool), a, b + 1), grid_a, grid_b)
        check('tolist', lambda a: field.array(np.array([x.value for x in a.tolist()], dtype=object)), lambda a: a, vec)
        check('iter', lambda a: field.array(np.array([x.value for x in a], dtype=object)), lambda a: a, vec)
        # squares: is_sqr against brute force; sqrt(a)^2 == a for squares
        squares = {R.mul(c, c) for c in range(q)} if q <= 32 else None
        if squares is not None:
            sq = sorted(squares)
            check('is_sqr', lambda a: a.is_sqr(), lambda a: np.array([e.c in squares for e in a.flat], dtype=bool), vec)
            check('sqrt', lambda a: a.sqrt() * a.sqrt(), lambda a: a, ((len(sq),), sq))
            sqnz = [c for c in sq if c]
            check('sqrt-INV', lambda a: a.sqrt(INV=True) * a.sqrt(INV=True) * a, lambda a: a ** 0, ((len(sqnz),), sqnz))
        if R.prime:
            A = real(*vec)
            part.case(key=None)
            got = [int(x) for x in A.signed_().flat] + [int(x) for x in A.unsigned_().flat]
            want = [c - q if c > q // 2 else c for c in codes] + codes
            if got != want:
                part.violation(f'C37:ffa:signed_:{fk}', f'{name} signed_/unsigned_ of {codes}: {got}, expected {want}', dict(engine='ffa', field=name))
        # 2x2 linear algebra: all matrices over GF(5) / GF(4); alphabets otherwise
        mats = list(itertools.product(codes if q <= 5 else codes[:3], repeat=4))
        for mt in mats:
            def det_ref(a):
                return a[0, 0] * a[1, 1] - a[0, 1] * a[1, 0]
            check('linalg.det', lambda a: np.linalg.det(a), det_ref, ((2, 2), list(mt)))

            def inv_ref(a):
                d = det_ref(a)
                if not d:
                    raise Skip('singular')
                r = obj_array(np, (2, 2), [a[1, 1], -a[0, 1], -a[1, 0], a[0, 0]])
                return r * (1 / d)
            check('linalg.inv', lambda a: np.linalg.inv(a), inv_ref, ((2, 2), list(mt)))
            check('linalg.solve', lambda a, b: np.linalg.solve(a, b), lambda a, b: inv_ref(a) @ b, ((2, 2), list(mt)), ((2, 1), [codes[1], codes[-1]]))
            check('linalg.matrix_power', lambda a: np.linalg.matrix_power(a, 3), lambda a: a @ a @ a, ((2, 2), list(mt)))
        part.note('ffa_fields', 1)
    return part


def _spec(name):
    from mc.ref import shamir
    from mc.ref.fields import digits
    p, modcode = shamir.FIELD_SPECS[name]
    return p, (None if modcode is None else digits(modcode, p))


def _reduced(R, v):
    if isinstance(v, int):
        return R.prime and 0 <= v < R.q
    return not R.prime and 0 <= int(v) < R.q


def _ip(a, f, b):
    a = a.copy()
    r = f(a, b)
    return r


def _set(a, key, b):
    a = a.copy()
    a[key] = b
    return a


# ------------------------------------------------------------------------------------------------------------------
# thresha: array variants beyond C12 / C15
# ------------------------------------------------------------------------------------------------------------------

class Dictator:
    """Stand-in for `secrets` inside thresha: hands out dictated values."""

    def __init__(self):
        self.load(())

    def load(self, values):
        self.values, self.pos, self.bounds = list(values), 0, []

    def randbelow(self, n):
        self.bounds.append(n)
        v = self.values[self.pos] if self.pos < len(self.values) else 0
        self.pos += 1
        return v


def run_thresha(job):
    """(a) np_random_split -> {np_recombine, recombine} and random_split -> np_recombine for every subset / point / call form
    (C12 checks np_recombine only on list-made shares given as lists, and default / full x_rs lists);
    (b) n = 0 corners of np_pseudorandom_share(_0) (left out by C15); (c) PRF shape arguments against the list path (C17 covers the
    list path in /venv, where the shape path cannot run)."""
    from mpyc import thresha
    from mc.ref import shamir as R
    np = _np()
    part = Part()
    seam = Dictator()
    saved = thresha.secrets
    thresha.secrets = seam
    try:
        for name in job['fields']:
            field, F = R.make_field(name), R.ref_field(name)
            q = F.q
            for m in range(1, min(5, q - 1) + 1):
                for t in range(m):
                    for n in (1, 2, 3):
                        secs_all = list(itertools.product(range(q), repeat=n)) if q ** n <= 49 else \
                            [tuple((a + i * b) % q for i in range(n)) for a in (0, 1, q - 1) for b in (0, 1, q - 2)]
                        V = t * n
                        coefs = list(itertools.product(range(q), repeat=V)) if q ** V <= (625 if job['tier'] == 'thorough' else 64) else \
                            [tuple((a + i * b) % q for i in range(V)) for a in (0, 1, q - 1) for b in (0, 1)] + \
                            [tuple(v if i == j else 0 for i in range(V)) for j in range(V) for v in (1, q - 1)]
                        coefs = list(dict.fromkeys(coefs))
                        subs = R.subsets_at_least(m, t + 1)
                        xs_all = list(range(q)) if q <= 9 else [0, 1, 2, m, m + 1, q - 1]
                        for secs in secs_all:
                            for cf in coefs:
                                _thresha_case(part, thresha, np, seam, name, field, F, m, t, n, secs, cf, subs, xs_all)
            part.note('thresha_fields', 1)
        _thresha_prss_corners(part, thresha, np, job)
        _prf_shapes(part, thresha, np)
    finally:
        thresha.secrets = saved
    return part


def _thresha_case(part, thresha, np, seam, name, field, F, m, t, n, secs, cf, subs, xs_all):
    from mc.ref import shamir as R
    q = F.q
    d = dict(engine='thresha', field=name, m=m, t=t, secrets=list(secs), coefs=list(cf))
    tag = f'{name} m={m} t={t} secrets={list(secs)} draws={list(cf)}'
    for form in ('array', 'ndarray'):
        seam.load(cf)
        sa = field.array(np.array([field(s).value for s in secs], dtype=object))
        try:
            sh = thresha.np_random_split(field, sa if form == 'array' else sa.value, t, m)
            rows = [[R.code_of(F, v) for v in row] for row in (sh.value if hasattr(sh, 'value') else np.asarray(sh)).tolist()]
        except Exception as exc:
            part.case(key=None)
            part.violation(f'C37:thresha:np_random_split:{form}:exception', f'{tag}: {exc!r:.160}', d)
            return
        part.case(key=None, nontrivial=t >= 1, n=m * n)
        if len(rows) != m or any(len(r) != n for r in rows) or len(seam.bounds) != t * n:
            part.violation('C37:thresha:np_random_split:shape-or-draws', f'{tag}: share matrix {rows}, {len(seam.bounds)} draws', d)
            return
        xs = list(range(1, m + 1))
        polys = []
        for h in range(n):
            co = R.interpolate(F, xs, [rows[i][h] for i in range(m)])
            if R.degree(co) > t or co[0] != secs[h]:
                part.violation('C37:thresha:np_random_split:share', f'{tag}: column {h} shares {[rows[i][h] for i in range(m)]} interpolate to {co}', d)
                return
            polys.append(co)
        if form == 'ndarray':
            continue
        # recombination of the array-made shares, all call forms
        share_forms = {'ndarray-rows': lambda i: sh.value[i] if hasattr(sh, 'value') else sh[i],
                       'list-rows': lambda i: [int(v) if isinstance(v, int) else v for v in (sh.value[i] if hasattr(sh, 'value') else sh[i]).tolist()]}
        for S in subs:
            for sf, getrow in share_forms.items():
                pts = [(i + 1, getrow(i)) for i in S]
                for xarg in (list(xs_all), None, xs_all[len(S) % len(xs_all)], [xs_all[-1]]):
                    want_pts = [0] if xarg is None else xarg if isinstance(xarg, list) else [xarg]
                    want = [[R.poly_eval(F, polys[h], x) for h in range(n)] for x in want_pts]
                    for fnname, fn in (('np_recombine', thresha.np_recombine), ('recombine', thresha.recombine)):
                        if fnname == 'recombine' and sf != 'list-rows':
                            continue
                        try:
                            got = fn(field, pts) if xarg is None else fn(field, pts, xarg)
                            g = got.value.tolist() if hasattr(got, 'value') else got
                            if not isinstance(xarg, list):
                                g = [g]
                            g = [[R.code_of(F, v) for v in row] for row in g]
                        except Exception as exc:
                            g = repr(exc)[:160]
                        part.case(key=None, nontrivial=t >= 1, n=n * len(want_pts))
                        part.outcomes.add((q, len(S), stable_hash(repr(g)) & 0xff))
                        if g != want:
                            xc = 'default' if xarg is None else 'list' if isinstance(xarg, list) and len(xarg) > 1 else 'one-element-list' \
                                if isinstance(xarg, list) else 'scalar'
                            part.violation(f'C37:thresha:{fnname}:{sf}:x_rs-{xc}', f'{tag} subset {list(S)} x_rs={xarg}: {fnname} gives {g}, '
                                           f'polynomial values {want}', dict(d, subset=list(S)))


def _thresha_prss_corners(part, thresha, np, job):
    from mc.ref import shamir as R
    for name in ('GF(5)', 'GF(7)', 'GF(8)'):
        field = R.make_field(name)
        for m in (1, 2, 3, 4):
            for t in range((m + 1) // 2):
                subs = list(itertools.combinations(range(m), m - t))
                for i in range(m):
                    prfs = {S: thresha.PRF(bytes([7, m, t]) + bytes(S), field.order) for S in subs if i in S}
                    for fnname, fn, lst in (('np_pseudorandom_share', thresha.np_pseudorandom_share, thresha.pseudorandom_share),
                                            ('np_pseudorandom_share_0', thresha.np_pseudorandom_share_0, thresha.pseudorandom_share_zero)):
                        for n in (0, 1, 2):
                            part.case(key=None, nontrivial=n > 0)
                            try:
                                a = fn(field, m, i, prfs, b'uci', n)
                                got = (type(a) is field.array, tuple(a.value.shape), [int(v) if isinstance(v, int) else int(v) for v in a.value.flat])
                            except Exception as exc:
                                got = repr(exc)[:160]
                            want = (True, (n,), [int(v.value) if isinstance(v.value, int) else int(v.value) for v in lst(field, m, i, prfs, b'uci', n)])
                            if got != want:
                                part.violation(f'C37:thresha:{fnname}:n={"0" if n == 0 else "pos"}',
                                               f'{name} m={m} t={t} party {i} n={n}: array variant {got}, list variant {want}',
                                               dict(engine='thresha', field=name, m=m, t=t, n=n))


def _prf_shapes(part, thresha, np):
    for key in (bytes(16), bytes(range(16)), b'k'):
        for bound in (1, 2, 5, 7, 256, 257, 2 ** 16 + 1, 2 ** 61 - 1):
            prf = thresha.PRF(key, bound)
            for s in (b'', b'\x01\x00\x00\x00\x00\x00\x00\x00'):
                for shape in ((0,), (1,), (3,), (2, 2), (0, 2), (2, 0), (1, 3), (2, 1, 2)):
                    cnt = 1
                    for dd in shape:
                        cnt *= dd
                    part.case(key=None, nontrivial=bound > 1 and cnt > 0)
                    try:
                        a = prf(s, shape)
                        got = (tuple(a.shape), [int(v) for v in a.flat], a.dtype == object)
                    except Exception as exc:
                        got = repr(exc)[:160]
                    want = (shape, prf(s, cnt), True)
                    if got != want:
                        part.violation('C37:thresha:PRF:shape', f'PRF(key={key.hex()}, bound={bound})({s.hex()}, {shape}) = {got}, list path gives {want}',
                                       dict(engine='thresha', prf=True))


# ------------------------------------------------------------------------------------------------------------------
# jobs
# ------------------------------------------------------------------------------------------------------------------

SP_SPLIT = {  # (group set, number of parts) per dtype class, balanced by measured cost
    'num': [(('E',), 3), (('P',), 3), (('U',), 1), (('M',), 1), (('R',), 3), (('W', 'S', 'G', 'IO'), 1)],
    'fld': [(('E', 'P'), 1), (('U', 'M'), 1), (('R',), 1), (('W', 'S', 'G', 'IO'), 1)],
}


def jobs(tier, seed):
    out = []
    for dtn in DTYPES:
        for groups, parts in SP_SPLIT['fld' if dtn.startswith('gf') else 'num']:
            for p in range(parts):
                out.append(dict(engine='sp', dt=dtn, k=K_SP, groups=list(groups), part=p, parts=parts, tier=tier, seed=seed))
        out.append(dict(engine='sp', dt=dtn, k=K_SP, prss=True, groups=['E', 'P', 'U', 'M', 'R', 'W', 'IO'], part=0, parts=1, tier=tier, seed=seed))
        if tier == 'thorough' and not dtn.startswith('gf'):
            out.append(dict(engine='sp', dt=dtn, k=6, groups=['E', 'U', 'M', 'R'], part=0, parts=1, tier='quick', seed=seed, k6=True))
        for no_prss in (False, True):
            parts = 2 if tier == 'thorough' and not dtn.startswith('gf') else 1
            for p in range(parts):
                out.append(dict(engine='mp', dt=dtn, no_prss=no_prss, part=p, parts=parts, tier=tier, seed=seed))
    out.append(dict(engine='iszero', tier=tier, seed=seed))
    out.append(dict(engine='mp', dt='int', no_prss=False, part=0, parts=1, tier=tier, seed=seed, m=7, t=3, wide=True))
    out.append(dict(engine='ffa', fields=FFA_FIELDS[:3], tier=tier, seed=seed))
    out.append(dict(engine='ffa', fields=FFA_FIELDS[3:], tier=tier, seed=seed))
    out.append(dict(engine='thresha', fields=['GF(5)', 'GF(4)'], tier=tier, seed=seed))
    out.append(dict(engine='thresha', fields=['GF(7)', 'GF(8)'], tier=tier, seed=seed))
    order = {'mp': 0, 'sp': 1}
    out.sort(key=lambda j: (order.get(j['engine'], 2), -j.get('parts', 1)))
    # array coroutines under the controlled scheduler (mc/programs.py NP_PROGRAMS): default schedules, thorough adds one deviation
    from mc import sched, programs
    for j in sched.plan('C37', tier, seed, programs=sorted(programs.NP_PROGRAMS)):
        out.append(dict(j, engine='race'))
    return out


def run_job(job):
    import time
    t0 = time.time()
    e = job['engine']
    if e == 'race':
        from mc import sched
        return sched.run_job(job)
    fn = {'sp': run_sp, 'mp': run_mp, 'iszero': run_iszero, 'ffa': run_ffa}.get(e, run_thresha)
    part = fn(job)
    name = f"{e}/{job.get('dt') or ','.join(job.get('fields', []))}/{'+'.join(job.get('groups', []))}/{job.get('part', 0)}of{job.get('parts', 1)}" \
           f"{'/prss' if job.get('prss') else ''}{'/noprss' if job.get('no_prss') else ''}{'/k6' if job.get('k6') else ''}"
    part.note('max_job_seconds', round(time.time() - t0, 1))
    if time.time() - t0 > 20:
        part.note('slow_jobs', [f'{name}: {time.time() - t0:.0f}s'])
    return part


def coverage_extra(tier, seed, total):
    return dict(dtypes=list(DTYPES), shapes=[list(s) for s in SHAPES], element_limit=limit(tier), mp_config='m=3,t=1,PRSS on/off')


def replay(case):
    e = case.get('engine')
    if 'job' in case and case['job'].get('engine') == 'race':
        from mc import sched
        return sched.replay(case)
    if e == 'sp':
        part = Part()
        ctx = Ctx(case['dt'], case['k'], case.get('prss', False), 'quick', case['seed'])
        op = next(o for o in ctx.ops if o.site == case['site'] and o.variant == case['variant'])
        inputs = tuple(tuple(c) for c in case['inputs'])
        want = ctx.reference(op, inputs)
        if want is None:
            return part
        script = {int(a): b for a, b in case['script'].items()} or None
        run_one(part, ctx, op, inputs, want, case['mode'], script, scalar=bool(case.get('scalar')))
        return part
    if e == 'mp':
        part = run_mp(dict(engine='mp', dt=case['dt'], no_prss=case['no_prss'], part=0, parts=1, tier=case.get('tier', 'quick'), seed=case['seed']))
        part.violations = [v for v in part.violations if v['detail'].get('name') == case['name']]
        return part
    if e == 'iszero':
        return run_iszero(dict(tier=case.get('tier', 'quick'), seed=case.get('seed', 0)))
    if e == 'ffa':
        part = run_ffa(dict(fields=[case['field']], tier='quick', seed=0))
        part.violations = [v for v in part.violations if v['detail'].get('op') == case.get('op')]
        return part
    return run_thresha(dict(fields=[case['field']] if case.get('field') else [], tier='quick', seed=0))
