"""C20 -- finite field elements obey the field laws through every operator.

Bounded-exhaustive enumeration of the real operators of mpyc.finfields (prime, binary and
odd-characteristic extension fields) against the independent reference mc/ref/fields.py:

* small fields GF(q), q in {2,3,4,5,7,8,9,11,13,16,25,27} (all monic irreducible moduli in the
  thorough tier, first/last plus a non-monic one in quick; degree-1 "extensions" included):
  every ordered pair for + - * / and their in-place forms, == / !=; every element for unary
  -, +, reciprocal, ** with all exponents -3..q+1 (reference: literally repeated multiplication)
  plus boundary exponents, << >> (and in-place) for all shift counts up to 2*bits(q)+2 and word
  boundaries; every (element, int) over an integer alphabet and every (element, polynomial) over
  a polynomial alphabet for the mixed, reflected and in-place operators; every triple for
  associativity and distributivity when q <= 16 (thorough: <= 32);
* GF(101) and GF(2^8) with all elements (all pairs);
* boundary alphabets {0,1,2,3,p-3..p-1,(p+-1)/2, 2^j, 2^j+-1, -2^j,...} for the 61-bit prime
  2^61-1, GF(2^16), GF(101^2) (thorough: more word-boundary primes, GF(2^64), more small orders).

Oracle: results equal the reference value and are reduced elements of the same field
(0 <= value < p, degree < ext_deg, canonical coefficient list); x/0, reciprocal of 0 raise
ZeroDivisionError (0**negative must raise, ZeroDivisionError or ValueError); mixing with an int or
polynomial equals converting it first; a << n == a * 2**n and a >> n == a / 2**n with 2**n mixed
in as an integer.  Where << on an odd-characteristic extension field fails that law, the violation
key tells whether the result is at least a * x^n (the recorded finding, keys C20:lshift:ext_odd /
C20:ilshift:ext_odd) or something else (same keys + ':other').
"""

import operator

from mc.core import Part
from mc.ref import fields as rf

LEVEL = 'exploration'
RULE = ('one case = (field, law, operand tuple); operands are element codes / ints / coefficient '
        'lists drawn from the declared domains, every combination is enumerated once (rows are '
        'partitioned over jobs); non-trivial = not all operands are 0 or 1')
ASSUMPTIONS = ['Python int arithmetic and the reference mc/ref/fields.py (schoolbook polynomial arithmetic, '
               'brute-force / Fermat inverses certified by multiplying back) are correct',
               'element <-> code mapping uses the documented views: F(int residue), F(coefficient list), '
               'element.value (int, coefficient list or bit-integer)',
               'shifts: "power of two" is read as the integer 2**n mixed in like any other integer (the only '
               'reading under which binary-field shifts are not identically zero)',
               'field element arrays (numpy) are not exercised: numpy is absent from /venv']

MANIFEST = dict(
    level='exploration',
    technique='bounded-exhaustive enumeration of all operators on whole small fields and boundary alphabets '
              'of large ones, compared with an independent coefficient-list reference field',
    text='All ordered pairs (triples for q <= 16, thorough <= 32) of GF(q) for q in {2,3,4,5,7,8,9,11,13,16,25,27} '
         '(every monic irreducible modulus in the thorough tier), all pairs of GF(101) and GF(2^8), boundary '
         'alphabets of GF(2^61-1), GF(2^16), GF(101^2) (thorough: primes at 8/16/32/64/127-bit boundaries, GF(2^64), '
         'orders up to 343): + - * / **, in-place and reflected operators, int and polynomial mixing, shifts, '
         '==, reduced-value invariant, ZeroDivisionError exactly for zero divisors; every result is compared '
         'with schoolbook arithmetic modulo the field modulus.',
    ref='DESIGN 5/C20',
    note='trusted: Python ints, mc/ref/fields.py; large fields are covered on structured boundary alphabets only; '
         'numpy arrays over fields are out of scope here')

P61 = 2**61 - 1
SMALL_ORDERS = [(2, 1), (3, 1), (2, 2), (5, 1), (7, 1), (2, 3), (3, 2), (11, 1), (13, 1), (2, 4), (5, 2), (3, 3)]
THOROUGH_ORDERS = [(17, 1), (19, 1), (23, 1), (29, 1), (31, 1), (2, 5), (7, 2), (2, 6), (3, 4), (11, 2), (5, 3),
                   (2, 7), (3, 5), (7, 3)]
AES = [1, 1, 0, 1, 1, 0, 0, 0, 1]                       # x^8+x^4+x^3+x+1
GF2_16 = [1, 1, 0, 1] + [0] * 8 + [1, 0, 0, 0, 1]       # x^16+x^12+x^3+x+1
GF2_64 = [1, 1, 0, 1, 1] + [0] * 59 + [1]               # x^64+x^4+x^3+x+1
GF101_2 = [99, 0, 1]                                    # x^2-2 (2 is a non-residue mod 101)


# -- domains ----------------------------------------------------------------------------------

def field_specs(tier):
    """List of (spec, mode) with mode 'full' (all elements) or 'alpha' (boundary alphabet)."""
    out = []
    orders = SMALL_ORDERS + (THOROUGH_ORDERS if tier == 'thorough' else [])
    for p, d in orders:
        if d == 1:
            out.append((dict(p=p, mod=None), 'full'))
            continue
        irr = rf.monic_irreducibles(p, d)
        chosen = irr if tier == 'thorough' and p**d <= 32 else [irr[0], irr[-1]] if len(irr) > 1 else irr
        for m in chosen:
            out.append((dict(p=p, mod=m), 'full'))
        if p > 2 and p**d <= 27:      # a non-monic modulus: (p-1) * last irreducible
            out.append((dict(p=p, mod=[(p - 1) * c % p for c in irr[-1]]), 'full'))
    # degree-1 "extension" fields (x = 0, x = 1, x = -c)
    for p, m in [(2, [0, 1]), (2, [1, 1]), (3, [1, 1]), (5, [0, 1]), (7, [3, 2])]:
        out.append((dict(p=p, mod=m), 'full'))
    out.append((dict(p=7, mod=None, nw=(3, 2)), 'full'))     # prime field with a 3rd root of unity attached
    out.append((dict(p=101, mod=None), 'full'))
    out.append((dict(p=2, mod=AES), 'full'))
    out.append((dict(p=P61, mod=None), 'alpha'))
    out.append((dict(p=2, mod=GF2_16), 'alpha'))
    out.append((dict(p=101, mod=GF101_2), 'alpha'))
    if tier == 'thorough':
        for p in (251, 257):
            out.append((dict(p=p, mod=None), 'full'))
        for p in (65521, 65537, 2**31 - 1, 2**32 - 5, 2**32 + 15, rf.prev_prime_in_class(2**61, 1, 8),
                  rf.prev_prime_in_class(2**61, 5, 8), 2**64 - 59, 2**64 + 13, 2**127 - 1):
            out.append((dict(p=p, mod=None), 'alpha'))
        out.append((dict(p=2, mod=GF2_64), 'alpha'))
    return out


def int_alphabet(R, full):
    q, p = R.q, R.p
    s = set(range(-(2 * q + 2), 2 * q + 3)) if q <= 27 else set(range(-3, 4))
    for b in (p, q, 2 * q, q * q, p * q):
        s.update((b - 1, b, b + 1, -(b - 1), -b, -(b + 1)))
    s.update((2**31 - 1, 2**31, 2**63, 2**64 - 1, 2**64, 2**64 + 1, -(2**64 + 1), 10**30 + 7, -(10**30 + 7)))
    for j in range(q.bit_length() + 2):
        s.update((2**j, -(2**j)))
    return sorted(s)


def poly_alphabet(R):
    p, d, q = R.p, R.d, R.q
    m = rf.undigits(R.modulus, p)
    s = set(range(p**(d + 1))) if p**(d + 1) <= 250 else \
        {0, 1, 2, p - 1, p, p + 1, q - 1, q, q + 1, 2 * q - 1, 2 * q, p * q - 1, q // p, q // p - 1}
    s.update((p**(2 * d), p**(2 * d + 1) - 1, m, m + 1, m - 1, m * p, m * p + 1, 2 * m if p > 2 else m << 2))
    return [rf.digits(c, p) for c in sorted(s)]


def exponent_sets(R, full):
    q = R.q
    big = {q - 2, q - 1, q, q + 1, 2 * q - 2, 2 * q - 1, -(q - 2), -(q - 1), -q, (q - 1) // 2, 2**64, -(2**64) - 1}
    if q <= 256:
        return list(range(-3, q + 2)), sorted(big - set(range(-3, q + 2)))
    return [], sorted(big | set(range(-3, 6)))


def shift_counts(R):
    b = R.q.bit_length()
    if R.q <= 256:
        s = set(range(0, 2 * b + 3)) | {31, 32, 33, 63, 64, 65, 100}
    else:
        s = set(range(0, 4)) | set(range(b - 2, b + 3)) | {2 * b, 31, 32, 33, 63, 64, 65, 127, 128, 200}
    if R.p == 2 and not R.prime and R.d > 16:
        s = {n for n in s if n <= 2 * R.d + 1}
    return sorted(n for n in s if n >= 0)


# -- laws -------------------------------------------------------------------------------------
# Each law maps (A, R, *args) to (thunk running the REAL code, want) with want one of
# ('elem', code) | ('zde',) | ('undef',) | ('bool', v) | ('both', code) | ('skip',).

def _e(c):
    return ('zde',) if c is None else ('elem', c)


BIN = {'add': (operator.add, 'add'), 'sub': (operator.sub, 'sub'), 'mul': (operator.mul, 'mul'),
       'truediv': (operator.truediv, 'div'),
       'iadd': (operator.iadd, 'add'), 'isub': (operator.isub, 'sub'), 'imul': (operator.imul, 'mul'),
       'itruediv': (operator.itruediv, 'div')}


def conv_int(A, n):
    """Code of integer n converted to a field element ("converting first").  The reference rule is used
    where it is documented (residues; base-p digits of n >= 0); for negative n in extension fields the real
    constructor is taken literally."""
    if A.kind == 'prime' or n >= 0:
        return A.ref.from_int(n)
    return A.code(A.F(n))


def build(A, law, args):
    R, mk = A.ref, A.make
    if law in BIN:
        a, b = args
        op, rop = BIN[law]
        return (lambda: op(mk(a), mk(b))), _e(getattr(R, rop)(a, b))
    if law in ('eq', 'ne'):
        a, b = args
        if law == 'eq':
            return (lambda: mk(a) == mk(b)), ('bool', a == b)
        return (lambda: mk(a) != mk(b)), ('bool', a != b)
    if law == 'neg':
        return (lambda: -mk(args[0])), ('elem', R.neg(args[0]))
    if law == 'pos':
        return (lambda: +mk(args[0])), ('elem', args[0])
    if law == 'reciprocal':
        return (lambda: mk(args[0]).reciprocal()), _e(R.inv(args[0]))
    if law == 'pow':
        a, e = args
        w = R.pow(a, e)
        return (lambda: mk(a) ** e), (('undef',) if w is None else ('elem', w))
    if law in ('lshift', 'rshift', 'ilshift', 'irshift'):
        a, n = args
        two_n = R.from_int(1 << n)
        op = {'lshift': operator.lshift, 'rshift': operator.rshift,
              'ilshift': operator.ilshift, 'irshift': operator.irshift}[law]
        w = R.mul(a, two_n) if law in ('lshift', 'ilshift') else R.div(a, two_n)
        return (lambda: op(mk(a), n)), _e(w)
    if law == 'convert_int':
        n, = args
        if A.kind != 'prime' and n < 0:
            return (lambda: A.F(n)), ('reduced',)
        return (lambda: A.F(n)), ('elem', R.from_int(n))
    if law == 'convert_poly':
        c, = args
        return (lambda: A.F(A.make_poly(c))), ('elem', R.from_coeffs(c))
    if law.endswith('_int') or law.endswith('_poly'):
        base, typ = law.rsplit('_', 1)
        a, o = args
        if typ == 'int':
            co = conv_int(A, o)
            other = (lambda: o)
        else:
            co = R.from_coeffs(o)
            other = (lambda: A.make_poly(o))
        if co is None:
            return None, ('skip',)
        if base in ('eq', 'ne'):
            if base == 'eq':
                return (lambda: mk(a) == other()), ('bool', a == co)
            return (lambda: mk(a) != other()), ('bool', a != co)
        refl = base.startswith('r')
        op, rop = BIN[base[1:] if refl else base]
        if refl:
            return (lambda: op(other(), mk(a))), _e(getattr(R, rop)(co, a))
        return (lambda: op(mk(a), other())), _e(getattr(R, rop)(a, co))
    if law in ('assoc_add', 'assoc_mul', 'distrib'):
        a, b, c = args
        if law == 'assoc_add':
            return (lambda: ((mk(a) + mk(b)) + mk(c), mk(a) + (mk(b) + mk(c)))), ('both', R.add(R.add(a, b), c))
        if law == 'assoc_mul':
            return (lambda: ((mk(a) * mk(b)) * mk(c), mk(a) * (mk(b) * mk(c)))), ('both', R.mul(R.mul(a, b), c))
        return (lambda: (mk(a) * (mk(b) + mk(c)), mk(a) * mk(b) + mk(a) * mk(c))), ('both', R.mul(a, R.add(b, c)))
    raise KeyError(law)


def judge(A, fn, want):
    """Run fn on the real code; return (ok, observed description, outcome tag)."""
    try:
        got = rf.limited(fn)
        st = 'ok'
    except ZeroDivisionError:
        got, st = None, 'ZeroDivisionError'
    except Exception as exc:       # any other exception is an observation, judged below
        got, st = None, type(exc).__name__
    kind = want[0]
    if st != 'ok':
        ok = (kind == 'zde' and st == 'ZeroDivisionError') or \
             (kind == 'undef' and st in ('ZeroDivisionError', 'ValueError'))
        return ok, f'raised {st}', st
    if kind == 'elem':
        c = A.code(got)
        return c == want[1], f'{got!r} (code {c}, type {type(got).__name__})', c
    if kind == 'reduced':
        c = A.code(got)
        return c is not None, f'{got!r} (code {c})', c
    if kind == 'bool':
        return (got is True or got is False) and got == want[1], repr(got), got
    if kind == 'both':
        c1, c2 = A.code(got[0]), A.code(got[1])
        return c1 == c2 == want[1], f'lhs {got[0]!r} (code {c1}), rhs {got[1]!r} (code {c2})', c1
    return False, f'returned {got!r}', 'returned'


WANT_TXT = {'zde': 'ZeroDivisionError', 'undef': 'ZeroDivisionError/ValueError (undefined)', 'reduced': 'a reduced element'}


def suffix(law, args, want):
    if want[0] == 'zde':
        return ':zero'
    if want[0] == 'undef':
        return ':zero_neg'
    if law == 'pow':
        return ':neg' if args[1] < 0 else ':e0' if args[1] == 0 else ''
    if law in ('lshift', 'rshift', 'ilshift', 'irshift') and args[1] == 0:
        return ':n0'
    return ''


class UnitAborted(Exception):
    pass


class Runner:
    def __init__(self, part, spec):
        self.part = part
        self.spec = spec
        self.A = rf.guarded_adapter(part, 'C20', spec, dict(spec=spec, law='neg', args=[0]))
        if self.A is None:
            raise UnitAborted
        self.F = self.A.F
        self.name = rf.field_name(spec)
        self.nsamples = 0

    def check(self, law, args, want=None, nontrivial=True):
        A, part = self.A, self.part
        fn, w = build(A, law, args)
        if w[0] == 'skip':
            return
        if want is not None:
            w = want
        ok, obs, tag = judge(A, fn, w)
        part.case(key=None, nontrivial=nontrivial)
        part.outcomes.add((law, tag if not isinstance(tag, int) or tag < 8 else 'c'))
        if not ok:
            exp = WANT_TXT.get(w[0]) or (f'code {w[1]}' if w[0] in ('elem', 'both') else repr(w[1]))
            other = ''
            if law in ('lshift', 'ilshift') and A.kind == 'ext_odd' and args[1] >= 1:
                # Region of the recorded finding (<< multiplies by x^n instead of 2^n).  Only that exact
                # misbehaviour keeps the plain key: result must be the reduced element a * x^n (x^n = the
                # element with integer code p**n, computed in the reference); anything else is ':other'.
                fallback = A.ref.mul(args[0], A.ref.from_int(A.p ** args[1]))
                if not (isinstance(tag, int) and not isinstance(tag, bool) and tag == fallback):
                    other = ':other'
                    exp += f' (and it is not the known deviation a * x^n = code {fallback} either)'
            rf.note_violation(part, f'C20:{law}:{A.kind}{suffix(law, args, w)}{other}' + (':hang' if tag == 'Hang' else ''),
                           f'{self.name}: {law}{tuple(args)!r}: observed {obs}, expected {exp}',
                           dict(spec=self.spec, law=law, args=list(args)))
            if tag == 'Hang':
                raise UnitAborted
        elif self.nsamples < 1 and nontrivial and A.q > 4 and law == ('truediv', 'pow', 'rsub_int', 'rshift', 'itruediv_poly', 'distrib')[A.q % 6] \
                and (law != 'pow' or args[1] < 0):
            self.nsamples += 1
            rf.note_sample(part, dict(field=self.name, law=law, args=list(args), observed=obs))


def nt(*codes):
    return any(c not in (0, 1) for c in codes)


def run_unit(part, unit):
    spec, mode = unit['spec'], unit['mode']
    if mode == 'interleave':
        return run_interleave(part, unit)
    r = Runner(part, spec)
    R = r.A.ref
    if mode == 'full':
        dom = list(range(R.q))
    else:
        dom = rf.alphabet(R)
    rows = dom[unit['lo']:unit['hi']]
    full = mode == 'full'
    ints = int_alphabet(R, full)
    polys = [] if R.prime else poly_alphabet(R)
    e_all, e_big = exponent_sets(R, full)
    shifts = shift_counts(R)
    if unit['lo'] == 0:        # conversions are per field, not per row
        for n in ints:
            r.check('convert_int', (n,), nontrivial=n not in (0, 1))
        for c in polys:
            r.check('convert_poly', (c,), nontrivial=len(c) > 1)
    for a in rows:
        for law in ('neg', 'pos', 'reciprocal'):
            r.check(law, (a,), nontrivial=nt(a))
        if e_all:
            tab = R.powers(a, e_all[0], e_all[-1])     # literally repeated multiplication
            for e in e_all:
                w = tab[e]
                r.check('pow', (a, e), want=('undef',) if w is None else ('elem', w), nontrivial=nt(a) and e not in (0, 1))
        for e in e_big:
            r.check('pow', (a, e), nontrivial=nt(a))
        for n in shifts:
            for law in ('lshift', 'rshift', 'ilshift', 'irshift'):
                r.check(law, (a, n), nontrivial=a != 0 and n > 0)
        for n in ints:
            for law in ('add_int', 'radd_int', 'sub_int', 'rsub_int', 'mul_int', 'rmul_int', 'truediv_int',
                        'rtruediv_int', 'iadd_int', 'isub_int', 'imul_int', 'itruediv_int', 'eq_int', 'ne_int'):
                r.check(law, (a, n), nontrivial=a != 0 and n not in (0, 1))
        for c in polys:
            for law in ('add_poly', 'radd_poly', 'sub_poly', 'rsub_poly', 'mul_poly', 'rmul_poly', 'truediv_poly',
                        'rtruediv_poly', 'iadd_poly', 'isub_poly', 'imul_poly', 'itruediv_poly', 'eq_poly', 'ne_poly'):
                r.check(law, (a, c), nontrivial=a != 0 and len(c) > 1)
        for b in dom:
            for law in ('add', 'sub', 'mul', 'truediv', 'iadd', 'isub', 'imul', 'itruediv', 'eq', 'ne'):
                r.check(law, (a, b), nontrivial=nt(a, b))
        if unit.get('triples'):
            for b in dom:
                for c in dom:
                    for law in ('assoc_add', 'assoc_mul', 'distrib'):
                        r.check(law, (a, b, c), nontrivial=nt(a, b, c))
    part.note('rows_per_field', {r.name + ('' if full else ' [alphabet of %d]' % len(dom)): len(rows)})


def run_interleave(part, unit):
    """Right shifts alternating between fields and shift counts (PrimeFieldElement keeps a 1-place
    cache of the inverse of 2**n shared by all prime fields)."""
    runners = [Runner(part, s) for s in unit['specs']]
    for n in (1, 2, 3, 2, 1, 5):
        for a in range(1, 7):
            for r in runners:
                r.check('rshift', (a % r.A.q, n))
                r.check('irshift', (a % r.A.q, n))


# -- jobs -------------------------------------------------------------------------------------

def domain_size(spec, mode):
    R = rf.RefField(spec['p'], spec.get('mod'))
    if mode == 'full':
        return R.q, R
    return len(rf.alphabet(R)), R


def jobs(tier, seed):
    triple_max = 32 if tier == 'thorough' else 16
    units = []
    for spec, mode in field_specs(tier):
        n, R = domain_size(spec, mode)
        triples = mode == 'full' and n <= triple_max
        w = 1 if R.prime else 3 + R.d * R.d // 8
        per_row = w * (n * 10 + (n * n * 3 if triples else 0) + 600 + (n + 5 if n <= 256 else 20) + 25 * 14 * (1 if R.prime else 2))
        chunks = max(1, min(n, -(-per_row * n // 400_000)))
        size = -(-n // chunks)
        for lo in range(0, n, size):
            units.append((per_row * min(size, n - lo), dict(spec=spec, mode=mode, lo=lo, hi=min(n, lo + size), triples=triples)))
    units.append((1000, dict(spec=dict(p=7, mod=None), mode='interleave',
                             specs=[dict(p=7, mod=None), dict(p=11, mod=None), dict(p=13, mod=None)])))
    k = 32 if tier == 'quick' else 48
    bins = [[0, []] for _ in range(k)]
    for cost, u in sorted(units, key=lambda cu: (-cu[0], repr(cu[1]))):      # LPT packing, deterministic
        b = min(bins, key=lambda x: x[0])
        b[0] += cost
        b[1].append(u)
    return [dict(units=b[1]) for b in bins if b[1]]


def coverage_extra(tier, seed, total):
    # representative case per violation key: prefer genuine (degree >= 2 or prime) fields over degree-1 extensions
    return rf.finalize(total, prefer=lambda d: int(d['spec'].get('mod') is not None and len(d['spec']['mod']) <= 2))


def run_job(job):
    part = Part()
    rf.arm_watchdog()
    for unit in job['units']:
        try:
            run_unit(part, unit)
        except UnitAborted:
            part.caps.append('a unit was abandoned: field construction failed or a call into the code under test hung (see violation)')
    return part


def replay(case):
    part = Part()
    rf.arm_watchdog()
    try:
        Runner(part, case['spec']).check(case['law'], tuple(case['args']))
    except UnitAborted:
        pass
    return part
