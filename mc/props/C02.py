"""C02 -- secure fixed-point arithmetic stays within its rounding bounds.

Formats (l,f) in {(4,2), (6,3), (8,4)}: ALL representable inputs (pairs; a 25-point alphabet for
(8,4) pairs), every truncation / comparison mask scripted.  Formats (12,6), (16,8), (24,12), (32,16):
structured boundary alphabets (the small formats stay inside every bound where the same code at larger
formats does not, see DESIGN section 6).  Oracle: the bounds written in the property statement, checked
with exact Fraction arithmetic.
"""

import math
import itertools
from fractions import Fraction as Fr

from mc.core import Part
from mc import exact

LEVEL = 'exploration'
FRESH_PROCESS_PER_JOB = True
RULE = ('one case = (format, operation, input tuple, configuration, mask script); small formats: all inputs; medium formats: '
        'boundary alphabets (powers of two and neighbours, range extremes, multiples of pi/8 +- 1 unit); results must be in range')
ASSUMPTIONS = ['results outside the representable range are skipped (precondition)',
               'excluded event: blinding factor 0 in is_zero_public',
               'known findings are identified by operation + an explicit input region + a weaker law that must still hold inside the region']
MANIFEST = dict(
    level='exploration',
    technique='bounded-exhaustive enumeration of fixed-point inputs and truncation masks on the real runtime against exact rational arithmetic',
    text='For (l,f) = (4,2),(6,3),(8,4) all inputs and all mask scripts, for (12,6),(16,8),(24,12),(32,16) boundary alphabets: +,-,neg,comparisons '
         'exact; products within 1 unit (2(1+|x|) for a public float); trunc = floor or ceiling; division/reciprocal within 16(1+|x|) units; sin/cos '
         'within 4 units; x**n within n(1+|x|)^(n-1) units; then (3,1),(4,1),(5,2) multi-party runs on alphabets.',
    ref='DESIGN 5/C02, 6', note='trusted: Fraction arithmetic, math.sin/cos to 1e-15, randomness seam')

SMALL = [(4, 2), (6, 3), (8, 4)]
MEDIUM = [(12, 6), (16, 8), (24, 12), (32, 16)]


def all_values(l, f):
    return [Fr(i, 1 << f) for i in range(-(1 << (l - 1)), 1 << (l - 1))]


def alphabet(l, f):
    """Boundary alphabet of representable values."""
    u = Fr(1, 1 << f)
    top = (1 << (l - 1)) - 1
    raw = {0, 1, -1, 2, -2, 3, -3, top, -top, -top - 1, top - 1}
    for j in range(0, l - 1):
        for d in (-1, 0, 1):
            for s in (1, -1):
                v = s * ((1 << j) + d)
                if -top - 1 <= v <= top:
                    raw.add(v)
    vals = sorted(Fr(v, 1 << f) for v in raw)
    return vals


def alphabet2(l, f):
    """Smaller alphabet for operand PAIRS of the medium formats (about 40 values)."""
    u = Fr(1, 1 << f)
    top = Fr((1 << (l - 1)) - 1, 1 << f)
    vals = {Fr(0), u, -u, 2 * u, -3 * u, Fr(1, 2), -Fr(1, 2), 1 - u, Fr(1), -Fr(1), 1 + u, -1 - u, Fr(3), -Fr(5, 2),
            top, -top - u, top - u, -top}
    j = 1 - f
    while Fr(2) ** j < top:
        vals.update((Fr(2) ** j, -(Fr(2) ** j) - u, Fr(2) ** j * Fr(13, 10) // u * u))
        j += 2
    return sorted(v for v in vals if -top - u <= v <= top)


def in_range(x, l, f):
    return -(1 << (l - f - 1)) <= x < (1 << (l - f - 1))


def within(units_fn, exact_fn, l, f, also=()):
    """ref -> ('within', exact, units, f) or None (skipped when the exact result +- its error bound, or a documented
    intermediate, leaves the representable range: the bound itself permits results that overflow at the extremes)."""
    def ref(v):
        try:
            ex = exact_fn(*v)
            units = units_fn(*v)
            mids = [g(*v) for g in also]
        except ZeroDivisionError:
            return None
        u = Fr(1, 1 << f)
        if ex is None or not in_range(ex - units * u, l, f) or not in_range(ex + units * u, l, f):
            return None
        if any(not in_range(m, l, f) for m in mids):
            return None
        return ('within', ex, units, f)
    return ref


def compare(got, want):
    kind = want[0]
    if kind == 'exact':
        return Fr(got) == want[1]
    if kind == 'either':
        return Fr(got) in (want[1], want[2])
    if kind == 'within':
        _, ex, units, f = want[:4]
        return abs(Fr(got) - ex) <= units * Fr(1, 1 << f)
    return False


def compare_div(got, want):
    """Division / reciprocal: the statement's bound; beyond it the failure is classified by region."""
    _, ex, units, f, x, y = want
    err = abs(Fr(got) - ex) * (1 << f)
    if err <= units:
        return True
    # Known region (DESIGN 6.3): the Newton reciprocal has about f bits of RELATIVE accuracy, so the absolute error grows
    # with |x/y| and passes 16(1+|x|) units for large quotients.  Inside the region a relative law must still hold.
    if abs(ex) >= 8:
        if abs(Fr(got) - ex) <= abs(ex) * Fr(1, 1 << (f - 4)):
            return '!div:large-quotient'
        return 'large-quotient:beyond-relative-law'
    return 'bound'


def compare_trig(got, want):
    _, ex, units, f, x = want
    err = abs(Fr(got) - Fr(ex)) * (1 << f)
    if err <= units + Fr(1, 100):        # math.sin/cos are exact to 1e-16, far below 1/100 unit
        return True
    # Known region (DESIGN 6.4): the argument reduction a/(2 pi)*n carries a relative error: error ~ |x|/32 units
    if abs(x) >= 64:
        if err <= 4 + abs(x) / 8:
            return '!sincos:large-argument'
        return 'large-argument:beyond-scaled-law'
    return 'bound'


def build(mpc, formats=None):
    ops = {}
    for (l, f) in (formats or SMALL + MEDIUM):
        T = mpc.SecFxp(l, f)
        small = (l, f) in SMALL
        dom = all_values(l, f) if small else alphabet(l, f)
        dom2 = alphabet(l, f) if (l, f) in ((8, 4), (6, 3)) else dom if small else alphabet2(l, f)
        u = Fr(1, 1 << f)
        make = (lambda T: (lambda v: T(float(v))))(T)
        mpd = sorted({dom[0], Fr(-1), Fr(-1, 2), -u, Fr(0), u, Fr(1, 2), Fr(1), dom[-1]} & set(dom))

        def op(name, arity, fn, ref, kind=compare, heavy=False, l=l, f=f, make=make, dom=dom, dom2=dom2, mpd=mpd, small=small):
            o = exact.Op(arity, fn, ref, kind, make=make, domain=dom if arity == 1 else dom2, mp_domain=mpd,
                         maxpts=(2 if arity == 1 else 1) if small else (1 if arity == 1 else 0))
            if heavy:
                o.full = -1      # seeded masks only: these protocols let intermediates exceed l bits by design and rely on
                                 # the statistical slack of the masks (an all-zero mask is then not a legitimate outcome)
            ops[f'{l}.{f}:{name}'] = o
        ex = lambda fn, l=l, f=f: (lambda v: (lambda r: ('exact', r) if in_range(r, l, f) else None)(fn(*v)))
        op('add', 2, lambda a, b: a + b, ex(lambda a, b: a + b))
        op('sub', 2, lambda a, b: a - b, ex(lambda a, b: a - b))
        op('neg', 1, lambda a: -a, ex(lambda a: -a))
        op('abs', 1, lambda a: abs(a), ex(lambda a: abs(a)))
        for cname, cf in (('lt', lambda a, b: a < b), ('le', lambda a, b: a <= b), ('eq', lambda a, b: a == b),
                          ('ge', lambda a, b: a >= b), ('gt', lambda a, b: a > b), ('ne', lambda a, b: a != b)):
            # a - b is formed inside: it has to fit
            op(cname, 2, cf, (lambda v, cf=cf, l=l, f=f: ('exact', Fr(int(cf(*v)))) if in_range(v[0] - v[1], l, f) else None))
        op('lt_pub', 1, lambda a: a < 0.5, lambda v, l=l, f=f: ('exact', Fr(int(v[0] < Fr(1, 2)))) if in_range(v[0] - Fr(1, 2), l, f) else None)
        op('max', 2, lambda a, b: mpc.max(a, b), lambda v, l=l, f=f: ('exact', max(v)) if in_range(v[0] - v[1], l, f) else None)
        op('mul', 2, lambda a, b: a * b, within(lambda a, b: 1, lambda a, b: a * b, l, f))
        op('mul_int', 1, lambda a: a * 3, within(lambda a: 1, lambda a: a * 3, l, f))
        op('mul_negint', 1, lambda a: -2 * a, within(lambda a: 1, lambda a: -2 * a, l, f))
        for c in (0.75, -1.5, 0.3):
            op(f'mul_float{c}', 1, lambda a, c=c: a * c, within(lambda a: 2 * (1 + abs(a)), lambda a, c=c: a * Fr(c), l, f))
        op('mul_self', 1, lambda a: a * a, within(lambda a: 1, lambda a: a * a, l, f))
        for j in range(1, min(f, 3) + 1):
            op(f'trunc{j}', 1, lambda a, j=j: mpc.trunc(a, f=j),
               lambda v, j=j, f=f: ('either', Fr(math.floor(v[0] * (1 << f) / (1 << j)), 1 << f), Fr(math.ceil(v[0] * (1 << f) / (1 << j)), 1 << f)))
        for n in (2, 3):
            op(f'pow{n}', 1, lambda a, n=n: a ** n, within(lambda a, n=n: n * (1 + abs(a)) ** (n - 1), lambda a, n=n: a ** n, l, f,
                                                          also=(lambda a: a * a + 2 * (1 + abs(a)) * Fr(1, 1 << f), lambda a: a * a - 2 * (1 + abs(a)) * Fr(1, 1 << f))),
               heavy=True)
        if l >= 2 * f:
            def dref(v, l=l, f=f, u=u):
                x, y = v
                if abs(y) < u or not in_range(2 / y, l, f):      # the reciprocal itself (with headroom) has to be representable
                    return None
                q = x / y
                units = 16 * (1 + abs(x))
                if not in_range(q - units * u, l, f) or not in_range(q + units * u, l, f):
                    return None
                return ('within', q, units, f, x, y)
            op('div', 2, lambda a, b: a / b, dref, compare_div, heavy=True)
            op('reciprocal', 1, lambda a: 1 / a, lambda v, dref=dref: dref((Fr(1), v[0])), compare_div, heavy=True)
            op('div_pub', 1, lambda a: a / 3, within(lambda a: 2 * (1 + abs(a)), lambda a: a / 3, l, f))
        if f >= 4:
            def tref(fn, f=f):
                def ref(v):
                    x = v[0]
                    return ('within', fn(float(x)), 4, f, x)
                return ref
            op('sin', 1, lambda a: mpc.sin(a), tref(math.sin), compare_trig, heavy=True)
            op('cos', 1, lambda a: mpc.cos(a), tref(math.cos), compare_trig, heavy=True)
    return ops


HEAVY = ('div', 'reciprocal', 'sin', 'cos', 'pow2', 'pow3')


def trig_alphabet(l, f):
    """Multiples of pi/8 +- 1 unit and range extremes, representable in (l,f)."""
    u = Fr(1, 1 << f)
    top = Fr((1 << (l - 1)) - 1, 1 << f)
    vals = {Fr(0), u, -u, top, -top - u}
    for k in range(-16, 17):
        c = Fr(round(k * math.pi / 8 * (1 << f)), 1 << f)
        for d in (-u, 0, u):
            if -top - u <= c + d <= top:
                vals.add(c + d)
    j = 1
    while Fr(1 << j) <= top:
        vals.update((Fr(1 << j), -Fr(1 << j), Fr(1 << j) - u))
        j += 1
    return sorted(vals)


def jobs(tier, seed):
    out = []
    names = sorted(build(exact.Dummy()))
    for (l, f) in SMALL + MEDIUM:
        mine = [n for n in names if n.startswith(f'{l}.{f}:')]
        heavy = [n for n in mine if n.split(':')[1] in HEAVY]
        light = [n for n in mine if n not in heavy]
        for n in heavy:
            # heavy protocols: production-size security parameter, seeded masks (two seeds)
            out.append(dict(engine='sp', k=30, ops=[n], tier=tier, seed=seed))
        for k in ((3,) if tier == 'quick' else (3, 6)):
            step = 3 if (l, f) in SMALL else 6
            for i in range(0, len(light), step):
                out.append(dict(engine='sp', k=k, ops=light[i:i + step], tier=tier, seed=seed))
    cfgs = ((3, 1, False), (3, 1, True), (4, 1, False), (5, 2, False)) if tier == 'quick' else exact.CORE_CFGS
    for (m, t, no_prss) in cfgs:
        n = 4 if m <= 3 else 8
        for part in range(n):
            out.append(dict(engine='mp', m=m, t=t, no_prss=no_prss, part=part, parts=n, tier=tier, seed=seed))
    out.sort(key=lambda j: (-(j.get('m', 0)), -j.get('k', 0)))
    return out


def build_mp(mpc):
    ops = build(mpc, [(6, 3), (16, 8)])
    return {n: o for n, o in ops.items() if n.split(':')[1] not in ('sin', 'cos', 'pow3')}


def run_job(job):
    if job['engine'] == 'sp':
        return exact.run_sp('C02', job, build_sp)
    light = [n for n in build_mp(exact.Dummy()) if n.split(':')[1] not in HEAVY]
    heavy = [n for n in build_mp(exact.Dummy()) if n.split(':')[1] in HEAVY]
    part = exact.run_mp('C02', job, build_mp, base_k=4, batch=16, names=light)
    # division etc.: seeded masks only, production-size k
    part.merge(exact.run_mp('C02', dict(job, k=30), build_mp, batch=8, patterns=('seeded',), names=heavy))
    return part


def build_sp(mpc):
    ops = build(mpc)
    for name, op in ops.items():
        fmt, nm = name.split(':')
        l, f = map(int, fmt.split('.'))
        if nm in ('sin', 'cos'):
            op.domain = trig_alphabet(l, f)
    return ops


def replay(case):
    if case.get('engine') == 'sp':
        import re

        def parse(v):
            m_ = re.fullmatch(r'Fraction\((-?\d+), (\d+)\)', v) if isinstance(v, str) else None
            return Fr(int(m_.group(1)), int(m_.group(2))) if m_ else v
        case = dict(case, vals=[parse(v) for v in case['vals']])
        return exact.replay_sp('C02', case, build_sp)
    return run_job(case['job'])
