"""C13 -- any t Shamir shares reveal nothing about the secret.

Exact-distribution enumeration: the dealer's randomness is explored as a choice tree.  thresha.secrets
is rebound to an odometer that answers every randbelow(n) call of the real random_split and records n, so
one call of random_split = one leaf, and ALL leaves are visited (one real call each).  For every coalition
of 1..t parties the multiset of its share tuples over all leaves is counted exactly and must be the
uniform one -- for every secret, hence identical for all secrets.  No statistics, no sampling.
"""

import itertools
from collections import Counter

from mc.core import Part
from mc.ref import shamir as R

LEVEL = 'exploration'
RULE = ('one case = (field, t, m, secret or pair of secrets split in one call, coalition of 1..t parties): the exact '
        'distribution of the coalition\'s shares over ALL outcomes of the dealer\'s randbelow draws (one real '
        'random_split call per outcome) is compared with the uniform distribution; all cases are non-trivial (t >= 1)')
ASSUMPTIONS = [
    'secrets.randbelow(n) is uniform on range(n) and successive draws are independent (the enumeration gives every '
    'leaf of the draw tree the weight prod 1/n_j; the check also demands that every draw has n = |F|, t per secret)',
    'thresha draws randomness only through secrets.randbelow looked up in its module namespace at call time',
    'share values are identified with field elements through int()/.value (mc/ref/shamir.code_of)',
    'finite domain: fields and thresholds with |F|^t (|F|^(2t) for two secrets per call) up to the per-tier limit, m <= 6',
]
MANIFEST = dict(
    level='exploration',
    technique='exact-distribution enumeration of the dealer randomness tree (every randbelow outcome, one real call each)',
    text='Real random_split over GF(3),4,5,7,8,9,11,13,16,25,27: all 1<=t<m<|F|, m<=6 with |F|^t <= 2*10^5 (quick: 2500), '
    'every secret in F, every one of the |F|^t dealer outcomes; for EVERY coalition of 1..t parties the exact count of '
    'each share tuple must be |F|^(t-|C|) (uniform), for each secret.  Also two secrets per call (|F|^(2t) <= 2*10^4): '
    'the coalition\'s shares of both secrets are jointly uniform; every draw has bound |F|, exactly t per secret.',
    ref='DESIGN 5/C13',
    note='trusted: randbelow uniform/independent; randomness seam thresha.secrets; exact counting, no statistics')

FIELDS = ['GF(3)', 'GF(4)', 'GF(5)', 'GF(7)', 'GF(8)', "GF(8)'", 'GF(9)', "GF(9)'", 'GF(11)', 'GF(13)',
          'GF(16)', 'GF(25)', 'GF(27)']
MAX_M = 6
NJOBS = 48
SAMPLE_CASES = {('GF(7)', 2, 4, (3,), (0, 3)), ('GF(8)', 2, 5, (6,), (1, 4)), ('GF(13)', 3, 6, (12,), (0, 2, 5)),
                ('GF(9)', 2, 3, (4,), (2,)), ('GF(5)', 1, 3, (1, 4), (2,)), ('GF(16)', 2, 6, (15,), (0, 5))}


def limits(tier):
    """(max leaves for one secret per call, max leaves for two secrets per call)."""
    return (200_000, 20_000) if tier == 'thorough' else (2_500, 700)


class Odometer:
    """Stand-in for `secrets`: enumerates all outcomes of the sequence of randbelow calls made by the code."""

    def __init__(self):
        self.prefix = []
        self.start()

    def start(self):
        self.pos = 0
        self.bounds = []

    def randbelow(self, n):
        if self.pos < len(self.prefix):
            v = self.prefix[self.pos]
        else:
            v = 0
            self.prefix.append(0)
        self.bounds.append(n)
        self.pos += 1
        return v

    def advance(self):
        """Move to the next leaf (uses the bounds seen in the call just made); False when done."""
        del self.prefix[len(self.bounds):]
        while self.prefix:
            k = len(self.prefix) - 1
            if self.prefix[k] + 1 < self.bounds[k]:
                self.prefix[k] += 1
                return True
            self.prefix.pop()
        return False


def configs(tier):
    lim1, lim2 = limits(tier)
    for name in FIELDS:
        q = R.order(name)
        for m in range(2, min(MAX_M, q - 1) + 1):
            for t in range(1, m):
                if q**t <= lim1:
                    yield name, t, m, 1
                if q**(2 * t) <= lim2:
                    yield name, t, m, 2


def secret_tuples(name, nsec, t):
    q = R.order(name)
    if nsec == 1:
        return [(s,) for s in range(q)]
    if q * q * q**(2 * t) <= 100_000:
        return list(itertools.product(range(q), repeat=2))
    return sorted({(0, 0), (0, 1), (1, q - 1), (q - 1, q - 1), (q // 2, q // 2)})


def jobs(tier, seed):
    units = []
    for name, t, m, nsec in configs(tier):
        q = R.order(name)
        p, modcode = R.FIELD_SPECS[name]
        slow = 1.0 if modcode is None else 2.0 if p == 2 else 5.0
        for st in secret_tuples(name, nsec, t):
            w = slow * q**(t * nsec) * (2 + m * t * nsec * 0.3 + 0.3 * sum(1 for k in range(1, t + 1)
                                                                               for _ in itertools.combinations(range(m), k)))
            units.append((w, (name, t, m, list(st))))
    units.sort(key=lambda u: (-u[0], u[1]))
    bins = [[0.0, []] for _ in range(NJOBS)]
    for w, u in units:
        b = min(bins, key=lambda b: b[0])
        b[0] += w
        b[1].append(u)
    return [dict(tier=tier, units=b[1]) for b in bins if b[1]]


def explore(part, thresha, seam, name, field, F, t, m, secrets, as_elements=False):
    """Visit every leaf of the draw tree of random_split(field, secrets, t, m); return
    (rows, leaves, bounds_ok) with rows[i][h] = list over leaves of party i's share code of secret h."""
    q = F.q
    nsec = len(secrets)
    arg = [field(s) for s in secrets] if as_elements else list(secrets)
    rows = [[[] for _ in range(nsec)] for _ in range(m)]
    appends = [[rows[i][h].append for h in range(nsec)] for i in range(m)]
    code_of = R.code_of
    seam.prefix = []
    leaves = 0
    want = [q] * (t * nsec)
    bounds_seen = None
    doc = dict(field=name, t=t, m=m, secrets=list(secrets), elements=as_elements)
    while True:
        seam.start()
        sh = thresha.random_split(field, arg, t, m)
        leaves += 1
        b = seam.bounds
        if b != want and bounds_seen is None:
            part.violation('C13:draw-bound' if len(b) == len(want) else 'C13:draw-count',
                           f'{name} t={t} m={m} secrets={list(secrets)}: random_split drew randbelow{tuple(b)}; the '
                           f'uniform-coefficients premise needs exactly t={t} draws per secret, each with bound |F|={q}', doc)
        if bounds_seen is None:
            bounds_seen = list(b)
        elif b != bounds_seen:
            part.violation('C13:draw-structure', f'{name} t={t} m={m} secrets={list(secrets)}: the bounds of the draws '
                           f'depend on earlier outcomes ({bounds_seen} vs {b}); leaves are not equiprobable', doc)
            return None, leaves, False
        for i in range(m):
            row = sh[i]
            ap = appends[i]
            for h in range(nsec):
                v = row[h]
                ap[h](v if type(v) is int and 0 <= v < q else code_of(F, v))
        if not seam.advance():
            break
        if leaves > 2_000_000:
            part.caps.append('C13: more than 2e6 leaves in one draw tree')
            return None, leaves, False
    return rows, leaves, bounds_seen == want


def check_unit(part, thresha, seam, name, t, m, secrets, as_elements=False):
    field = R.make_field(name)
    F = R.ref_field(name)
    q = F.q
    nsec = len(secrets)
    rows, leaves, premise = explore(part, thresha, seam, name, field, F, t, m, secrets, as_elements)
    part.note('dealer_outcomes_enumerated', leaves)
    part.note('real_split_calls', leaves)
    if rows is None:
        return None
    digests = {}
    for k in range(1, t + 1):
        for C in itertools.combinations(range(m), k):
            cols = [rows[i][h] for i in C for h in range(nsec)]
            cnt = Counter(zip(*cols))
            cells = q ** (k * nsec)
            part.case(nontrivial=True)
            part.outcomes.add((q, k * nsec, len(cnt) == cells))
            each, rem = divmod(leaves, cells)
            if rem or len(cnt) != cells or set(cnt.values()) != {each}:
                missing = cells - len(cnt)
                tup, c = min(cnt.items(), key=lambda kv: (kv[1], kv[0]))
                tup2, c2 = max(cnt.items(), key=lambda kv: (kv[1], kv[0]))
                part.violation(f'C13:nonuniform:{"one" if nsec == 1 else "two"}-secret',
                               f'{name} t={t} m={m} secrets={list(secrets)} coalition={list(C)}: over all {leaves} dealer '
                               f'outcomes {missing} of the {cells} share tuples never occur; tuple {list(tup)} occurs {c}x, '
                               f'{list(tup2)} occurs {c2}x (uniform: {leaves}/{cells} each)',
                               dict(field=name, t=t, m=m, secrets=list(secrets), elements=as_elements))
            if (name, t, m, tuple(secrets), C) in SAMPLE_CASES and not as_elements:   # fixed: same samples every run
                part.sample(dict(field=name, t=t, m=m, secrets=list(secrets), coalition=list(C), dealer_outcomes=leaves,
                                 distinct_share_tuples=len(cnt), count_of_each=sorted(set(cnt.values()))))
            # keep the whole distribution when small, else its exact signature (number of cells, histogram of counts)
            digests[C] = cnt if len(cnt) <= 4096 else (len(cnt), tuple(sorted(Counter(cnt.values()).items())))
    return digests


def run_job(job):
    from mpyc import thresha
    part = Part()
    seam = Odometer()
    saved = thresha.secrets
    thresha.secrets = seam
    try:
        first = {}
        for name, t, m, secrets in job['units']:
            d = check_unit(part, thresha, seam, name, t, m, secrets)
            part.note('configs_by_field', {name: 1})
            if d is None:
                continue
            # identical for every secret: literal comparison with the first secret tuple seen by this job
            key = (name, t, m, len(secrets))
            if key not in first:
                first[key] = (secrets, d)
            else:
                s0, d0 = first[key]
                for C, cnt in d.items():
                    part.case(nontrivial=True)
                    if cnt != d0[C]:
                        part.violation('C13:depends-on-secret', f'{name} t={t} m={m} coalition={list(C)}: share '
                                       f'distribution for secrets {s0} differs from that for {secrets}',
                                       dict(field=name, t=t, m=m, secrets=list(secrets), other=list(s0), elements=False))
            # secrets passed as field elements take another branch of random_split: same distribution
            q = R.order(name)
            if secrets[0] in (1, q - 1) and q**(t * len(secrets)) <= 3000:
                check_unit(part, thresha, seam, name, t, m, secrets, as_elements=True)
    finally:
        thresha.secrets = saved
    return part


def coverage_extra(tier, seed, total):
    cfg = list(configs(tier))
    return dict(fields=FIELDS, max_m=MAX_M, leaf_limits=list(limits(tier)),
                configs_one_secret=sum(1 for c in cfg if c[3] == 1), configs_two_secrets=sum(1 for c in cfg if c[3] == 2))


def replay(case):
    from mpyc import thresha
    part = Part()
    seam = Odometer()
    saved = thresha.secrets
    thresha.secrets = seam
    try:
        d = check_unit(part, thresha, seam, case['field'], case['t'], case['m'], case['secrets'],
                       as_elements=case.get('elements', False))
        if case.get('other') and d is not None:
            d0 = check_unit(part, thresha, seam, case['field'], case['t'], case['m'], case['other'])
            if d0 is not None and any(d[C] != d0[C] for C in d):
                part.violation('C13:depends-on-secret', f'{case["field"]} t={case["t"]} m={case["m"]}: share distribution '
                               f'for secrets {case["other"]} differs from that for {case["secrets"]}', case)
    finally:
        thresha.secrets = saved
    return part
