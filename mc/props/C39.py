"""C39 -- secure type and party configuration parameters are valid.

Five bounded-exhaustive families on the real code (no hooks):

 args      every combination of SecFld(order, modulus, char, ext_deg, min_order, signed) over declared
           finite alphabets (1-party runtime).  A reference resolver written here (trial division, brute-force
           irreducibility) classifies each request as consistent (some field meets every argument) or
           inconsistent.  Every consistent request must be accepted and yield a genuine field with exactly
           the requested order / characteristic / degree / modulus, order >= min_order (and the smallest
           admissible field where min_order is the deciding argument), is_signed as requested.
           Inconsistent requests violate SecFld's precondition (guarded by asserts only): their outcome is
           counted, nothing is demanded.
 lifting   every party configuration (m, t) set up by the real runtime.setup(): SecFld of a prime field is
           lifted to a proper extension of the same characteristic with more than m elements exactly when
           t > 0 and m >= q, constants embed into / convert back from the big field.
 setup     runtime.setup() accepts (m, t) iff 2t < m; default threshold (m-1)//2.
 types     every SecInt/SecFxp/SecFlt with tiny bit lengths and security parameters under every (m, t > 0)
           is refused or has a prime field with more than m elements.
 protocol  real m-party executions (virtual world, default schedule) computing x*y + x over all pairs of a
           (lifted) SecFld: outputs are base-field elements with the right values at every party.
"""

import sys
import itertools

from mc.core import Part

LEVEL = 'exploration'
RULE = ('args: one case = one tuple (order, modulus, char, ext_deg, min_order, signed) from the full product of '
        'the declared alphabets (non-trivial = the arguments are consistent, i.e. some field meets all of them; '
        'inconsistent requests are precondition violations and only counted); '
        'lifting: one case = (m, t, field request), all m <= 7 (thorough 12), all t with 2t < m; '
        'setup: one case = (m, t | default, prss mode), all m <= 8 (12), t <= 4 (7); '
        'types: one case = (m, t, sec_param K, constructor, l, f, p); '
        'protocol: one case = one complete m-party execution (m, t, q) evaluating q*q products')
ASSUMPTIONS = ['reference arithmetic written here: trial-division primality (Miller-Rabin with 13 fixed bases above 10^6), brute-force irreducibility (all monic '
               'divisors up to half the degree), base-p digit expansion, a 20-line polynomial string parser',
               '"minimum order" is read as the docstring states it: order >= min_order; whether the smallest admissible field '
               'is returned is only counted (min_order_field_not_smallest_observed), not demanded',
               'a refusal (exception) of SecFld over GF(p^d), d > 1, when m >= p^d and t > 0 is accepted (source: '
               '"TODO: cover case ext_deg > 1"); counted in lifting_refused_ext_deg_gt_1',
               'contradictory SecFld arguments (e.g. order=4 with a modulus of degree 3) are precondition violations: '
               'SecFld guards them with assert statements only, so nothing is demanded of their outcome',
               'any exception counts as a refusal (setup, constructors)',
               'protocol family: virtual event loop/transport model of mc/world.py, default schedule only']

MANIFEST = dict(
    level='exploration',
    technique='bounded-exhaustive enumeration of constructor arguments and of party configurations set up by the real '
              'runtime.setup(), against trial-division/brute-force field arithmetic',
    text='(args) full product of SecFld arguments: 14 orders x 24 moduli (None, ints, strings, GF(p)[x] polynomials '
         'incl. reducible/non-monic) x 5 chars x 4 degrees x 14 min_orders x 3 signed: every consistent request is '
         'accepted and gives exactly the requested order/char/degree/modulus/sign, order >= min_order and minimal '
         '(inconsistent requests = precondition violations, counted only); (lifting) all (m <= 7 (12), 2t < m): lifted iff t > 0 and m >= q, proper extension of the same '
         'characteristic with > m elements, embedding and _output_conversion on all base constants; (setup) accepted iff '
         '2t < m for m <= 8 (12), t <= 4 (7), default threshold; (types) SecInt/SecFxp/SecFlt with l <= 4, K in '
         '{0,1,2,30} and user primes: refused or prime field order > m; (protocol) real m-party runs over lifted '
         'fields output base-field elements with correct values.',
    ref='DESIGN 5/C39',
    note='trusted: the small reference arithmetic in the driver; mc/world.py for the protocol family; declared finite '
         'alphabets; minimality under min_order is an interpretation of "exactly the requested minimum order"')

# -- reference arithmetic --------------------------------------------------------------------

def is_prime(n):
    """Trial division below 10^6; above, Miller-Rabin with the first 13 primes as bases
    (deterministic below 3.3 * 10^24, covers every field order constructed here)."""
    if n < 2:
        return False
    if n < 10**6:
        i = 2
        while i * i <= n:
            if n % i == 0:
                return False
            i += 1
        return True
    if n >= 3317044064679887385961981:
        raise AssertionError('is_prime: number beyond the deterministic range')
    bases = (2, 3, 5, 7, 11, 13, 17, 19, 23, 29, 31, 37, 41)
    if any(n % b == 0 for b in bases):
        return False
    r, s = 0, n - 1
    while s % 2 == 0:
        r, s = r + 1, s // 2
    for a in bases:
        x = pow(a, s, n)
        if x in (1, n - 1):
            continue
        for _ in range(r - 1):
            x = x * x % n
            if x == n - 1:
                break
        else:
            return False
    return True


def prime_power(n):
    """(p, d) with n == p**d, p prime, d >= 1; else None."""
    if n < 2:
        return None
    p = 2
    while n % p:
        p += 1
    d = 0
    while n % p == 0:
        n //= p
        d += 1
    return (p, d) if n == 1 else None


def digits(n, p):
    ds = []
    while n:
        ds.append(n % p)
        n //= p
    return ds


def strip(c):
    c = list(c)
    while c and c[-1] == 0:
        c.pop()
    return c


def poly_mod(a, b, p):
    """Remainder of a modulo b over GF(p); coefficient lists low -> high, b != 0."""
    a = strip(x % p for x in a)
    b = strip(x % p for x in b)
    inv = pow(b[-1], p - 2, p) if p > 2 else 1
    while len(a) >= len(b):
        c = a[-1] * inv % p
        s = len(a) - len(b)
        for i, bi in enumerate(b):
            a[s + i] = (a[s + i] - c * bi) % p
        a = strip(a)
    return a


def irreducible(c, p):
    """Brute force: degree >= 1 and no monic divisor of degree 1..deg/2."""
    c = strip(x % p for x in c)
    d = len(c) - 1
    if d < 1:
        return False
    for e in range(1, d // 2 + 1):
        for low in itertools.product(range(p), repeat=e):
            if not poly_mod(c, list(low) + [1], p):
                return False
    return True


def parse_poly(s, p):
    """'2x^3+x+1' -> coefficient list low -> high mod p."""
    co = {}
    for term in s.replace(' ', '').split('+'):
        if 'x' in term:
            a, _, e = term.partition('x')
            a = int(a) if a else 1
            e = int(e[1:]) if e else 1
        else:
            a, e = int(term), 0
        co[e] = (co.get(e, 0) + a) % p
    c = [0] * (max(co) + 1)
    for e, a in co.items():
        c[e] = a
    return strip(c)


# -- family args -----------------------------------------------------------------------------

ORDERS = [None, 2, 3, 4, 5, 6, 7, 8, 9, 16, 25, 27, 101, 12]
MODULI = [None,
          ('int', 2), ('int', 3), ('int', 5), ('int', 7), ('int', 11), ('int', 13), ('int', 19),
          ('str', 'x'), ('str', 'x+1'), ('str', 'x^2+x+1'), ('str', 'x^2+1'), ('str', 'x^3+x+1'), ('str', 'x^2+2'),
          ('str', 'x^4+x+1'),
          ('poly', 2, [1, 1, 1]), ('poly', 2, [1, 0, 1]), ('poly', 2, [1, 1, 0, 1]), ('poly', 3, [1, 0, 1]),
          ('poly', 3, [2, 0, 1]), ('poly', 3, [1, 2, 0, 1]), ('poly', 5, [2, 0, 1]), ('poly', 7, [1, 1]),
          ('poly', 3, [2, 0, 2])]
CHARS = [None, 2, 3, 4, 5]
EXT_DEGS = [None, 1, 2, 3]
MIN_ORDERS = [None, 2, 3, 4, 5, 8, 9, 10, 17, 25, 27, 100, 125, 243]
SIGNED = ['omitted', False, True]


def resolve(order, modulus, char, ext_deg, min_order):
    """Reference reading of the request.

    -> ('invalid', why) | ('ok', p or None, d, coeffs or None, minimal?)   (p None: any prime will do)
    Integers > characteristic are polynomials in base-p digits (docstring: "an integer > char"), where the
    characteristic may come from char or from order."""
    p = d = None
    if order is not None:
        pd = prime_power(order)
        if pd is None:
            return ('invalid', 'order is no prime power')
        p, d = pd
    if char is not None:
        if not is_prime(char):
            return ('invalid', 'char is no prime')
        if p is not None and p != char:
            return ('invalid', 'char contradicts order')
        p = char
    if ext_deg is not None:
        if d is not None and d != ext_deg:
            return ('invalid', 'ext_deg contradicts order')
        d = ext_deg
    coeffs = None
    if modulus is not None:
        kind = modulus[0]
        if kind == 'int':
            v = modulus[1]
            if p is None or v == p:
                if not is_prime(v):
                    return ('invalid', 'modulus is no prime')
                if d not in (None, 1):
                    return ('invalid', 'prime modulus contradicts degree')
                p, d = v, 1
            elif v < p:
                return ('invalid', 'integer modulus below characteristic')
            else:
                coeffs = digits(v, p)
        elif kind == 'str':
            p = p or 2
            coeffs = parse_poly(modulus[1], p)
        else:
            if p is not None and p != modulus[1]:
                return ('invalid', 'polynomial over another characteristic')
            p = modulus[1]
            coeffs = strip(modulus[2])
        if coeffs is not None:
            deg = len(coeffs) - 1
            if deg < 1 or not irreducible(coeffs, p):
                return ('invalid', 'modulus is not irreducible')
            if d is not None and d != deg:
                return ('invalid', 'degree of modulus contradicts order/ext_deg')
            d = deg
        if min_order is not None and p**d < min_order:
            return ('invalid', 'field of the modulus smaller than min_order')
        return ('ok', p, d, coeffs, False)
    if min_order is None:
        return ('ok', p, d or 1, None, False)
    if p is None:
        d = d or 1
        p = 2
        while not (is_prime(p) and p**d >= min_order):
            p += 1
        return ('ok', p, d, None, True)
    if d is None:
        d = 1
        while p**d < min_order:
            d += 1
        return ('ok', p, d, None, order is None)
    if p**d < min_order:
        return ('invalid', 'requested field smaller than min_order')
    return ('ok', p, d, None, False)


def build_modulus(spec):
    from mpyc import gfpx
    if spec is None:
        return None
    if spec[0] in ('int', 'str'):
        return spec[1]
    return gfpx.GFpX(spec[1])(list(spec[2]))


def field_facts(field):
    """(order, char, ext_deg, modulus coefficient list | int) read off the returned field type."""
    mod = field.modulus
    if isinstance(mod, int):
        modc = mod
    elif isinstance(mod.value, int):      # GF(2)[x]: coefficients packed as bits
        modc = digits(mod.value, 2)
    else:
        modc = [int(c) for c in mod.value]
    return field.order, field.characteristic, field.ext_deg, modc


def check_args(part, sectypes, order, modulus, char, ext_deg, min_order, signed):
    case = dict(family='args', order=order, modulus=modulus, char=char, ext_deg=ext_deg, min_order=min_order,
                signed=signed)
    kw = {}
    if order is not None:
        kw['order'] = order
    if modulus is not None:
        kw['modulus'] = build_modulus(modulus)
    if char is not None:
        kw['char'] = char
    if ext_deg is not None:
        kw['ext_deg'] = ext_deg
    if min_order is not None:
        kw['min_order'] = min_order
    if signed != 'omitted':
        kw['signed'] = signed
    mk = 'none' if modulus is None else modulus[0]
    ref = resolve(order, modulus, char, ext_deg, min_order)
    try:
        sectype = sectypes.SecFld(**kw)
    except Exception as exc:
        part.note('args_rejected', {type(exc).__name__: 1})
        part.outcomes.add(('rejected', type(exc).__name__, ref[0]))
        if ref[0] == 'ok':
            part.case(key=None, nontrivial=True)
            part.violation(f'C39:secfld:consistent-request-rejected:modulus={mk}',
                           f'SecFld({show(kw)}) raises {type(exc).__name__}({exc}) although GF({ref[1] or 2}^{ref[2]}) '
                           f'meets every argument', case)
        else:
            part.case(key=None, nontrivial=False)
            part.note('inconsistent_requests_rejected', 1)
        return
    if ref[0] == 'invalid':
        # The arguments contradict each other (or name no field): a violated precondition of SecFld, which is
        # guarded by assert statements only.  Nothing is demanded of the result; it is only counted.
        part.case(key=None, nontrivial=False)
        part.note('inconsistent_requests_accepted', 1)
        part.note('inconsistent_accepted_reasons', {ref[1]: 1})
        return
    part.case(key=None, nontrivial=True)
    part.note('args_accepted', 1)
    field = sectype.field
    if sectype.subfield is not None:
        raise AssertionError('lifting in the 1-party runtime')
    q, p, d, modc = field_facts(field)
    part.outcomes.add(('accepted', q, field.is_signed))
    if len(part.samples) < 2 and len(kw) >= 3 and q > 4:
        part.sample(dict(case=case, field=field.__name__, order=q))
    call = f'SecFld({show(kw)}) -> {field.__name__} (order {q}, char {p}, ext_deg {d}, modulus {field.modulus})'
    bad = False

    def fail(law, what):
        nonlocal bad
        bad = True
        part.violation(f'C39:secfld:{law}:modulus={mk}', f'{call}: {what}', case)

    # a genuine field, consistently described
    if not (is_prime(p) and d >= 1 and q == p**d):
        fail('not-a-field', 'order/characteristic/degree do not describe a finite field')
        return
    if isinstance(modc, int):
        if modc != p or d != 1:
            fail('not-a-field', 'integer modulus differs from the characteristic')
    elif len(strip(modc)) - 1 != d or not irreducible(modc, p):
        fail('not-a-field', 'modulus is not an irreducible polynomial of degree ext_deg')
    if order is not None and q != order:
        fail('order-mismatch', f'requested order {order}')
    if char is not None and p != char:
        fail('char-mismatch', f'requested char {char}')
    if ext_deg is not None and d != ext_deg:
        fail('ext_deg-mismatch', f'requested ext_deg {ext_deg}')
    if min_order is not None and q < min_order:
        fail('below-min_order', f'requested min_order {min_order}')
    want_signed = False if signed == 'omitted' else signed
    if field.is_signed is not want_signed:
        fail('signed-mismatch', f'is_signed {field.is_signed}, requested {want_signed}')
    if modulus is not None and not bad:
        want = ref[3] if ref[3] is not None else ref[1]
        if modc != want:
            fail('modulus-mismatch', f'requested modulus has coefficients {want}')
    if bad:
        return
    _, rp, rd, _, minimal = ref
    if minimal and (q != rp**rd):
        # not demanded: the docstring promises only 'Order q >= min_order' (e.g. SecFld(char=5, min_order=125) gives
        # GF(5^4) because math.log(125, 5) > 3); counted so that the observation stays visible
        part.note('min_order_field_not_smallest_observed', 1)
    elif d != rd or (rp is not None and p != rp):
        fail('default-mismatch', f'documented resolution gives GF({rp or "p"}^{rd})')


def show(kw):
    return ', '.join(f'{k}={str(v)!r}' if k == 'modulus' and not isinstance(v, int) else f'{k}={v!r}'
                     for k, v in kw.items())


# -- configurations ----------------------------------------------------------------------------

def configure(m, t, extra=()):
    """Run the real setup() for (m, t); -I keeps it from spawning the other parties."""
    from mpyc import runtime as rtmod
    from mpyc import sectypes
    argv = ['verif', '--no-log']
    if m is not None:
        argv += ['-M', str(m), '-I', '0']
    if t is not None:
        argv += ['-T', str(t)]
    sys.argv = argv + list(extra)
    try:
        rt = rtmod.setup()
    finally:
        sys.argv = ['verif', '--no-log']
    rtmod.mpc = rt
    for name in ('_SecFld', '_SecInt', '_SecFxp', '_SecFlt'):
        getattr(sectypes, name).cache_clear()
    if sectypes.runtime is not rt:
        raise AssertionError('setup() did not rebind sectypes.runtime')
    return rt


def valid_configs(mmax):
    return [(m, t) for m in range(1, mmax + 1) for t in range(0, m) if 2 * t < m]


LIFT_REQUESTS = [dict(order=2), dict(order=3), dict(order=5), dict(order=7), dict(order=11), dict(order=13),
                 dict(modulus=2), dict(modulus=3), dict(modulus=7), dict(min_order=4), dict(min_order=6),
                 dict(char=3), dict(), dict(order=5, signed=True),
                 dict(order=4), dict(order=8), dict(order=9), dict(modulus='x^2+x+1'), dict(char=2, ext_deg=3),
                 dict(modulus='x+1'), dict(order=16), dict(order=25)]


def check_lifting(part, m, t, req):
    from mpyc import sectypes
    case = dict(family='lifting', m=m, t=t, request=req)
    ref = resolve(req.get('order'), None if 'modulus' not in req else
                  (('int' if isinstance(req['modulus'], int) else 'str'), req['modulus']),
                  req.get('char'), req.get('ext_deg'), req.get('min_order'))
    assert ref[0] == 'ok'
    p, d = ref[1] or 2, ref[2]
    q = p**d
    must_lift = t > 0 and m >= q
    part.case(key=None, nontrivial=must_lift or t > 0)
    cls = 'prime' if d == 1 else 'ext'
    try:
        sectype = sectypes.SecFld(**req)
    except Exception as exc:
        part.outcomes.add(('refused', must_lift, cls))
        if must_lift and cls == 'ext':
            part.note('lifting_refused_ext_deg_gt_1', 1)
            return
        part.violation(f'C39:lifting:refused:{cls}', f'm={m} t={t}: SecFld({show(req)}) raises '
                       f'{type(exc).__name__}({exc})', case)
        return
    field, sub = sectype.field, sectype.subfield
    what = (f'm={m} t={t}: SecFld({show(req)}): field {field.__name__} (order {field.order}), subfield '
            f'{sub.__name__ if sub else None}')
    part.outcomes.add((m >= q, t > 0, field.order, sub is not None))
    if t > 0 and not field.order > m:
        part.violation(f'C39:lifting:field-not-larger-than-parties:{cls}', what + f': field order <= m', case)
        return
    if not must_lift:
        if sub is not None or field.order != q or field.characteristic != p:
            part.violation(f'C39:lifting:lifted-without-need:{cls}', what + f': GF({q}) itself was to be used', case)
        elif (len(part.samples) < 4 and m == 5 and t == 1 and q == 7):
            part.sample(dict(case=case, field=field.__name__, subfield=None))
        return
    # lifted
    if sub is None:
        part.violation(f'C39:lifting:not-lifted:{cls}', what + ': lifting required (t > 0 and m >= q)', case)
        return
    e = field.ext_deg
    if sub.order != q or sub.characteristic != p or field.characteristic != p or e < 2 or field.order != q**(e // d) \
            or e % d or field.order != p**e:
        part.violation(f'C39:lifting:wrong-extension:{cls}', what + f': no proper extension of GF({q})', case)
        return
    if 'signed' in req and sub.is_signed is not req['signed']:
        part.violation(f'C39:lifting:signed-mismatch:{cls}', what + f': subfield.is_signed {sub.is_signed}', case)
    part.note('lifted_types', 1)
    part.note_max('max_lifted_order', field.order)
    if len(part.samples) < 4 and m == 4 and q == 2:
        part.sample(dict(case=case, field=field.__name__, subfield=sub.__name__))
    if d != 1:
        return
    for c in range(q):
        big = field(c)
        try:
            out = sectype._output_conversion(big)
        except Exception as exc:
            part.violation(f'C39:lifting:output-conversion:{cls}', what + f': _output_conversion(field({c})) raises '
                           f'{type(exc).__name__}', case)
            break
        if not isinstance(out, sub) or int(out) % q != c or out != sub(c):
            part.violation(f'C39:lifting:output-conversion:{cls}', what + f': _output_conversion(field({c})) = '
                           f'{out!r} of {type(out).__name__}, want {sub.__name__}({c})', case)
            break
        shares = [sectype(c).share, sectype(sub(c)).share]
        if isinstance(sub.modulus, int):     # prime field: integers are residues mod q
            shares += [sectype(c + q).share, sectype(c - q).share]
        if not all(isinstance(a, field) and a == big for a in shares):
            part.violation(f'C39:lifting:embedding:{cls}', what + f': the constants {c}, {sub.__name__}({c}), {c + q}, '
                           f'{c - q} are not all embedded as field({c}): {shares}', case)
            break
    # an element outside the base field has no base-field output
    x = field([0, 1]) if hasattr(field.modulus, 'degree') else None
    if x is not None:
        try:
            out = sectype._output_conversion(x)
            part.note('nonbase_output_converted', 1)
        except Exception:
            part.note('nonbase_output_refused', 1)


def check_setup(part, m, t, no_prss):
    from mpyc import runtime as rtmod
    case = dict(family='setup', m=m, t=t, no_prss=no_prss)
    ok = 2 * (t if t is not None else (m - 1) // 2) < m
    part.case(key=None, nontrivial=True)
    try:
        rt = configure(m, t, ['--no-prss'] if no_prss else [])
    except Exception as exc:
        part.outcomes.add(('refused', type(exc).__name__))
        part.note('setup_refused', {type(exc).__name__: 1})
        if ok:
            part.violation('C39:setup:valid-threshold-refused', f'setup() with -M {m} -T {t} raises '
                           f'{type(exc).__name__}({exc})', case)
        return
    part.outcomes.add(('accepted', rt.threshold, len(rt.parties)))
    part.note('setup_accepted', 1)
    if not ok:
        part.violation('C39:setup:threshold-too-large-accepted', f'setup() accepts -M {m} -T {t} (2t >= m); runtime '
                       f'has threshold {rt.threshold}, {len(rt.parties)} parties', case)
        return
    want_t = t if t is not None else (m - 1) // 2
    if rt.threshold != want_t or len(rt.parties) != m or rt.pid != 0 or rtmod.mpc is not rt:
        part.violation('C39:setup:wrong-configuration', f'-M {m} -T {t}: runtime has threshold {rt.threshold} '
                       f'(want {want_t}), {len(rt.parties)} parties', case)
    if len(part.samples) < 6 and m == 5 and not no_prss:
        part.sample(dict(case=case, threshold=rt.threshold, parties=len(rt.parties)))


TYPE_REQUESTS = (
    [('SecInt', dict(l=l)) for l in (1, 2, 3, 4, 8, None)] +
    [('SecInt', dict(l=l, p=p)) for l in (1, 2) for p in (3, 5, 7, 11, 13, 17, 31, 257)] +
    [('SecFxp', dict(l=l, f=f)) for l in (1, 2, 3, 4, None) for f in (0, 1, 2, None)] +
    [('SecFxp', dict(l=2, f=1, p=p)) for p in (7, 11, 13, 31, 61, 257)] +
    [('SecFlt', dict(l=l, s=s, e=e)) for (l, s, e) in ((2, 1, 1), (3, 2, 1), (4, 2, 2), (8, 5, 3), (None, None, None))])


def check_types(part, m, t, k):
    from mpyc import sectypes
    for ctor, kw in TYPE_REQUESTS:
        case = dict(family='types', m=m, t=t, K=k, ctor=ctor, kw=kw)
        part.case(key=None, nontrivial=t > 0)
        args = {a: v for a, v in kw.items() if v is not None}
        try:
            sectype = getattr(sectypes, ctor)(**args)
        except Exception as exc:
            part.outcomes.add((ctor, 'refused', type(exc).__name__))
            part.note('types_refused', {type(exc).__name__: 1})
            continue
        fields = [sectype.significand_type.field, sectype.exponent_type.field] if ctor == 'SecFlt' else [sectype.field]
        part.note('types_constructed', 1)
        for field in fields:
            part.outcomes.add((ctor, field.order > m, field.order.bit_length()))
            if t > 0:
                part.note_max('max_parties_over_order_x1000', 1000 * m // field.order)
            if not (is_prime(field.order) and field.characteristic == field.order and field.ext_deg == 1):
                part.violation(f'C39:types:{ctor}:not-a-prime-field', f'm={m} t={t} -K {k}: {ctor}({show(args)}) over '
                               f'{field.__name__}', case)
            elif t > 0 and not field.order > m:
                part.violation(f'C39:types:{ctor}:field-not-larger-than-parties', f'm={m} t={t} -K {k}: '
                               f'{ctor}({show(args)}) uses {field.__name__} with only {field.order} elements', case)
            elif 'p' in args and field.order != args['p']:
                part.violation(f'C39:types:{ctor}:wrong-prime', f'm={m} t={t} -K {k}: {ctor}({show(args)}) over '
                               f'{field.__name__}', case)
        if len(part.samples) < 2 and m == 7 and ctor == 'SecInt' and kw.get('l') == 1 and 'p' not in kw:
            part.sample(dict(case=case, field=fields[0].__name__))


# -- family protocol: real m-party executions -------------------------------------------------

def run_protocol(part, m, t, qs):
    from mc.world import World
    from mc.explorer import run_execution
    world = World(m, t)
    try:
        for q in qs:
            case = dict(family='protocol', m=m, t=t, q=q)
            logs = []

            async def prog(mpc, q=q, logs=logs):
                await mpc.start()
                secfld = mpc.SecFld(q)
                zs = []
                for a in range(q):
                    for b in range(q):
                        x = mpc.input(secfld(a), senders=0)
                        y = mpc.input(secfld(b), senders=len(mpc.parties) - 1)
                        zs.append(x * y + x)
                out = await mpc.output(zs)
                one = await mpc.output(zs[-1], receivers=0)
                logs.append((mpc.pid, secfld.field.order, [(type(o).__name__, type(o).order, int(o)) for o in out],
                             None if one is None else (type(one).order, int(one))))
                await mpc.shutdown()

            def setup(w):
                for i in range(w.m):
                    w.spawn(i, prog)

            x = run_execution(world, setup)
            part.case(key=None, nontrivial=m > 1)
            part.traces += 1
            part.transitions += x.nsteps
            want = [(a * b + a) % q for a in range(q) for b in range(q)]
            lifted = t > 0 and m >= q
            if x.status != 'done' or len(logs) != m:
                part.violation('C39:protocol:not-completed', f'm={m} t={t} SecFld({q}): status {x.status}, '
                               f'{len(logs)} of {m} parties finished; errors {world.loop_errors!r:.300}', case)
                continue
            for pid, big, out, one in sorted(logs):
                part.outcomes.add((q, big, lifted))
                if t > 0 and not big > m:
                    part.violation('C39:protocol:field-not-larger-than-parties', f'm={m} t={t} SecFld({q}): shares '
                                   f'live in a field of {big} elements', case)
                if [o[1] for o in out] != [q] * len(want) or (pid == 0 and (one is None or one[0] != q)):
                    part.violation('C39:protocol:output-not-in-base-field', f'm={m} t={t} SecFld({q}) party {pid}: '
                                   f'outputs of types {sorted({o[0] for o in out})}', case)
                elif [o[2] for o in out] != want or (pid == 0 and one[1] != want[-1]):
                    part.violation('C39:protocol:wrong-output', f'm={m} t={t} SecFld({q}) party {pid}: '
                                   f'{[o[2] for o in out]!r:.120} != {want!r:.120}', case)
            if len(part.samples) < 1 and lifted:
                part.sample(dict(case=case, share_field_order=logs[0][1], outputs=[o[2] for o in logs[0][2]][:9]))
    finally:
        world.close()


# -- driver --------------------------------------------------------------------------------------

def jobs(tier, seed):
    js = []
    for order in ORDERS:
        for half in (0, 1):
            js.append(dict(kind='args', order=order, moduli=MODULI[half::2]))
    mmax = 7 if tier == 'quick' else 12
    for m in range(1, mmax + 1):
        js.append(dict(kind='lifting', m=m))
    js.append(dict(kind='setup', mmax=8 if tier == 'quick' else 12, tmax=4 if tier == 'quick' else 7))
    for m in range(3, (7 if tier == 'quick' else 9) + 1):
        js.append(dict(kind='types', m=m))
    for (m, t) in valid_configs(5 if tier == 'quick' else 7):
        if m > 1:
            js.append(dict(kind='protocol', m=m, t=t, qs=[2, 3, 5, 7] if tier == 'quick' else [2, 3, 5, 7, 11]))
    return js


def run_job(job):
    part = Part()
    kind = job['kind']
    if kind == 'args':
        from mpyc import sectypes
        rt = configure(None, None)
        if len(rt.parties) != 1 or rt.threshold != 0:
            raise AssertionError('1-party runtime expected')
        for modulus in job['moduli']:
            for char in CHARS:
                for ext_deg in EXT_DEGS:
                    for min_order in MIN_ORDERS:
                        for signed in SIGNED:
                            check_args(part, sectypes, job['order'], modulus, char, ext_deg, min_order, signed)
    elif kind == 'lifting':
        m = job['m']
        for t in range(0, m):
            if 2 * t < m:
                for req in LIFT_REQUESTS:
                    configure(m, t)       # fresh caches: the lifted type depends on (m, t)
                    check_lifting(part, m, t, req)
    elif kind == 'setup':
        for m in range(1, job['mmax'] + 1):
            for t in [None] + list(range(0, job['tmax'] + 1)):
                for no_prss in (False, True):
                    check_setup(part, m, t, no_prss)
        # without -M: one party, threshold 0
        rt = configure(None, None)
        part.case(key=None, nontrivial=False)
        if len(rt.parties) != 1 or rt.threshold != 0:
            part.violation('C39:setup:wrong-configuration', f'no -M: {len(rt.parties)} parties, threshold '
                           f'{rt.threshold}', dict(family='setup', m=None, t=None, no_prss=False))
    elif kind == 'types':
        m = job['m']
        for t in range(0, m):
            if 2 * t < m:
                for k in (0, 1, 2, None):
                    configure(m, t, ['-K', str(k)] if k is not None else [])
                    check_types(part, m, t, k)
    else:
        run_protocol(part, job['m'], job['t'], job['qs'])
    return part


def replay(case):
    part = Part()
    fam = case['family']
    if fam == 'args':
        from mpyc import sectypes
        configure(None, None)
        mod = case['modulus']
        if mod is not None:
            mod = tuple(mod)
        check_args(part, sectypes, case['order'], mod, case['char'], case['ext_deg'], case['min_order'], case['signed'])
    elif fam == 'lifting':
        configure(case['m'], case['t'])
        check_lifting(part, case['m'], case['t'], case['request'])
    elif fam == 'setup':
        check_setup(part, case['m'], case['t'], case['no_prss'])
    elif fam == 'types':
        k = case['K']
        configure(case['m'], case['t'], ['-K', str(k)] if k is not None else [])
        check_types(part, case['m'], case['t'], k)
    else:
        run_protocol(part, case['m'], case['t'], [case['q']])
    return part
