"""C05 -- secure floating-point arithmetic approximates float arithmetic.

SecFlt(s=4, e=4) and SecFlt(s=6, e=5): every representable value with exponent in a window (all pairs for
+ - * / and the six comparisons); SecFlt(s=8, e=5) and the default SecFlt(24, 8) on boundary alphabets that
contain 0, +-1, values with negative exponents and large magnitudes.  Oracle: the relative bounds of the
statement with u = 2^-(s-1), evaluated with exact Fractions.
"""

import itertools
from fractions import Fraction as Fr

from mc.core import Part
from mc import exact

LEVEL = 'exploration'
FRESH_PROCESS_PER_JOB = True
RULE = ('one case = (format, operation, operand tuple, configuration, mask seed); small formats: all representable values with '
        'exponent in [-3, 3] (pairs); larger formats: 13-point alphabets; comparisons are only judged outside the stated band')
ASSUMPTIONS = ['masks: seeded (two seeds); the float protocols let intermediates exceed their nominal bit length and rely on the statistical slack of the masks',
               'results whose exponent leaves the exponent type are skipped',
               'known finding region: one operand of + or - is zero and the other has a negative exponent']
MANIFEST = dict(
    level='exploration',
    technique='bounded-exhaustive enumeration of float operands on the real runtime against exact rational arithmetic and the stated relative bounds',
    text='All pairs of representable SecFlt(4,4) / SecFlt(6,5) values in an exponent window, alphabets for SecFlt(8,5) and the default SecFlt(24,8): '
         'input/output within 2u|x|, + - within 16u max(|x|,|y|), * / within 16u of the exact magnitude, comparisons exact outside the band; '
         'single party and (3,1) multi-party.', ref='DESIGN 5/C05, 6.5', note='trusted: Fraction arithmetic, randomness seam')

FORMATS = {'4.4': (4, 4), '6.5': (6, 5), '8.5': (8, 5), '24.8': (24, 8)}


def values(fmt):
    s, e = FORMATS[fmt]
    if fmt in ('4.4', '6.5'):
        vals = {Fr(0)}
        rng = range(-3, 4) if fmt == '4.4' else range(-2, 3)
        step = 1 if fmt == '4.4' else 3
        for j in rng:
            # significands have s-1 fractional bits: k / 2^(s-1) with 1/2 <= |sig| <= 1
            for k in list(range(1 << (s - 2), (1 << (s - 1)) + 1, step)) + [(1 << (s - 1))]:
                for sign in (1, -1):
                    vals.add(sign * Fr(k, 1 << (s - 1)) * Fr(2) ** j)
        return sorted(vals)
    base = [Fr(0), Fr(1), Fr(-1), Fr(1, 2), Fr(3, 4), Fr(-5, 8), Fr(1, 1024), Fr(-3, 2048), Fr(127, 64), Fr(96), Fr(-1000), Fr(11, 32), Fr(45, 64)]
    if fmt == '8.5':
        base = [v for v in base if abs(v) < 2 ** 12]
    return base


def representable(x, s):
    """Round the exact value to an s-bit significand the way the constructor does (nearest)."""
    return x


def build(mpc, formats=None):
    ops = {}
    for fmt in (formats or FORMATS):
        s, e = FORMATS[fmt]
        T = mpc.SecFlt(s=s, e=e)
        u = Fr(1, 1 << (s - 1))
        dom = values(fmt)
        emax = (1 << (e - 1)) - 2
        make = (lambda T: (lambda v: T(float(v))))(T)
        mpd = [v for v in dom if v in (Fr(0), Fr(1), Fr(-1), Fr(3, 4), Fr(-5, 8), Fr(1, 2), Fr(1, 1024), Fr(96), Fr(1, 8), Fr(-3, 8))][:6]

        def fits(x, emax=emax):
            return x == 0 or Fr(2) ** (-emax) <= abs(x) <= Fr(2) ** emax

        def rnd(x, s=s):
            """value actually held for input x: nearest s-bit significand (inputs of the small formats are exact)"""
            return x

        def rel(fn, bound, fmt=fmt, u=u, fits=fits):
            def ref(v):
                try:
                    ex = fn(*v)
                except ZeroDivisionError:
                    return None
                if not fits(ex) or not all(fits(a) for a in v):
                    return None
                return ('within', ex, bound(ex, *v) * 16 * u, v)
            return ref

        def cmp_ref(fn, u=u):
            def ref(v):
                x, y = v
                if abs(x - y) <= 16 * u * max(abs(x), abs(y)):
                    return None
                return ('exact', Fr(int(fn(x, y))), None, v)
            return ref

        def op(name, arity, fn, ref, kind=compare, fmt=fmt, make=make, dom=dom, mpd=mpd):
            o = exact.Op(arity, fn, ref, kind, make=make, domain=dom, mp_domain=mpd, maxpts=0)
            o.full = -1
            ops[f'{fmt}:{name}'] = o
        op('io', 1, lambda a: a, lambda v, u=u, fits=fits: ('within', v[0], 2 * u * abs(v[0]), v) if fits(v[0]) else None)
        # inputs that are NOT representable: still within 2u|x| after input/output
        o = exact.Op(1, lambda a: a, (lambda v, u=u: ('within', v[0], 2 * u * abs(v[0]), v)), compare, make=make,
                     domain=[Fr(1, 3), Fr(-1, 10), Fr(22, 7), Fr(-1, 1000), Fr(5, 7) * 64, Fr(1, 3) / 64], mp_domain=[Fr(1, 3), Fr(-1, 10)], maxpts=0)
        o.full = -1
        ops[f'{fmt}:io_inexact'] = o
        op('neg_abs', 1, lambda a: [-a, abs(a)], lambda v, fits=fits: ('exact_list', [-v[0], abs(v[0])]) if fits(v[0]) else None)
        op('add', 2, lambda a, b: a + b, rel(lambda x, y: x + y, lambda ex, x, y: max(abs(x), abs(y))), compare_add)
        op('sub', 2, lambda a, b: a - b, rel(lambda x, y: x - y, lambda ex, x, y: max(abs(x), abs(y))), compare_add)
        op('mul', 2, lambda a, b: a * b, rel(lambda x, y: x * y, lambda ex, x, y: abs(ex)))
        op('div', 2, lambda a, b: a / b, rel(lambda x, y: x / y, lambda ex, x, y: abs(ex)))
        op('add_pub', 1, lambda a: a + 0.75, rel(lambda x: x + Fr(3, 4), lambda ex, x: max(abs(x), Fr(3, 4))), compare_add)
        op('mul_pub', 1, lambda a: a * -3, rel(lambda x: -3 * x, lambda ex, x: abs(ex)))
        op('rdiv_pub', 1, lambda a: 1 / a, rel(lambda x: 1 / x, lambda ex, x: abs(ex)))
        for cname, cf in (('lt', lambda a, b: a < b), ('le', lambda a, b: a <= b), ('eq', lambda a, b: a == b),
                          ('ge', lambda a, b: a >= b), ('gt', lambda a, b: a > b), ('ne', lambda a, b: a != b)):
            op(cname, 2, cf, cmp_ref(cf), compare_cmp)
    return ops


def compare(got, want):
    kind = want[0]
    if kind == 'exact':
        return Fr(got) == want[1]
    if kind == 'exact_list':
        return [Fr(g) for g in got] == want[1]
    if kind == 'within':
        return abs(Fr(got) - want[1]) <= want[2]
    return False


def compare_cmp(got, want):
    """Comparisons are computed from x - y: the zero-operand region of + / - (see compare_add) applies to them too."""
    if Fr(got) == want[1]:
        return True
    v = want[3]
    others = [a for a in v if a != 0]
    if any(a == 0 for a in v) and others and all(abs(a) < Fr(1, 2) for a in others) and Fr(got) in (0, 1):
        return '!add:zero-operand-negative-exponent'
    return 'wrong'


def compare_add(got, want):
    if abs(Fr(got) - want[1]) <= want[2]:
        return True
    v = want[3]
    others = [a for a in v if a != 0] + ([Fr(3, 4)] if len(v) == 1 else [])
    if any(a == 0 for a in v) and others and all(abs(a) < Fr(1, 2) for a in others):
        # Known region (DESIGN 6.5): zero is stored with exponent 0, so the other operand's significand is shifted right by
        # |its exponent| bits before the addition.  Inside the region the result must still be right to those fewer bits.
        y = others[0]
        lost = 0
        while abs(y) * (Fr(2) ** lost) < Fr(1, 2):
            lost += 1
        if abs(Fr(got) - want[1]) <= want[2] * (Fr(2) ** (lost + 1)):
            return '!add:zero-operand-negative-exponent'
        return 'zero-operand:beyond-shifted-law'
    return 'bound'


def jobs(tier, seed):
    out = []
    names = sorted(build(exact.Dummy()))
    for fmt in FORMATS:
        mine = [n for n in names if n.startswith(fmt + ':')]
        big = [n for n in mine if n.split(':')[1] in ('add', 'sub', 'mul', 'div', 'lt', 'le', 'eq', 'ge', 'gt', 'ne')]
        small = [n for n in mine if n not in big]
        for n in big:
            if tier == 'quick' and fmt == '6.5' and n.split(':')[1] in ('le', 'ge', 'ne', 'gt'):
                continue
            out.append(dict(engine='sp', k=30, ops=[n], tier=tier, seed=seed))
        out.append(dict(engine='sp', k=30, ops=small, tier=tier, seed=seed))
    for no_prss in (False, True):
        for part in range(4):
            out.append(dict(engine='mp', m=3, t=1, no_prss=no_prss, part=part, parts=4, tier=tier, seed=seed))
    return out


def build_mp(mpc):
    ops = build(mpc, ['4.4', '24.8'])
    return {n: o for n, o in ops.items() if n.split(':')[1] in ('io', 'add', 'mul', 'div', 'lt', 'eq')}


def run_job(job):
    if job['engine'] == 'sp':
        return exact.run_sp('C05', job, build)
    return exact.run_mp('C05', dict(job, k=30), build_mp, batch=6, patterns=('seeded',))


def replay(case):
    if case.get('engine') == 'sp':
        import re

        def parse(v):
            m_ = re.fullmatch(r'Fraction\((-?\d+), (\d+)\)', v) if isinstance(v, str) else None
            return Fr(int(m_.group(1)), int(m_.group(2))) if m_ else v
        return exact.replay_sp('C05', dict(case, vals=[parse(v) for v in case['vals']]), build)
    return run_job(case['job'])
