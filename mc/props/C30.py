"""C30 -- bit-level oblivious building blocks are correct for all inputs.

Code under test (mpyc/runtime.py): add_bits, to_bits, from_bits, find, indexOf, unit_vector, trailing_zeros, gcp2
(and seclist.find / seclist.index built on them).
 * table : exact.Op tables, single party, synchronous, every mask script of mc/sp.py (complete mask product for the
           unary masked-opening protocols to_bits / trailing_zeros on SecInt(4); thorough: also for SecFxp(6,3)): all
           values of SecInt(4), SecFxp(6,3) (integral flag as constructed, and cleared), GF(11), GF(16), GF(2) for every l;
           all pairs for gcp2; all 0 <= a <= n <= 9 for unit_vector on four types; find with bits=False on all vectors over
           {-3,0,1,2} (n <= 3 (4)); find with bits=True in every parameter form on all bit vectors n <= 3;
 * mixed : the same masked operations under the two mixed extreme patterns (all random bits 1 with all statistical masks 0,
           and the converse), which the one-sided patterns do not contain;
 * sweep : seeded, single party: add_bits on all pairs of bit vectors of equal length <= 5 (thorough 7); find on all bit
           vectors of length <= 6 (thorough 8) x a in {0, 1, secure 0, secure 1} x e x f / cs_f forms; from_bits on
           all bit vectors of length <= 6 (thorough 8);
 * direct: indexOf / seclist.index (value or ValueError), unit_vector's ValueError, from_bits([]);
 * mp    : reduced alphabets on real multi-party executions (quick: (2,0) PRSS, (3,1) PRSS on and off, (5,2) no PRSS; thorough: all six).
Oracle: Python integer arithmetic on the plain bits / values, written out below from the docstrings.
"""

import itertools

from mc.core import Part, stable_hash
from mc import exact
from mc.ref import vecsweep

LEVEL = 'exploration'
FRESH_PROCESS_PER_JOB = True
RULE = ('one case = (function and call form, input, configuration, mask script); table: all type values x l x all mask scripts '
        '(full mask product for to_bits/trailing_zeros on SecInt(4)) + the two mixed extreme patterns, all value pairs for gcp2, all '
        '0 <= a <= n <= 9 for unit_vector, find(bits=False) on all vectors over {-3,0,1,2} with n <= 3 (4) x searched value, find(bits=True) on '
        'all bit vectors n <= 3 x a x e x f-form; sweep: all pairs of equal-length bit vectors '
        '(n <= 5 (7)) for add_bits, all bit vectors n <= 6 (8) x a x e x f-form for find, n <= 6 (8) for from_bits; mp: reduced alphabets '
        'x (m,t,PRSS) x mask patterns; non-trivial = some random draw or several parties (find/add_bits on one party draw nothing)')
ASSUMPTIONS = ['from_bits is specified for non-negative numbers only (TODO in the code): vectors whose value does not fit the non-negative '
               'range of the type (or the field order) are skipped',
               'find with e=None: the index part is unspecified when nf = 1 and is not compared',
               'trailing_zeros: bits are compared up to and including the least significant 1 (all l bits if there is none)',
               'gcp2(0, 0) is unspecified (TODO in the code) and skipped; with l given, a 1 must occur among the l low bits of a or b',
               'to_bits on secure fixed-point numbers yields the bits of the scaled integer a * 2^f (two\'s complement)',
               'excluded event: blinding factor 0 in is_zero_public (forced non-zero by the seam)',
               'to_bits on GF(p) converts to SecInt(1 + bit_length), which has no room for the C(m,t) (or t+1) conversion masks: with several parties '
               'the result is right only while the statistical mask of _mod is not tiny (probability about M/2^k, the event named in C06); those '
               'operations run with k = 20 and without the all-zero mask pattern in the multi-party engine',
               'multi-party runs use the default eager schedule']
MANIFEST = dict(
    level='exploration',
    technique='bounded-exhaustive enumeration of bit vectors, type values and protocol masks on the real runtime against Python integer/bit arithmetic',
    text='add_bits on all pairs of equal-length bit vectors (n <= 5, thorough 7; secure and public second operand): sum modulo 2^n, low to high; '
         'to_bits for every value of SecInt(4), SecFxp(6,3), GF(11), GF(16), GF(2) and every l (two\'s complement low bits), from_bits(to_bits(a)) = a '
         'for a >= 0 and from_bits on all bit vectors (n <= 6); find on all bit vectors n <= 6 (8) x a in {0,1,secure 0,secure 1} x e in '
         '{default,-1,None,"len(x)-1",3} x {plain, f, tuple/list f, cs_f, tuple cs_f, f+cs_f} and bits=False on small value vectors: first index, '
         'e when absent, (nf, f(ix)) raw form; indexOf incl. its ValueError; unit_vector for all 0 <= a <= n <= 9 on four types; trailing_zeros '
         'for all values and l (prefix up to the lowest 1); gcp2 for all pairs. Masked protocols with the full mask product / mask scripts, then '
         'real multi-party executions (2,0), (3,1), (5,2) (thorough: each with PRSS on and off).',
    ref='DESIGN 5/C30', note='trusted: randomness seam, world model')

K = 3


def bits_of(v, l):
    """l low bits of integer v in two's complement, low to high."""
    return [(v >> i) & 1 for i in range(l)]


def plain(g):
    """Opened value -> number (finite-field elements -> their integer code)."""
    if isinstance(g, (int, float)):
        return g
    return int(g)


def chk_list(got, want):
    return isinstance(got, list) and len(got) == len(want) and all(plain(g) == w for g, w in zip(got, want))


def chk_bits_signed(got, want):
    """want = (a, bits): failure class tells the sign of a."""
    a, bits = want
    return True if chk_list(got, bits) else ('a<0' if a < 0 else 'a>=0')


def chk_scalar(got, want):
    return not isinstance(got, list) and plain(got) == want


def chk_tz(got, want):
    """want = (a, l): bits up to and including the least significant 1 of a (all l bits if there is none)."""
    a, l = want
    if not isinstance(got, list) or len(got) != l:
        return 'wrong-length'
    exp = bits_of(a, l)
    upto = exp.index(1) + 1 if 1 in exp else l
    return [plain(g) for g in got[:upto]] == exp[:upto]


def chk_unit(got, want):
    a, n = want
    exp = [int(i == a % n) for i in range(n)]          # a = n: documented to give [1] + [0]*(n-1)
    if isinstance(got, list) and [plain(g) for g in got] == exp:
        return True
    return 'a=n' if a == n else False


def chk_find(got, want):
    """want = (raw, nf, ys or None, container): got = [nf] + ys + [container code] for e=None, else ys + [container code];
    container code of the returned f-value: 0 single number, 1 tuple, 2 list (mirrors what f / cs_f returns; None: not demanded)."""
    raw, nf, ys, cont = want
    if not isinstance(got, list) or not got:
        return False
    got = [plain(g) for g in got]
    got, code = got[:-1], got[-1]
    if raw:
        if not got or got[0] != nf:
            return 'nf'
        if nf == 0 and got[1:] != ys:
            return False
    elif got != ys:
        return False
    return True if cont is None or code == cont else 'container-type'


# ------------------------------------------------------------------------------------------
# find: parameter forms
# ------------------------------------------------------------------------------------------

E_FORMS = {'default': 'default', '-1': -1, 'None': None, 'len(x)-1': 'len(x)-1', '3': 3}
F_FORMS = {
    # name: (kwargs for find, plain f returning a list)
    'plain': (dict(), lambda i: [i]),
    'f': (dict(f=lambda i: 3 * i + 1), lambda i: [3 * i + 1]),
    'f_tuple': (dict(f=lambda i: (i, 2 ** i)), lambda i: [i, 2 ** i]),
    'f_list': (dict(f=lambda i: [i * i, 7 - i]), lambda i: [i * i, 7 - i]),
    'cs_f': (dict(cs_f=lambda b, i: (b + 1) << i), lambda i: [2 ** i]),
    'cs_f_tuple': (dict(cs_f=lambda b, i: (i + b, (b + 1) << i)), lambda i: [i, 2 ** i]),
    'cs_f_list': (dict(cs_f=lambda b, i: [5 * (i + b)]), lambda i: [5 * i]),
    # (giving BOTH f and cs_f is not a documented use: 'function cs_f can be set instead of specifying function f')
}
POW_FORMS = ('f_tuple', 'cs_f', 'cs_f_tuple')      # f(-1) = 2^-1 is no integer: not combined with e=-1
A_KINDS = ('0', '1', 's0', 's1')


def find_ref(e_name, form, x, a):
    n = len(x)
    e = E_FORMS[e_name]
    pf = F_FORMS[form][1]
    ix = next((i for i, b in enumerate(x) if b == a), None)
    cont = None if form == 'f+cs_f' else 1 if form.endswith('tuple') else 2 if form.endswith('list') else 0
    if e is None:
        return (True, int(ix is None), pf(ix) if ix is not None else None, cont)
    E = n if e == 'default' else n - 1 if e == 'len(x)-1' else e
    if E < 0 and form in POW_FORMS:
        return None               # f(-1) = 2^-1 is no integer
    return (False, 0, pf(ix if ix is not None else E), cont)


def find_combos():
    for e_name in E_FORMS:
        for form in F_FORMS:
            if e_name == '-1' and form in POW_FORMS:
                continue
            if form == 'f+cs_f' and e_name != 'default':
                continue
            yield e_name, form


def flatten(r):
    if isinstance(r, (list, tuple)):
        return [c for a in r for c in flatten(a)]
    return [r]


# ------------------------------------------------------------------------------------------
# operation table
# ------------------------------------------------------------------------------------------

def bitvecs(nmin, nmax):
    return [v for n in range(nmin, nmax + 1) for v in itertools.product((0, 1), repeat=n)]


MP_BITVECS = [(1,), (0,), (0, 1), (1, 1), (0, 0, 1), (0, 0, 0), (1, 0, 1, 1), (0, 0, 0, 0, 1), (0, 1, 0, 0, 0, 0), (0, 0, 0, 0, 0, 0, 1)]
NBV = (-3, 0, 1, 2)       # find(bits=False): values
NB_A = (('p', 1), ('s', 2), ('s', -3), ('p', 5), ('s', 0))      # (public / secure, searched value)


def build(mpc, tier='quick'):
    thorough = tier == 'thorough'
    T = mpc.SecInt(4)
    T5 = mpc.SecInt(5)
    T12 = mpc.SecInt(12)
    F = mpc.SecFxp(6, 3)
    F83 = mpc.SecFxp(8, 3)
    P = mpc.SecFld(11)
    B = mpc.SecFld(16)
    G2 = mpc.SecFld(2)
    ops = {}

    def shared(x):
        if len(mpc.parties) > 1 and x:
            if getattr(type(x[0]), 'frac_length', 0):
                return [mpc.input(a, senders=0) for a in x]     # a list input would take the integral flag of x[0] for all (C03)
            return mpc.input(x, senders=0)
        return x

    def secure(r, S):
        """Results that the code under test returns as public Python ints (empty-list cases) are wrapped for opening."""
        return [v if isinstance(v, mpc.SecureObject) else S(v) for v in flatten(r)]

    def tagged(r, raw, S):
        """find's result, flattened, followed by the container code of the f-value."""
        y = r[1] if raw and isinstance(r, tuple) and len(r) == 2 else r
        code = 1 if isinstance(y, tuple) else 2 if isinstance(y, list) else 0
        return secure(r, S) + [S(code)]

    def fxp(v, integral=None):
        a = F(v / 8) if v % 8 else F(v // 8)
        if integral is not None:
            a.integral = integral
        return a

    def fld(S):
        return lambda c: S(c)

    dom4 = list(range(-8, 8))
    domF = list(range(-32, 32))

    # -- to_bits / from_bits ------------------------------------------------------------------
    def op1(name, fn, ref, kind, make, dom, mpd, full=0, maxpts=None):
        ops[name] = exact.Op(1, fn, ref, kind, make=make, domain=dom, mp_domain=mpd, full=full, maxpts=maxpts)

    for l in (None, 0, 1, 2, 3, 4):
        L = 4 if l is None else l
        op1(f'to_bits:int:l={l}', (lambda a, l=l: mpc.to_bits(a, l)) if l is not None else (lambda a: mpc.to_bits(a)),
            lambda v, L=L: (v[0], bits_of(v[0], L)), chk_bits_signed, T, dom4, [-8, -3, 0, 5, 7] if l in (None, 2) else [], full=256)
        op1(f'trailing_zeros:l={l}', (lambda a, l=l: mpc.trailing_zeros(a, l)) if l is not None else (lambda a: mpc.trailing_zeros(a)),
            lambda v, L=L: (v[0], L), chk_tz, T, dom4, [-8, -2, 0, 3, 4, 7] if l in (None, 3) else [], full=256)
    for flag, fname in ((None, 'fxp'), (False, 'fxp_flag_cleared')):
        mkf = lambda v, flag=flag: fxp(v, flag)
        for l in (None, 0, 2, 3, 4, 6):
            L = 6 if l is None else l
            op1(f'to_bits:{fname}:l={l}', (lambda a, l=l: mpc.to_bits(a, l)) if l is not None else (lambda a: mpc.to_bits(a)),
                lambda v, L=L: (v[0], bits_of(v[0], L)), chk_bits_signed, mkf, domF,
                [-32, -8, -1, 0, 12, 16, 31] if l in (None, 4) and flag is None else [], maxpts=4, full=512 if thorough and L == 6 else 0)
    # l beyond bit_length (the assert in to_bits admits l <= bit_length + frac_length): integral-flagged numbers (as used by unit_vector) ...
    for l in (7, 9):
        op1(f'to_bits:fxp_integral:l={l}>bit_length', lambda a, l=l: mpc.to_bits(a, l), lambda v, l=l: (v[0], bits_of(v[0], l)) if v[0] % 8 == 0 else None,
            chk_bits_signed, lambda v: fxp(v), domF, [-32, -8, 0, 16] if l == 9 else [], maxpts=4)
        # ... and numbers without the flag
        op1(f'to_bits:fxp_nonintegral:l={l}>bit_length', lambda a, l=l: mpc.to_bits(a, l), lambda v, l=l: bits_of(v[0], l),
            chk_list, lambda v: fxp(v, False), domF, [-1, 1] if l == 9 else [], maxpts=4)
    for S, sname, q, nb in ((P, 'fld11', 11, 4), (B, 'fld16', 16, 4), (G2, 'fld2', 2, 1)):
        for l in (None,) + tuple(range(0, nb + 1)):
            L = nb if l is None else l
            op1(f'to_bits:{sname}:l={l}', (lambda a, l=l: mpc.to_bits(a, l)) if l is not None else (lambda a: mpc.to_bits(a)),
                lambda v, L=L: bits_of(v[0], L), chk_list, fld(S), list(range(q)),
                [0, 1, q // 2, q - 1] if (l in (None, 2) and q > 2) else [], maxpts=4)
        op1(f'from_to_bits:{sname}', lambda a: mpc.from_bits(mpc.to_bits(a)), lambda v: v[0], chk_scalar, fld(S), list(range(q)),
            [0, q - 1] if q > 2 else [], maxpts=2)
    op1('from_to_bits:int', lambda a: mpc.from_bits(mpc.to_bits(a)), lambda v: v[0] if v[0] >= 0 else None, chk_scalar, T, dom4, [0, 5, 7], maxpts=4)

    def mkbits(S):
        return lambda vec: shared([S(b) for b in vec])

    def from_bits_op(name, S, limit):
        def ref(v):
            s = sum(b << i for i, b in enumerate(v[0]))
            return s if s < limit else None
        op1(name, lambda x: secure(mpc.from_bits(x), S)[0], ref, chk_scalar, mkbits(S), bitvecs(0, 4),
            [(1,), (0, 1), (1, 1, 1), (0, 0, 0), (1, 0, 1, 0, 0)])
    from_bits_op('from_bits:int', T, 8)
    from_bits_op('from_bits:fld11', P, 11)
    from_bits_op('from_bits:fld16', B, 16)
    from_bits_op('from_bits:fxp', F, 4)
    from_bits_op('from_bits:int12', T12, 2048)

    # -- add_bits: input = (x bits, y bits) -------------------------------------------------------
    def addref(v):
        x, y = v[0]
        n = len(x)
        s = sum(b << i for i, b in enumerate(x)) + sum(b << i for i, b in enumerate(y))
        return bits_of(s, n)

    def pairs(nmax):
        return [(x, y) for n in range(0, nmax + 1) for x in itertools.product((0, 1), repeat=n) for y in itertools.product((0, 1), repeat=n)]
    mp_pairs = pairs(2) + [((1, 1, 1), (1, 0, 0)), ((1, 1, 0, 1, 1), (1, 0, 1, 0, 1)), ((1, 1, 1, 1, 1, 1), (1, 0, 0, 0, 0, 0)), ((0, 1, 1, 1, 1, 1, 1), (0, 1, 0, 0, 0, 0, 0))]

    def mkpair(S, public_y=False):
        def make(v):
            x, y = v
            if public_y:
                return (shared([S(b) for b in x]), list(y))
            z = shared([S(b) for b in x] + [S(b) for b in y])
            return (z[:len(x)], z[len(x):])
        return make
    op1('add_bits', lambda p: mpc.add_bits(p[0], p[1]), addref, chk_list, mkpair(T), pairs(3), mp_pairs[1:])
    op1('add_bits:public_y', lambda p: mpc.add_bits(p[0], p[1]), addref, chk_list, mkpair(T, True), pairs(3), mp_pairs[1:])
    op1('add_bits:fxp', lambda p: mpc.add_bits(p[0], p[1]), addref, chk_list, mkpair(F), pairs(3), mp_pairs[1:8])
    op1('add_bits:fld11', lambda p: mpc.add_bits(p[0], p[1]), addref, chk_list, mkpair(P), pairs(3), mp_pairs[1:8])

    # -- find, bits=True: input = (kind of a, x0, x1, ...) ------------------------------------------
    def mkfind(S):
        def make(v):
            ak, x = v[0], list(v[1:])
            if ak in ('0', '1'):
                return (int(ak), shared([S(b) for b in x]))
            z = shared([S(int(ak[1]))] + [S(b) for b in x])
            return (z[0], z[1:])
        return make

    def find_dom(nmin, nmax):
        return [(ak,) + x for x in bitvecs(nmin, nmax) for ak in A_KINDS]
    mp_find = [(ak,) + x for ak in ('1', 's0') for x in MP_BITVECS]
    for e_name, form in find_combos():
        kw = dict(F_FORMS[form][0])
        if e_name != 'default':
            kw['e'] = E_FORMS[e_name]
        op1(f'find:e={e_name}:{form}', lambda p, kw=kw, raw=(e_name == 'None'): tagged(mpc.find(p[1], p[0], **kw), raw, T12),
            lambda v, e_name=e_name, form=form: find_ref(e_name, form, v[0][1:], int(v[0][0][-1])), chk_find, mkfind(T12),
            find_dom(1, 3), mp_find if (e_name in ('default', 'None') or form == 'plain') else [])
    # the empty list (handled by an explicit branch of find): default form and raw form at once
    op1('find:empty_x', lambda p: secure(mpc.find(p[1], p[0]), T12) + secure(mpc.find(p[1], p[0], e=None), T12)
        + secure(mpc.find(p[1], p[0], e=-1, f=lambda i: 3 * i + 1), T12),
        lambda v: [0, 1, 0, -2], lambda got, want: isinstance(got, list) and [plain(g) for g in got[:2]] + [plain(got[-1])] == [0, 1, -2],
        mkfind(T12), find_dom(0, 0), [])
    # other secure types: default form and raw form (GF(16): public and secure a apart)
    for S, sname, aks in ((F83, 'fxp', A_KINDS), (P, 'fld11', A_KINDS), (B, 'fld16:a=public', A_KINDS[:2]), (B, 'fld16:a=secure', A_KINDS[2:])):
        for e_name in ('default', 'None', '-1'):
            kw = {} if e_name == 'default' else dict(e=E_FORMS[e_name])
            if sname != 'fxp' and e_name == '-1':
                continue
            op1(f'find:{sname}:e={e_name}', lambda p, kw=kw, S=S, raw=(e_name == 'None'): tagged(mpc.find(p[1], p[0], **kw), raw, S),
                lambda v, e_name=e_name: find_ref(e_name, 'plain', v[0][1:], int(v[0][0][-1])), chk_find, mkfind(S),
                [d for d in find_dom(1, 4) if d[0] in aks], [d for d in mp_find[:8] if d[0] in aks])
    # -- find, bits=False: input = ((p|s, a), x0, x1, ...) ----------------------------------------------
    def mkfind_nb(S):
        def make(v):
            (pk, a), x = v[0], list(v[1:])
            if pk == 'p':
                return (a, shared([S(b) for b in x]))
            z = shared([S(a)] + [S(b) for b in x])
            return (z[0], z[1:])
        return make
    nb_dom = [(ak,) + x for n in range(1, 5 if thorough else 4) for x in itertools.product(NBV, repeat=n) for ak in NB_A]
    nb_dom += [(ak, 0, 0, 1, 2, 1, -3, 2) for ak in NB_A]
    mp_nb = [(ak,) + x for ak in NB_A[:4] for x in ((2,), (1, 2), (0, -3, 2, -3), (2, 1, 1, 2, 0))]
    for e_name in ('default', '-1', 'None'):
        for form in ('plain', 'f'):
            kw = dict(F_FORMS[form][0], bits=False)
            if e_name != 'default':
                kw['e'] = E_FORMS[e_name]
            op1(f'find:bits=False:e={e_name}:{form}', lambda p, kw=kw, raw=(e_name == 'None'): tagged(mpc.find(p[1], p[0], **kw), raw, T12),
                lambda v, e_name=e_name, form=form: find_ref(e_name, form, v[0][1:], v[0][0][1]), chk_find, mkfind_nb(T12),
                nb_dom, mp_nb if form == 'plain' else [], maxpts=2)
    op1('seclist.find', lambda p: mpc.seclist(p[1], T12).find(p[0]), lambda v: find_ref('-1', 'plain', v[0][1:], v[0][0][1])[2][0],
        chk_scalar, mkfind_nb(T12), nb_dom, mp_nb[:4], maxpts=2)

    # -- unit_vector: input = (a, n) --------------------------------------------------------------------
    uv_dom = [(a, n) for n in range(1, 10) for a in range(0, n + 1)]
    mp_uv = [(0, 1), (1, 2), (2, 2), (2, 3), (0, 5), (4, 5), (5, 5), (7, 8), (8, 8), (8, 9), (3, 9)]
    for S, sname in ((T5, 'int'), (F83, 'fxp'), (P, 'fld11'), (B, 'fld16')):
        op1(f'unit_vector:{sname}', lambda p: mpc.unit_vector(p[0], p[1]), lambda v: v[0], chk_unit,
            lambda v, S=S: (shared([S(v[0])])[0], v[1]), uv_dom, mp_uv if sname in ('int', 'fld11') else mp_uv[3:7], maxpts=3)

    # -- gcp2: all pairs -------------------------------------------------------------------------------
    def tz(v):
        return (v & -v).bit_length() - 1 if v else 99

    def g2(name, fn, ref):
        ops[name] = exact.Op(2, fn, ref, chk_scalar, make=T, domain=dom4, mp_domain=[-8, -2, 0, 3, 4, 6], maxpts=10 if thorough else 5)
    g2('gcp2', lambda a, b: mpc.gcp2(a, b), lambda v: 1 << min(tz(v[0]), tz(v[1])) if v != (0, 0) else None)
    g2('gcp2:l=4', lambda a, b: mpc.gcp2(a, b, l=4), lambda v: 1 << min(tz(v[0]), tz(v[1])) if v != (0, 0) else None)
    g2('gcp2:l=3', lambda a, b: mpc.gcp2(a, b, l=3), lambda v: 1 << min(tz(v[0]), tz(v[1])) if min(tz(v[0]), tz(v[1])) < 3 else None)
    return ops


MP_CORE = ('to_bits:int:l=None', 'to_bits:int:l=2', 'to_bits:fxp:l=None', 'to_bits:fld11:l=None', 'to_bits:fld16:l=None', 'trailing_zeros:l=None',
           'trailing_zeros:l=3', 'gcp2', 'unit_vector:int', 'unit_vector:fld11', 'add_bits', 'add_bits:public_y', 'find:e=default:plain', 'find:e=None:cs_f',
           'find:bits=False:e=default:plain', 'from_to_bits:int', 'from_bits:int')
FIND_SWEEP = [f'find:e={e}:{f}' for e, f in find_combos()]
ADD_SWEEP = ['add_bits', 'add_bits:public_y']


def sweep_domain(kind, n):
    if kind == 'find':
        return ((ak,) + x for x in itertools.product((0, 1), repeat=n) for ak in A_KINDS)
    if kind == 'addpairs':
        return ((x, y) for x in itertools.product((0, 1), repeat=n) for y in itertools.product((0, 1), repeat=n))
    if kind == 'bits':
        return itertools.product((0, 1), repeat=n)
    raise ValueError(kind)


def sweep_size(kind, n):
    return {'find': 4 * 2 ** n, 'addpairs': 4 ** n, 'bits': 2 ** n}[kind]


def jobs(tier, seed):
    out = []
    thorough = tier == 'thorough'
    tasks = []
    tasks += vecsweep.tasks_for(FIND_SWEEP, 'find', range(4, 9 if thorough else 7), sweep_size, cost=0.12, small=0)
    tasks += vecsweep.tasks_for(['find:fxp:e=default', 'find:fxp:e=None', 'find:fld11:e=None'], 'find',
                                range(5, 8 if thorough else 7), sweep_size, cost=0.12, small=0)
    tasks += vecsweep.tasks_for(ADD_SWEEP, 'addpairs', range(4, 8 if thorough else 6), sweep_size, cost=0.15, small=0)
    tasks += vecsweep.tasks_for(['add_bits:fxp', 'add_bits:fld11'], 'addpairs', range(4, 6 if thorough else 5), sweep_size, cost=0.15, small=0)
    tasks += vecsweep.tasks_for(['from_bits:int', 'from_bits:fld11', 'from_bits:fld16', 'from_bits:fxp', 'from_bits:int12'], 'bits',
                                range(5, 9 if thorough else 7), sweep_size, cost=0.05, small=0)
    out += vecsweep.pack(tasks, 9000, tier, seed)
    names = sorted(build(exact.Dummy(), tier))
    ng = 24 if thorough else 12
    for i in range(ng):
        out.append(dict(engine='sp', k=K, ops=names[i::ng], tier=tier, seed=seed, w=10 ** 6))
    masked = [n for n in names if n.startswith(('to_bits', 'trailing_zeros', 'gcp2', 'unit_vector', 'from_to_bits', 'find:bits=False', 'seclist'))]
    nm = 6 if thorough else 3
    for i in range(nm):
        out.append(dict(engine='mixed', k=K, ops=masked[i::nm], tier=tier, seed=seed, w=10 ** 5))
    out.append(dict(engine='direct', tier=tier, seed=seed, w=10 ** 4))
    if thorough:
        cfgs = [(2, 0, False), (2, 0, True), (3, 1, False), (3, 1, True), (5, 2, False), (5, 2, True)]
    else:
        cfgs = [(2, 0, False), (3, 1, False), (3, 1, True), (5, 2, True)]
    for m, t, no_prss in cfgs:
        parts = (4 if m <= 3 else 10) if thorough else (2 if m <= 3 else 4)
        for p in range(parts):
            out.append(dict(engine='mp', grp='A', m=m, t=t, no_prss=no_prss, part=p, parts=parts, tier=tier, seed=seed, w=10 ** 7 * m))
        if thorough or (m, t, no_prss) in ((3, 1, False), (5, 2, True)):
            # bit decomposition of GF(p) elements goes through convert(): see ASSUMPTIONS
            out.append(dict(engine='mp', grp='B', k=20, m=m, t=t, no_prss=no_prss, part=0, parts=1, tier=tier, seed=seed, w=10 ** 7 * m))
    out.sort(key=lambda j: -j['w'])
    return out


def run_job(job):
    bld = lambda mpc: build(mpc, job['tier'])
    if job['engine'] == 'sp':
        return exact.run_sp('C30', job, bld)
    if job['engine'] == 'sweep':
        return vecsweep.run_sweep('C30', job, bld, K, sweep_domain, sweep_size, small=0)
    if job['engine'] == 'direct':
        return run_direct(job)
    if job['engine'] == 'mixed':
        return run_mixed(job)
    allnames = sorted(build(exact.Dummy(), job['tier']))
    if job.get('grp', 'A') == 'B':
        names = [n for n in allnames if via_convert(n)]
        pats = ('seeded', 'max')
    else:
        names = [n for n in allnames if not via_convert(n)]
        pats = ('seeded', 'zero', 'max') if job['tier'] == 'thorough' else ('seeded', 'max')
    if job['tier'] == 'quick' and job['m'] >= 5:
        names = [n for n in names if n in MP_CORE]
    return exact.run_mp('C30', job, bld, batch=16, patterns=pats, names=names)


def via_convert(name):
    return 'fld11' in name and name.startswith(('to_bits', 'unit_vector', 'from_to_bits'))


def run_mixed(job):
    """Mixed extreme mask patterns, which the one-extreme patterns of mc/sp.py do not contain: every random bit 1 with every
    statistical mask 0, and every random bit 0 with every mask at its maximum (e.g. r_modl maximal while r_divl = 0)."""
    from mc import sp
    part = Part()
    k = job['k']
    mpc, seam = sp.setup(sec_param=k, no_prss=True)
    ops = build(mpc, job['tier'])
    cfg = f'sp/k{k}'
    for name in job['ops']:
        op = ops[name]
        for vals in itertools.product(op.domain, repeat=op.arity):
            want = op.ref(vals)
            if want is None:
                continue
            try:
                _, draws = exact.eval_sp(mpc, seam, op, vals, 'seeded', None, job['seed'])
            except Exception:
                continue                        # reported by the table engine
            for tag, bitval, maskmax in (('bits=1,masks=0', 1, False), ('bits=0,masks=max', 0, True)):
                script = {}
                for i, (kind, n, v) in enumerate(draws[:sp.ScriptSecrets.PATTERN_LIMIT]):
                    if n == 2:
                        script[i] = bitval
                    elif sp.ScriptSecrets.is_mask(kind, n):
                        script[i] = n - 1 if maskmax else 0
                try:
                    got, d2 = exact.eval_sp(mpc, seam, op, vals, 'seeded', script, job['seed'])
                except Exception as exc:
                    part.case(key=None)
                    part.violation(f'C30:{name}:exception', f'[{cfg}] {name}{tuple(vals)} raised {exc!r} (masks: {tag})',
                                   dict(engine='sp', name=name, vals=vecsweep.exact_jsonable(vals), mode='seeded',
                                        script={str(a): b for a, b in script.items()}, k=k, seed=job['seed'], cfg=cfg, tier=job['tier']))
                    continue
                exact.judge_sp(part, 'C30', name, cfg, vals, 'seeded', script, got, want, op.kind, d2, job)
    return part


def run_direct(job):
    """indexOf (result or ValueError), documented ValueError of unit_vector, empty inputs."""
    from mc import sp
    part = Part()
    mpc, seam = sp.setup(sec_param=K, no_prss=True)
    T = mpc.SecInt(4)
    F = mpc.SecFxp(6, 3)
    cases = [(False, x, a) for n in range(0, 4) for x in itertools.product((0, 1, 2), repeat=n) for a in (0, 1, 2)]
    cases += [(True, x, a) for n in range(0, 5) for x in itertools.product((0, 1), repeat=n) for a in (0, 1)]
    for bits, x, a in cases:
        for sa in (False, True):
            seam.begin('seeded', job['seed'] + (stable_hash((bits, x, a, sa)) & 0xffff), None)
            want = x.index(a) if a in x else None
            site = 'indexOf:bits=True' if bits else 'indexOf'
            part.case(key=None, nontrivial=True)
            try:
                got = sp.opened(mpc, mpc.indexOf([T(b) for b in x], T(a) if sa else a, bits=bits))
            except ValueError:
                got = None
            except Exception as exc:
                part.violation(f'C30:{site}:exception', f'indexOf({list(x)}, {a}, bits={bits}) raised {exc!r}', dict(engine='direct'))
                continue
            part.outcomes.add(('indexOf', got))
            if got != want:
                part.violation(f'C30:{site}' + (':absent-no-error' if want is None else ''),
                               f'indexOf({list(x)}, {"secure " if sa else ""}{a}, bits={bits}) = {got!r}, expected {want if want is not None else "ValueError"!r}',
                               dict(engine='direct'))
    # seclist.index is indexOf
    s = mpc.seclist([T(2), T(0), T(2)])
    seam.begin('seeded', job['seed'], None)
    part.case(key=('seclist.index',), nontrivial=True)
    if sp.opened(mpc, s.index(T(0))) != 1:
        part.violation('C30:seclist.index', 'seclist([2,0,2]).index(0) != 1', dict(engine='direct'))
    # unit_vector on a fixed-point number that is not flagged integral: ValueError (documented in the code)
    for v in (0.5, 1.0):
        a = F(v)
        a.integral = False
        part.case(key=('uv-nonintegral', v), nontrivial=True)
        try:
            mpc.unit_vector(a, 3)
            part.violation('C30:unit_vector:fxp:nonintegral-no-error', f'unit_vector(fxp {v} not flagged integral, 3) did not raise ValueError', dict(engine='direct'))
        except ValueError:
            part.outcomes.add('uv-ValueError')
    # from_bits([]) is the public number 0
    part.case(key=('from_bits-empty',), nontrivial=True)
    r = mpc.from_bits([])
    r = r.result() if hasattr(r, 'result') else r
    if r != 0:
        part.violation('C30:from_bits:empty', f'from_bits([]) = {r!r}', dict(engine='direct'))
    return part


def replay(case):
    if case.get('engine') == 'sp':
        case = dict(case, vals=[vecsweep.retuple(v) for v in case['vals']])
        return exact.replay_sp('C30', case, lambda mpc: build(mpc, case.get('tier', 'thorough')))
    if case.get('engine') == 'mp':
        return run_job(case['job'])
    return run_direct(dict(seed=0, tier='quick'))
