"""Generic engines for the exactness properties of the secure types (C01, C02, C04, C05, C06, ...).

A property driver supplies an *operation table*:

    build(mpc) -> dict name -> Op(arity, fn(*secure_args), ref(plain_tuple) -> expected | None, kind,
                                  make(mpc) -> callable turning a plain value into a secure input,
                                  domain (list of plain input values), mp_domain (smaller alphabet))

and the engines do the rest:
 * sp : 1 party, synchronous, --no-prss; all input tuples x mask scripts (see mc/sp.py);
 * mp : m real parties in the virtual world (default eager schedule), input alphabet x mask
        patterns (seeded / all-zero / all-max; for PRSS every subset at its extreme at once).
`kind` selects the comparison: 'value' (==), 'public' (truthiness), or a callable(got, want) -> bool.
"""

import math
import itertools

from mc.core import Part, stable_hash


class Op:
    __slots__ = ('arity', 'fn', 'ref', 'kind', 'make', 'domain', 'mp_domain', 'full', 'maxpts')

    def __init__(self, arity, fn, ref, kind='value', make=None, domain=None, mp_domain=None, full=0, maxpts=None):
        self.arity, self.fn, self.ref, self.kind = arity, fn, ref, kind
        self.make, self.domain, self.mp_domain, self.full, self.maxpts = make, domain, mp_domain, full, maxpts


class Dummy:
    """Stands in for mpc when only names / references of an operation table are needed."""

    def __getattr__(self, n):
        return Dummy()

    def __call__(self, *a, **k):
        return Dummy()


def check_result(kind, got, want):
    if callable(kind):
        return kind(got, want)
    if kind == 'public':
        return bool(got) == bool(want)
    return got == want


def _vkey(pid, name, res):
    """Violation key: '<pid>:<op name>[:<failure class>]'; a failure class starting with '!' replaces the op name
    (used for known-finding regions that span several formats/types)."""
    if isinstance(res, str):
        return f'{pid}:{res[1:]}' if res.startswith('!') else f'{pid}:{name}:{res}'
    return f'{pid}:{name}'


def _open(mpc, r, kind):
    from mc import sp
    if kind == 'public':
        return r.result() if hasattr(r, 'result') else r
    return sp.opened(mpc, r)


def eval_sp(mpc, seam, op, vals, mode, script, seed):
    seam.begin('seeded' if mode == 'seeded2' else mode, seed + (1 if mode == 'seeded2' else 0), script)
    args = [op.make(v) for v in vals]
    r = op.fn(*args)
    return _open(mpc, r, op.kind), list(seam.log)


def run_sp(pid, job, build, cfgname=None):
    """job: dict(k=sec_param, ops=[names], tier, seed)."""
    from mc import sp
    part = Part()
    k = job['k']
    mpc, seam = sp.setup(sec_param=k, no_prss=True)
    ops = build(mpc)
    cfg = cfgname or f'sp/k{k}'
    for name in job['ops']:
        op = ops[name]
        for vals in itertools.product(op.domain, repeat=op.arity):
            want = op.ref(vals)
            if want is None:
                continue
            try:
                got, draws = eval_sp(mpc, seam, op, vals, 'seeded', None, job['seed'])
            except Exception as exc:
                part.case(key=None)
                part.violation(f'{pid}:{name}:exception', f'[{cfg}] {name}{tuple(vals)} raised {exc!r}',
                               dict(engine='sp', name=name, vals=list(vals), mode='seeded', script={}, k=k, seed=job['seed']))
                continue
            judge_sp(part, pid, name, cfg, vals, 'seeded', None, got, want, op.kind, draws, job)
            maxpts = op.maxpts if op.maxpts is not None else (10 if job['tier'] == 'thorough' or op.arity == 1 else 6)
            scripts = [('seeded2', None)] if op.full == -1 else \
                sp.mask_scripts(draws, job['tier'], max_points=maxpts, full_product_limit=op.full)
            for mode, script in scripts:
                try:
                    got, d2 = eval_sp(mpc, seam, op, vals, mode, script, job['seed'])
                except Exception as exc:
                    part.case(key=None)
                    part.violation(f'{pid}:{name}:exception', f'[{cfg}] {name}{tuple(vals)} raised {exc!r} (masks: {mode} {script})',
                                   dict(engine='sp', name=name, vals=list(vals), mode=mode,
                                        script={str(a): b for a, b in (script or {}).items()}, k=k, seed=job['seed']))
                    continue
                judge_sp(part, pid, name, cfg, vals, mode, script, got, want, op.kind, d2, job)
    part.note('blinding_draws_forced_nonzero', seam.blinding_forced)
    return part


def judge_sp(part, pid, name, cfg, vals, mode, script, got, want, kind, draws, job):
    part.case(key=None, nontrivial=bool(draws))
    part.outcomes.add(stable_hash((name, repr(got))) & 0xffffff)
    res = check_result(kind, got, want)
    if res is not True and res != 1:
        key = _vkey(pid, name, res)
        part.violation(key, f'[{cfg}] {name}{tuple(vals)} = {got!r}, reference gives {want!r} (masks: {mode} {script})',
                       dict(engine='sp', name=name, vals=list(vals), mode=mode, script={str(a): b for a, b in (script or {}).items()},
                            k=job.get('k'), seed=job['seed'], cfg=cfg))
    if len(part.samples) < 2 and script and len(vals) >= 1 and draws:
        part.sample(dict(config=cfg, op=name, inputs=list(vals), mask_script=script, draws=[list(d) for d in draws][:8], result=repr(got)))


def replay_sp(pid, case, build):
    from mc import sp
    part = Part()
    mpc, seam = sp.setup(sec_param=case['k'], no_prss=True)
    op = build(mpc)[case['name']]
    script = {int(a): b for a, b in case['script'].items()} or None
    vals = tuple(tuple(v) if isinstance(v, list) else v for v in case['vals'])
    try:
        got, draws = eval_sp(mpc, seam, op, vals, case['mode'], script, case['seed'])
    except Exception as exc:
        part.violation(f"{pid}:{case['name']}:exception", f'{case["name"]}{vals} raised {exc!r}', case)
        return part
    want = op.ref(vals)
    res = check_result(op.kind, got, want)
    if res is not True and res != 1:
        part.violation(_vkey(pid, case['name'], res), f'{case["name"]}{vals} = {got!r}, reference gives {want!r}', case)
    return part


# ------------------------------------------------------------------------------------------
# multi-party engine
# ------------------------------------------------------------------------------------------

def _in_is_zero_public():
    import sys
    f = sys._getframe(2)
    depth = 0
    while f is not None and depth < 10:
        if f.f_code.co_name in ('is_zero_public', 'np_is_zero_public'):
            return True
        f = f.f_back
        depth += 1
    return False


def _use_pattern(world, key, bound, s):
    """All parties must agree on whether a PRF value is patterned: the first party to evaluate (key, bound, input)
    decides (while the budget lasts -- Las-Vegas retry loops must end) and the others follow."""
    dk = (bytes(key), bound, bytes(s))
    d = world.pattern_decisions.get(dk)
    if d is None:
        d = world.pattern_budget > 0
        if d:
            world.pattern_budget -= 1
        world.pattern_decisions[dk] = d
    return d


class PatternPRF:
    """thresha.PRF stand-in: real SHAKE-based values, except that mask-type outputs (power-of-two bound) are all 0 /
    all max when the world's mask pattern says so -- every subset's contribution at its extreme at the same time --
    and that the blinding factor of is_zero_public is kept non-zero (every subset contributes 1)."""

    def __init__(self, real_cls, world):
        self.real_cls, self.world = real_cls, world

    def __call__(self, key, bound):
        real = self.real_cls(key, bound)
        world = self.world
        from mc.sp import is_mask_bound
        maskish = is_mask_bound(bound)

        def prf(s, n=None):
            vals = real(s, n)
            mode = world.mask_pattern
            if bound.bit_length() // world.cfg['sec_param'] >= 2 and _in_is_zero_public():
                world.blinding_forced = getattr(world, 'blinding_forced', 0) + 1
                return 1 if n is None else [1] * n
            if mode in ('zero', 'max') and maskish and _use_pattern(world, key, bound, s):
                v = 0 if mode == 'zero' else bound - 1
                if n is None:
                    return v
                if isinstance(n, int):
                    return [v] * n
            return vals
        return prf


def sec_param_for(m, t, base=4):
    """PRSS masks of nominal range 2^k degenerate to nothing when 2^k < 2*C(m,t)."""
    k = base
    while math.comb(m, t) * 4 > (1 << k):
        k += 1
    return k


def make_world(m, t, no_prss, k):
    from mc.world import World
    from mc import sp
    world = World(m, t, no_prss, sec_param=k, seed=None)
    world.HORIZON = 3_000_000
    seams = []
    for i, u in enumerate(world.universes):
        s = sp.ScriptSecrets(party=i, multi=m > 1)
        s.sec_param = k
        u.rtmod.secrets = s
        u.thresha.secrets = s
        seams.append(s)
        if not hasattr(u.thresha, '_verif_real_PRF'):
            u.thresha._verif_real_PRF = u.thresha.PRF
        u.thresha.PRF = PatternPRF(u.thresha._verif_real_PRF, world)
    world.script_seams = seams
    world.mask_pattern = 'seeded'
    world.pattern_budget = 0
    world.pattern_decisions = {}
    return world


def _placeholder(mpc, a):
    if isinstance(a, mpc.SecureFixedPoint):
        return type(a)(None, integral=a.integral)
    if isinstance(a, (mpc.SecureInteger, mpc.SecureFiniteField, mpc.SecureFloat)):
        return type(a)(None)
    return a


def make_mp_program(build):
    async def mp_program(mpc, ctx):
        await mpc.start()
        ops = build(mpc)
        m = len(mpc.parties)
        res = []
        for idx, (name, vals) in enumerate(ctx['cases']):
            op = ops[name]
            sender = idx % m
            plain = [op.make(v) for v in vals]
            if mpc.pid != sender:
                # private inputs: only the sender knows the values, the other parties pass placeholders (a fixed-point
                # placeholder carries the sender's integrality mark: input() takes the mark from the party's own argument,
                # see the C03 known finding about marks inferred from private values)
                plain = [_placeholder(mpc, a) for a in plain]
            if all(isinstance(a, mpc.SecureObject) for a in plain) and plain and len({type(a) for a in plain}) == 1 \
                    and not hasattr(type(plain[0]), '_input') and not getattr(type(plain[0]), 'frac_length', 0):
                # (fixed-point numbers are input one by one: a list input takes the integral flag of element 0
                #  for all elements, which is C03's business)
                args = mpc.input(plain, senders=sender)
            else:
                args = [mpc.input(a, senders=sender) if isinstance(a, mpc.SecureObject) else a for a in plain]
            try:
                r = op.fn(*args)
                if op.kind == 'public':
                    got = await r
                else:
                    if isinstance(r, tuple):
                        r = list(r)
                    got = await mpc.output(r)
            except Exception as exc:     # raised synchronously by the operation
                got = ('raised', repr(exc))
            res.append(got)
            if idx % 8 == 7:
                await mpc.barrier()
        ctx['results'] = res
        await mpc.shutdown()
    return mp_program


def mp_cases(build, names=None):
    ops = build(Dummy())
    cases = []
    for name in sorted(ops):
        if names is not None and name not in names:
            continue
        op = ops[name]
        dom = op.mp_domain if op.mp_domain is not None else op.domain
        for vals in itertools.product(dom, repeat=op.arity):
            if op.ref(vals) is not None:
                cases.append((name, vals))
    return cases


def run_mp(pid, job, build, base_k=4, batch=24, patterns=('seeded', 'zero', 'max'), names=None):
    """job: dict(m, t, no_prss, part, parts, tier, seed)."""
    from mc.explorer import run_execution
    part = Part()
    m, t, no_prss = job['m'], job['t'], job['no_prss']
    k = job.get('k') or sec_param_for(m, t, base_k)
    world = make_world(m, t, no_prss, k)
    seams = world.script_seams
    refops = build(Dummy())
    cases = mp_cases(build, names)
    if m >= 6:
        cases = [c for i, c in enumerate(cases) if refops[c[0]].arity < 3 or i % 3 == 0]
    mine = cases[job['part']::job['parts']]
    cfg = f"mp/m{m}t{t}{'-noprss' if no_prss else ''}/k{k}"
    program = make_mp_program(build)
    for lo in range(0, len(mine), batch):
        chunk = mine[lo:lo + batch]
        for pat in patterns:
            ctxs = []

            def setup(w):
                ctxs.clear()
                w.mask_pattern = pat
                w.pattern_budget = 400 * len(chunk)
                w.pattern_decisions = {}
                for i, s in enumerate(seams):
                    s.begin(pat, job['seed'] * 100 + i, None)
                for p in range(m):
                    ctxs.append(dict(cases=chunk))
                    w.spawn(p, program, ctxs[p])
            for i, s in enumerate(seams):
                s.begin(pat, job['seed'] * 100 + i, None)      # PRSS keys are drawn when the runtimes are rebuilt
            x = run_execution(world, setup, (), 'eager', 'none', sched_alts=False)
            part.transitions += x.nsteps
            if x.status != 'done' or any('results' not in c for c in ctxs):
                part.violation(f'{pid}:mp:incomplete', f'[{cfg}] batch {chunk[:2]}.. ends {x.status}: {world.loop_errors!r:.300}',
                               dict(engine='mp', job=job, lo=lo, pat=pat))
                continue
            for idx, (name, vals) in enumerate(chunk):
                op = refops[name]
                want = op.ref(vals)
                gots = [c['results'][idx] for c in ctxs]
                part.case(key=None, nontrivial=True)
                part.outcomes.add(stable_hash((name, repr(gots[0]))) & 0xffffff)
                if any(repr(g) != repr(gots[0]) for g in gots):
                    part.violation(f'{pid}:{name}:parties-differ', f'[{cfg}] {name}{vals}: parties obtained {gots!r:.200} (masks {pat})',
                                   dict(engine='mp', job=job, lo=lo, pat=pat, idx=idx))
                elif isinstance(gots[0], tuple) and gots[0] and gots[0][0] == 'raised':
                    part.violation(f'{pid}:{name}:exception', f'[{cfg}] {name}{vals} raised {gots[0][1]}',
                                   dict(engine='mp', job=job, lo=lo, pat=pat, idx=idx))
                else:
                    res = check_result(op.kind, gots[0], want)
                    if res is not True and res != 1:
                        part.violation(_vkey(pid, name, res),
                                       f'[{cfg}] {name}{vals} = {gots[0]!r}, reference gives {want!r} (masks {pat})',
                                       dict(engine='mp', job=job, lo=lo, pat=pat, idx=idx))
                if len(part.samples) < 1 and op.arity == 2 and idx == 3:
                    part.sample(dict(config=cfg, op=name, inputs=list(vals), mask_pattern=pat, results_per_party=[repr(g) for g in gots]))
    part.note('blinding_draws_forced_nonzero', sum(s.blinding_forced for s in seams) + getattr(world, 'blinding_forced', 0))
    return part


def mp_jobs(tier, seed, quick_cfgs, mmax=7, parts=lambda m: 2 if m <= 3 else 4 if m <= 5 else 6, extra=None):
    out = []
    for m in range(1, mmax + 1):
        for t in range(0, (m - 1) // 2 + 1):
            for no_prss in (False, True):
                if tier == 'quick' and (m, t, no_prss) not in quick_cfgs:
                    continue
                n = parts(m) * (2 if tier == 'thorough' else 1)
                for part in range(n):
                    j = dict(engine='mp', m=m, t=t, no_prss=no_prss, part=part, parts=n, tier=tier, seed=seed)
                    if extra:
                        j.update(extra)
                    out.append(j)
    return out


QUICK_CFGS = ((1, 0, False), (2, 0, False), (3, 1, False), (3, 1, True), (4, 1, True), (5, 2, False), (5, 2, True), (7, 3, False))
CORE_CFGS = ((1, 0, False), (1, 0, True), (2, 0, False), (2, 0, True), (3, 1, False), (3, 1, True), (4, 1, False), (4, 1, True),
             (5, 2, False), (5, 2, True))
