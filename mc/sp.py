"""Single-party engine: the real mpyc runtime with m=1 in synchronous mode (every protocol runs
to completion inside the call), with ALL randomness scripted through a seam on
runtime.secrets / thresha.secrets (use --no-prss so that masks, bits and blinding values are
drawn directly with secrets.randbelow / randbits).

Mask scripts: 'seeded' (deterministic pseudo-random), 'zero' / 'max' (every mask and bit at
its extreme), and point scripts {draw index: value}.  The one inherent failure event of the
protocols -- is_zero_public's blinding factor r == 0 on large fields, probability 1/p -- is
excluded by construction (r is forced non-zero) and named in the evidence.
"""

import sys
import random as _pyrandom


def is_mask_bound(n):
    """Bounds of statistical masks: 2^j (after division among the contributors) or 2^j // d + 1 (conversion masks),
    d = number of contributors <= C(7,3).  Field orders used here are primes / small prime powers and are not of that form
    (and if one were, the only field randomness that must not be extreme -- the blinding factor -- is handled first)."""
    if n < 2:
        return False
    if n & (n - 1) == 0:
        return True
    if n < 17:
        return False
    for d in range(1, 36):
        lo, hi = (n - 1) * d, n * d            # is there a power of two in [lo, hi) ?
        p2 = 1 << (lo - 1).bit_length() if lo > 1 else 1
        if lo <= p2 < hi:
            return True
    return False


class ScriptSecrets:
    PATTERN_LIMIT = 48      # extreme patterns apply to the first draws only (rejection loops must end)

    def __init__(self, rtfile=None, party=0, multi=False):
        self.rtfile = rtfile
        self.party, self.multi = party, multi
        self.sec_param = None       # set by the engine: the blinding rule applies on the large-field path only
        self.begin('seeded', 0, None)
        self.blinding_forced = 0

    def begin(self, mode, seed, script):
        self.mode = mode
        self.rng = _pyrandom.Random(seed)
        self.script = script or {}
        self.log = []

    # -- classification --------------------------------------------------------------------
    @staticmethod
    def is_mask(kind, n):
        return kind == 'bits' or is_mask_bound(n)

    def _blinding_site(self):
        f = sys._getframe(3)
        depth = 0
        while f is not None and depth < 12:
            if f.f_code.co_name in ('is_zero_public', 'np_is_zero_public'):
                return True
            f = f.f_back
            depth += 1
        return False

    def _decide(self, kind, n):
        idx = len(self.log)
        r = self.rng.randrange(n)          # always consume, so scripts differ only where they say so
        if idx in self.script:
            v = self.script[idx] % n
        elif self.mode == 'zero' and self.is_mask(kind, n) and idx < self.PATTERN_LIMIT:
            v = 0
        elif self.mode == 'max' and self.is_mask(kind, n) and idx < self.PATTERN_LIMIT:
            v = n - 1
        else:
            v = r
        if (v == 0 or self.multi) and kind == 'below' and self.sec_param and n.bit_length() // self.sec_param >= 2 and self._blinding_site():
            # excluded event: blinding factor 0 (probability 1/p).  With several parties the factor is the SUM of the
            # senders' draws: distinct small values party+1 keep the sum in 1..m(t+1) < p
            v = self.party + 1 if self.multi else 1
            self.blinding_forced += 1
        self.log.append((kind, n, v))
        return v

    def randbelow(self, n):
        return self._decide('below', n)

    def randbits(self, k):
        if k == 0:
            return 0
        return self._decide('bits', 1 << k)

    def token_bytes(self, n=32):
        return bytes(self.rng.getrandbits(8) for _ in range(n))

    def choice(self, seq):
        return seq[self._decide('below', len(seq))]


_state = {}


def setup(sec_param=None, no_prss=True, bit_length=None):
    """Import the runtime once per process as a 1-party synchronous runtime; return (mpc, seam)."""
    if 'mpc' not in _state:
        argv = sys.argv
        sys.argv = ['verif', '--no-log'] + (['--no-prss'] if no_prss else [])
        try:
            import mpyc.runtime as rtmod
            from mpyc import thresha
        finally:
            sys.argv = argv
        seam = ScriptSecrets(rtmod.__file__)
        rtmod.secrets = seam
        thresha.secrets = seam
        _state.update(mpc=rtmod.mpc, seam=seam, rtmod=rtmod, no_prss=no_prss)
    elif _state['no_prss'] != no_prss:
        raise RuntimeError('one PRSS mode per process')
    mpc = _state['mpc']
    _state['seam'].sec_param = sec_param if sec_param is not None else mpc.options.sec_param
    if sec_param is not None and mpc.options.sec_param != sec_param:
        mpc.options.sec_param = sec_param
        from mpyc import sectypes
        for name in ('_SecInt', '_SecFxp', '_SecFlt', '_SecFld'):
            getattr(sectypes, name).cache_clear()
    return mpc, _state['seam']


def opened(mpc, x, **kw):
    """Open secure x (or list) in synchronous mode and return plain values."""
    if isinstance(x, tuple):
        x = list(x)
    r = mpc.output(x, **kw)
    if hasattr(r, 'result'):
        r = r.result()
    return r


def alphabet(kind, n):
    """Values tried for one draw with range(n): everything when small, else the extremes and powers of two."""
    if n <= 16:
        return list(range(n))
    vals = {0, 1, 2, n - 2, n - 1, n // 2, n // 2 - 1, n // 2 + 1}
    j = 1
    while (1 << j) < n:
        vals.update(((1 << j) - 1, 1 << j))
        j += max(1, n.bit_length() // 6)
    return sorted(v for v in vals if 0 <= v < n)


def mask_scripts(draws, tier, max_points=10, full_product_limit=0):
    """Scripts to run after a seeded probe run that made `draws` = [(kind, n, v), ...].
    Returns list of (mode, script) in addition to the seeded run itself."""
    scripts = [('zero', None), ('max', None), ('seeded2', None)]
    maskidx = [i for i, (kind, n, v) in enumerate(draws) if ScriptSecrets.is_mask(kind, n)]
    space = 1
    for i in maskidx:
        space *= min(draws[i][1], 64)
        if space > 10 ** 9:
            break
    if full_product_limit and maskidx and space <= full_product_limit:
        import itertools
        for combo in itertools.product(*[range(draws[i][1]) for i in maskidx]):
            scripts.append(('seeded', dict(zip(maskidx, combo))))
        return scripts
    for i, (kind, n, v) in enumerate(draws[:max(0, max_points)]):
        for a in alphabet(kind, n):
            if a != v:
                scripts.append(('seeded', {i: a}))
    return scripts
