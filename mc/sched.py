"""Shared driver for the schedule properties C08 / C09 / C35 (and reused by others):
programs of the corpus are executed by m real parties in the virtual world, and every
schedule within the deviation bound is checked against the property's oracle."""

import math
import itertools
import collections

from mc.core import Part, stable_hash
from mc.world import World, parse_wire, HarnessError
from mc.explorer import run_execution, explore, first_level_deviations
from mc.programs import PROGRAMS, Ctx, MICRO


def make_setup(prog, holder):
    def setup(world):
        holder.clear()
        for p in range(world.m):
            ctx = Ctx(world, p)
            holder.append(ctx)
            world.spawn(p, prog['fn'], ctx)
    return setup


def handshake_len(world, src, dst):
    """Bytes of the opening handshake on link src->dst, derived independently of asyncoro:
    only the client (lower pid) sends one: 2-byte pid + 16 bytes per PRSS key shared with dst."""
    if src > dst:
        return 0
    n = 2
    if not world.cfg['no_prss']:
        m, t = world.m, world.t
        for S in itertools.combinations(range(m), m - t):
            if S[0] == src and dst in S:
                n += 16
    return n


# ------------------------------------------------------------------------------------------
# oracles: each returns a list of (key, what) problems
# ------------------------------------------------------------------------------------------

def oracle_c08(world, x, ctxs, ref):
    probs = []
    if x.status != 'done':
        ws = world.waiting_summary()
        mism = any(ws[p]['waits'] for p in ws) and any(ws[p]['holds'] for p in ws)
        probs.append((f'{x.status}', f'{x.status}: parties do not run to completion'
                      + (' (waiting for labels nobody sent while holding unconsumed ones)' if mism else '')
                      + f' {ws}'[:600]))
        return probs
    for p in range(world.m):
        r = world.result(p)
        if r[0] != 'ok':
            probs.append(('main-' + r[0], f'party {p} main program {r}'))
    for p in range(world.m):
        if world.loop_errors[p]:
            probs.append(('loop-error', f'party {p}: {world.loop_errors[p][:2]}'))
    if ref is not None:
        for p in range(world.m):
            if ctxs[p].view() != ref[p]:
                probs.append(('output-differs', f'party {p} log {ctxs[p].view()!r:.300} != reference {ref[p]!r:.300}'))
                break
    return probs


def wire_frames(world):
    out = {}
    for (src, dst), link in world.links.items():
        hs, frames, rest = parse_wire(link.wire, handshake_len(world, src, dst))
        out[(src, dst)] = (frames, rest)
    return out


def oracle_c09(world, x, ctxs, ref):
    probs = []
    if x.status != 'done':
        return probs       # termination is C08's business; C09 judges completed runs
    frames = wire_frames(world)
    recvs = collections.defaultdict(list)
    for kind, p, peer, label, n, site in world.msglog:
        if kind == 'recv':
            recvs[(peer, p)].append(label)
    for (src, dst), (fr, rest) in frames.items():
        labels = [l for l, _ in fr]
        dup = [l for l, c in collections.Counter(labels).items() if c > 1]
        if dup:
            sites = sorted({s for k, p, peer, l, n, s in world.msglog if k == 'send' and p == src and peer == dst and l in dup})
            probs.append(('duplicate-label', f'link {src}->{dst}: label used twice {dup[:2]} by {sites}'))
        if rest:
            probs.append(('trailing-bytes', f'link {src}->{dst}: {len(rest)} bytes after the last frame'))
        rl = recvs.get((src, dst), [])
        if sorted(labels) != sorted(rl):
            sent, got = collections.Counter(labels), collections.Counter(rl)
            probs.append(('unmatched', f'link {src}->{dst}: sent-not-received {list((sent - got).items())[:3]} '
                          f'received-not-sent {list((got - sent).items())[:3]}'))
    for p in range(world.m):
        for (me, peer), tr in world.transports.items():
            if me != p or tr.protocol is None:
                continue
            proto = tr.protocol
            if proto.buffers:
                kinds = ['future' if hasattr(v, 'done') else 'payload' for v in proto.buffers.values()]
                probs.append(('leftover-buffer', f'party {p} peer {peer}: {kinds[:3]} left after shutdown'))
            if len(proto.bytes):
                probs.append(('leftover-bytes', f'party {p} peer {peer}: {len(proto.bytes)} unparsed bytes'))
    return probs


def oracle_c35(world, x, ctxs, ref):
    probs = []
    for p in range(world.m):
        for name, pending in ctxs[p].barrier_reports:
            if pending:
                probs.append(('barrier-early', f'party {p}: barrier {name!r} returned with unfinished coroutines {pending[:3]}'))
    for (p, peer, active, pending) in world.close_reports:
        if pending:
            probs.append(('close-early', f'party {p} closed its connection to {peer} '
                          f'({"shutdown" if active else "peer EOF"}) with unfinished coroutines {pending[:3]}'))
    for p in range(world.m):
        # an exception inside a connection callback during start/shutdown (e.g. a Future completed twice by connection_lost)
        for e in world.loop_errors[p][:1]:
            probs.append(('callback-error', f'party {p}: exception in an event-loop callback: {e.get("exception") or e.get("message")}'))
    if x.status == 'done':
        for p in range(world.m):
            rt = world.mpcs[p]
            if rt._pc_level != 0:
                probs.append(('pc-level', f'party {p}: _pc_level={rt._pc_level} after shutdown'))
            for peer in rt.parties:
                if peer.pid != p and peer.protocol is not None:
                    probs.append(('not-closed', f'party {p}: connection to {peer.pid} still registered after shutdown'))
        for (src, dst), link in world.links.items():
            if not link.src_closed:
                probs.append(('not-closed', f'link {src}->{dst} never closed'))
        if world.write_after_close:
            probs.append(('write-after-close', f'{world.write_after_close[:3]}'))
    elif x.status in ('deadlock', 'horizon'):
        probs.append(('shutdown-incomplete', f'{x.status}: shutdown does not complete on all parties'))
    return probs


ORACLES = {'C08': oracle_c08, 'C09': oracle_c09, 'C35': oracle_c35, 'C37': oracle_c08, 'C38': oracle_c08}


def install_close_monitor(world):
    """Record, at every connection close, the MPyC coroutines of that party still running."""
    world.close_reports = []

    def on_close(p, peer):
        import sys
        f = sys._getframe(1)
        active = False
        while f is not None:
            if f.f_code.co_name == 'close_connection':
                active = True
                break
            f = f.f_back
        pending = []
        for t in world.tasklog[p]:
            if not t.done():
                if not active and 'shutdown' in t.verif_site:
                    continue      # the synchronising transfer of shutdown() itself
                pending.append(f'{t.verif_name}@{t.verif_site}')
        world.close_reports.append((p, peer, active, pending))
    world.on_close = on_close


# ------------------------------------------------------------------------------------------
# jobs
# ------------------------------------------------------------------------------------------

SMALL = ('mul_cmp', 'mod_race', 'reverse_await', 'subset_output', 'transfer_graph', 'barrier_top',
         'barrier_nested', 'early_return', 'user_coro', 'convert', 'small_field', 'throttle',
         'zero_tests', 'linalg', 'survivors', 'no_barrier_shutdown', 'restart_threshold', 'barrier_single')
MEDIUM = ('nopc_ops_race', 'randoms', 'mutate_after_call', 'pc_ops_race0', 'pc_ops_race1', 'pc_ops_race2', 'pc_ops_race3')
# everything else is LARGE (thousands of steps per execution)
# approximate number of single deviations of the default run, for slicing only
_ALTS = {2: 150, 3: 600, 5: 2500}


def _bound(tier, name, m, no_prss, policy, prop=None):
    small, medium, micro = name in SMALL, name in MEDIUM, name in MICRO
    if m > 3:
        return 0 if tier == 'quick' else 1
    if tier == 'quick':
        if micro and m == 2 and policy == 'eager':
            return 2
        if small:
            return 1
        if medium:
            return 1 if (policy == 'eager' and not no_prss) else 0
        return 0
    if small:
        # two deviations: the three micro programs (C35: every small barrier program) at m = 2, and at m = 3 with PRSS, eager;
        # everything else one deviation (two deviations on all 15 small programs made C08/C09 thorough a matter of many hours)
        if micro or prop == 'C35':
            return 2 if (m == 2 or (micro and not no_prss and policy == 'eager')) else 1
        return 1
    if medium:
        return 1
    return 1 if m == 2 else 0          # large programs: one deviation with two parties, default schedules with three


def plan(prop, tier, seed, programs=None):
    """Jobs: one slice of the deviation tree of one (program, m, t, PRSS mode, default policy)."""
    jobs = []
    names = programs or sorted(PROGRAMS)
    for name in names:
        prog = PROGRAMS[name]
        if prop == 'C35' and 'barrier' not in prog['tags'] and name not in ('mul_cmp', 'mod_race'):
            continue
        if prop != 'C08' and name == 'restart_threshold':
            continue        # two connections per link in one execution: the per-link frame accounting of C09 assumes one
        for m in prog['ms']:
            if m > 3 and tier == 'quick' and prop != 'C08':
                continue
            t = (m - 1) // 2
            for no_prss in (False, True):
                for policy in ('eager', 'lazy'):
                    bound = _bound(tier, name, m, no_prss, policy, prop)
                    if prop != 'C08' and bound > 1 and tier == 'quick':
                        bound = 1
                    big = name not in SMALL
                    est = _ALTS.get(m, 600) * (8 if big else 1)
                    slices = 1 if bound == 0 else max(1, min(64, (est ** bound) // (1500 if not big else 300)))
                    for k in range(slices):
                        jobs.append(dict(prop=prop, prog=name, m=m, t=t, no_prss=no_prss, policy=policy,
                                         bound=bound, k=k, slices=slices, seed=seed,
                                         chunks='light' if tier == 'quick' else 'full'))
    # heavy jobs first (better packing)
    jobs.sort(key=lambda j: (-j['bound'], j['prog'] in SMALL, -j['m']))
    return jobs


def run_job(job):
    part = Part()
    prog = PROGRAMS[job['prog']]
    world = World(job['m'], job['t'], job['no_prss'], seed=job['seed'])
    install_close_monitor(world)
    ctxs = []
    setup = make_setup(prog, ctxs)
    oracle = ORACLES[job['prop']]
    policy, chunks = job['policy'], job['chunks']

    # reference run (twice: determinism of the harness is a precondition, not a finding)
    x0 = run_execution(world, setup, (), policy, chunks, record_states=True)
    ref = [list(c.view()) for c in ctxs]
    wires0 = {k: bytes(l.wire) for k, l in world.links.items()}
    keys0 = x0.state_keys
    x0b = run_execution(world, setup, (), policy, chunks, record_states=True)
    if [list(c.view()) for c in ctxs] != ref or {k: bytes(l.wire) for k, l in world.links.items()} != wires0 \
            or x0b.state_keys != keys0:
        raise HarnessError('default execution is not deterministic')
    exp = prog['expect'](job['m']) if prog['expect'] else None
    cfgname = f"{job['prog']}/m{job['m']}t{job['t']}{'-noprss' if job['no_prss'] else ''}/{policy}"
    if job['k'] == 0:
        # the zero-deviation run must itself be right (against the plain reference where given)
        if x0.status == 'done' and exp is not None:
            for p in range(world.m):
                if ref[p] != exp:
                    part.violation(f"{job['prop']}:{cfgname}:reference",
                                   f'default schedule: party {p} log {ref[p]!r:.200} != plain reference {exp!r:.200}',
                                   dict(job=job, deviations=[]))
                    break
    if x0.status != 'done':
        ref_use = None
    else:
        ref_use = ref
        if len({repr(r) for r in ref}) != 1 and job['prog'] not in ('subset_output', 'transfer_graph', 'early_return'):
            part.violation(f"{job['prop']}:{cfgname}:parties-differ", f'parties log different results {ref!r:.300}',
                           dict(job=job, deviations=[]))

    def judge(world, x):
        probs = oracle(world, x, ctxs, ref_use)
        part.case(key=(cfgname, x.deviations), nontrivial=bool(x.deviations) or job['k'] == 0)
        part.outcomes.add(stable_hash((x.status, [c.view() for c in ctxs])))
        part.note_max('max_steps', x.nsteps)
        for key, what in probs:
            part.violation(f"{job['prop']}:{job['prog']}:{key}", f'[{cfgname}] {what}',
                           dict(job=job, deviations=list(x.deviations)))
        if len(part.samples) < 2 and x.deviations:
            part.sample(dict(config=cfgname, deviations=list(x.deviations), status=x.status,
                             steps=x.nsteps, log=ctxs[0].log))

    if job['bound'] == 0:
        if job['k'] == 0:
            x = run_execution(world, setup, (), policy, chunks, record_states=True)
            judge(world, x)
            part.transitions += x.nsteps
            part.state_keys = set(x.state_keys)
        return part
    _, fl = first_level_deviations(world, setup, policy, chunks)
    mine = fl[job['k']::job['slices']]
    budget = job.get('budget')
    n = explore(world, setup, judge, job['bound'], first_level=mine, policy=policy, chunks=chunks,
                record_states=True, part=part, budget=budget)
    # explore() ran the un-deviated prefix once more as the root of this slice: it was judged too
    part.traces += n
    part.note('executions', n)
    part.note('deviation_bound', {f"{cfgname}": job['bound']} if job['k'] == 0 else {})
    return part


def replay(case):
    part = Part()
    job = case['job']
    prog = PROGRAMS[job['prog']]
    world = World(job['m'], job['t'], job['no_prss'], seed=job['seed'])
    install_close_monitor(world)
    ctxs = []
    setup = make_setup(prog, ctxs)
    x0 = run_execution(world, setup, (), job['policy'], job['chunks'])
    ref = [list(c.view()) for c in ctxs] if x0.status == 'done' else None
    devs = [(i, a) for i, a in case['deviations']]
    x = run_execution(world, setup, devs, job['policy'], job['chunks'])
    for key, what in ORACLES[job['prop']](world, x, ctxs, ref):
        part.violation(f"{job['prop']}:{job['prog']}:{key}", what, case)
    return part
